#![allow(clippy::all)]
#![allow(dead_code)]

extern crate redirectionio;

use redirectionio::RouterConfig;
use redirectionio::action::{Action, TraceAction};
use redirectionio::api::Rule;
use redirectionio::http::{PathAndQueryWithSkipped, Request};
use redirectionio::router::{Route, Router, Trace};
use serde_json::{Value, json};
use std::collections::{BTreeSet, HashSet};
use std::sync::Arc;

// ---------------------------------------------------------------- helpers

struct Rng(u64);

impl Rng {
    fn next(&mut self) -> u64 {
        // xorshift64*
        let mut x = self.0;
        x ^= x >> 12;
        x ^= x << 25;
        x ^= x >> 27;
        self.0 = x;
        x.wrapping_mul(0x2545F4914F6CDD1D)
    }
    fn below(&mut self, n: usize) -> usize {
        (self.next() % (n as u64)) as usize
    }
    fn chance(&mut self, num: usize, den: usize) -> bool {
        self.below(den) < num
    }
    fn pick<'a, T>(&mut self, items: &'a [T]) -> &'a T {
        &items[self.below(items.len())]
    }
}

fn ids(routes: &[Arc<Route<Rule>>]) -> BTreeSet<String> {
    routes.iter().map(|r| format!("{}#{:p}", r.id(), Arc::as_ptr(r))).collect()
}

fn plain_ids(routes: &[Arc<Route<Rule>>]) -> Vec<String> {
    let mut v: Vec<String> = routes.iter().map(|r| r.id().to_string()).collect();
    v.sort();
    v
}

/// ids found in the `routes` arrays of `storage` nodes of a serialised trace
fn storage_ids_of_json(value: &Value, out: &mut BTreeSet<String>) {
    match value {
        Value::Array(items) => {
            for item in items {
                storage_ids_of_json(item, out);
            }
        }
        Value::Object(map) => {
            if map.get("type").and_then(|t| t.as_str()) == Some("storage") {
                if let Some(Value::Array(routes)) = map.get("routes") {
                    for route in routes {
                        out.insert(route["id"].as_str().unwrap().to_string());
                    }
                }
            }
            if let Some(children) = map.get("children") {
                storage_ids_of_json(children, out);
            }
        }
        _ => {}
    }
}

fn gen_config(rng: &mut Rng) -> RouterConfig {
    serde_json::from_value(json!({
        "ignore_host_case": rng.chance(1, 2),
        "ignore_header_case": rng.chance(1, 2),
        "ignore_path_and_query_case": rng.chance(1, 2),
        "ignore_marketing_query_params": rng.chance(1, 2),
        "pass_marketing_query_params_to_target": rng.chance(1, 2),
        "always_match_any_host": rng.chance(1, 2),
    }))
    .unwrap()
}

fn gen_rule(rng: &mut Rng, id: usize, rank: u16) -> Rule {
    let schemes = [Value::Null, Value::Null, json!(""), json!("http"), json!("https"), json!("HTTP")];
    let hosts = [
        Value::Null,
        Value::Null,
        json!(""),
        json!("example.org"),
        json!("Example.org"),
        json!("www.example.org"),
        json!("@sub.example.org"),
        json!("@sub.Example.org"),
        json!("www.@dom"),
        json!("ex@sub.org"),
        json!("@sub"),
        json!("éxample.org"),
    ];
    let methods = [
        Value::Null,
        Value::Null,
        json!([]),
        json!(["GET"]),
        json!(["POST"]),
        json!(["GET", "POST"]),
        json!(["GET", "GET"]),
        json!(["get"]),
        json!(["PUT", "GET"]),
    ];
    let excludes = [Value::Null, Value::Null, json!(true), json!(false)];
    let paths = [
        "/", "/a", "/a/b", "/A/b", "/a/@m", "/a/@m/c", "/@m", "/a b", "/é", "/a/(x)", "/a/@m/@n", "/a/b@m", "/a/@n", "/a/bc", "/a/b/c",
        "/a/[x]", "/@n/b", "/a/@m@n", "", "/a/b/", "/a%20b",
    ];
    let queries = [
        Value::Null,
        Value::Null,
        Value::Null,
        json!("x=1"),
        json!("b=2&a=1"),
        json!("utm_source=z"),
        json!("A=1"),
        json!("x=@m"),
        json!("a=1&utm_source=z"),
        json!(""),
    ];
    let marker_m = ["[a-z]+", ".*", "[A-Z]+", "(b|c)", "b", "[a-z]*", "(?:b/c|b)", "[^/]+", "é+", "\\d+"];
    let marker_n = ["[a-z]+", ".+", "b|c", "[0-9]+"];
    let header_pool = [
        json!({"type": "is_defined", "name": "X-A"}),
        json!({"type": "is_defined", "name": "x-a"}),
        json!({"type": "is_not_defined", "name": "X-A"}),
        json!({"type": "is_not_defined", "name": "X-B"}),
        json!({"type": "is_equals", "name": "X-A", "value": "v"}),
        json!({"type": "is_equals", "name": "X-A", "value": "V"}),
        json!({"type": "is_not_equal_to", "name": "X-A", "value": "v"}),
        json!({"type": "contains", "name": "X-B", "value": "oo"}),
        json!({"type": "does_not_contain", "name": "X-B", "value": "oo"}),
        json!({"type": "ends_with", "name": "X-B", "value": "o"}),
        json!({"type": "starts_with", "name": "X-B", "value": "F"}),
        json!({"type": "match_regex", "name": "X-B", "value": "f@m"}),
        json!({"type": "match_regex", "name": "X-B", "value": "F@n"}),
        json!({"type": "match_regex", "name": "X-B", "value": "nomarker"}),
        json!({"type": "is_equals", "name": "X-A"}),
        json!({"type": "bogus", "name": "X-A", "value": "v"}),
        json!({"type": "is_defined", "name": "X-C"}),
    ];
    let ips = [
        Value::Null,
        Value::Null,
        Value::Null,
        json!([{"in_range": "10.0.0.0/8"}]),
        json!([{"not_in_range": "10.0.0.0/8"}]),
        json!([{"in_range": "10.0.0.0/8"}, {"not_in_range": "10.1.0.0/16"}]),
        json!([{"in_range": "10.0.0.0/8"}, {"in_range": "10.1.0.0/16"}]),
        json!([{"in_range": "nope"}]),
        json!([]),
        json!([{"in_range": "::1/128"}]),
        json!([{"in_range": "10.1.2.3"}]),
    ];
    let datetimes = [
        Value::Null,
        Value::Null,
        Value::Null,
        json!([["2020-01-01T00:00:00Z", "2030-01-01T00:00:00Z"]]),
        json!([["2020-01-01T00:00:00Z", null]]),
        json!([[null, "2020-01-01T00:00:00Z"]]),
        json!([[null, null]]),
        json!([["bad", "2020-01-01T00:00:00Z"], ["2025-01-01T00:00:00Z", "2026-01-01T00:00:00Z"]]),
        json!([]),
    ];
    let times = [
        Value::Null,
        Value::Null,
        Value::Null,
        json!([["08:00:00", "12:00:00"]]),
        json!([["12:00:00", null]]),
        json!([[null, "12:00:00"]]),
        json!([["22:00:00", "02:00:00"]]),
        json!([]),
    ];
    let weekdays = [
        Value::Null,
        Value::Null,
        Value::Null,
        json!(["Mon"]),
        json!(["monday", "tue"]),
        json!(["xyz"]),
        json!(["sat", "sun"]),
        json!([]),
    ];

    let mut headers = Vec::new();
    let n_headers = *rng.pick(&[0usize, 0, 0, 0, 0, 0, 1, 1, 2, 3]);
    for _ in 0..n_headers {
        headers.push(rng.pick(&header_pool).clone());
    }

    let mut markers = Vec::new();
    if rng.chance(4, 5) {
        markers.push(json!({"name": "m", "regex": rng.pick(&marker_m)}));
    }
    if rng.chance(3, 5) {
        markers.push(json!({"name": "n", "regex": rng.pick(&marker_n)}));
    }
    if rng.chance(1, 5) {
        markers.push(json!({"name": "sub", "regex": rng.pick(&["[a-z]+", "[A-Z]+", ".*", "www|api"])}));
    }
    if rng.chance(1, 5) {
        markers.push(json!({"name": "dom", "regex": rng.pick(&["[a-z]+\\.org", ".+"])}));
    }

    let targets = [Value::Null, json!(""), json!("/t"), json!("/t/@m"), json!("/t?x=@n"), json!("https://@sub.example.net/@m")];
    let codes = [Value::Null, json!(0), json!(301), json!(302), json!(404), json!(410)];
    let rsc = [Value::Null, Value::Null, json!([]), json!([404]), json!([200, 404])];
    let samplings = [Value::Null, Value::Null, Value::Null, json!(0), json!(100)];
    let bools = [Value::Null, Value::Null, json!(true), json!(false)];

    let header_filters = if rng.chance(1, 3) {
        json!([{"action": rng.pick(&["add", "replace", "remove", "override"]), "header": "X-Out", "value": format!("r{id}-@m")}])
    } else {
        Value::Null
    };
    let body_filters = if rng.chance(1, 6) {
        json!([{"action": "append_child", "value": format!("<p>r{id} @m</p>"), "element_tree": ["html", "body"]}])
    } else {
        Value::Null
    };

    let value = json!({
        "id": format!("r{id}"),
        "rank": rank,
        "source": {
            "scheme": if rng.chance(2, 3) { Value::Null } else { rng.pick(&schemes).clone() },
            "host": if rng.chance(1, 2) { Value::Null } else { rng.pick(&hosts).clone() },
            "ips": if rng.chance(3, 4) { Value::Null } else { rng.pick(&ips).clone() },
            "datetime": if rng.chance(4, 5) { Value::Null } else { rng.pick(&datetimes).clone() },
            "time": if rng.chance(4, 5) { Value::Null } else { rng.pick(&times).clone() },
            "weekdays": if rng.chance(4, 5) { Value::Null } else { rng.pick(&weekdays).clone() },
            "path": rng.pick(&paths),
            "query": if rng.chance(3, 4) { Value::Null } else { rng.pick(&queries).clone() },
            "headers": if headers.is_empty() && rng.chance(1, 2) { Value::Null } else { Value::Array(headers) },
            "methods": if rng.chance(2, 3) { Value::Null } else { rng.pick(&methods).clone() },
            "exclude_methods": rng.pick(&excludes),
            "response_status_codes": rng.pick(&rsc),
            "exclude_response_status_codes": rng.pick(&bools),
            "sampling": rng.pick(&samplings),
        },
        "target": rng.pick(&targets),
        "status_code": rng.pick(&codes),
        "markers": markers,
        "header_filters": header_filters,
        "body_filters": body_filters,
        "log_override": rng.pick(&bools),
        "reset": rng.pick(&[Value::Null, Value::Null, Value::Null, json!(true), json!(false)]),
        "stop": rng.pick(&[Value::Null, Value::Null, Value::Null, json!(true), json!(false)]),
    });

    match serde_json::from_value::<Rule>(value.clone()) {
        Ok(rule) => rule,
        Err(e) => panic!("cannot build rule from {value}: {e}"),
    }
}

fn gen_request(rng: &mut Rng, router_config: &RouterConfig) -> Request {
    let paths = [
        "/", "/a", "/a/b", "/A/b", "/a/B", "/a/b/c", "/a/bc", "/a/c", "/a/b/b", "/b", "/a b", "/a%20b", "/é", "/%C3%A9", "/a/(x)", "/a/x",
        "/a/[x]", "/b/b", "/a/bb", "/a/12", "/a/", "", "/a/b/", "/a/%C3%A9%C3%A9",
    ];
    let queries = [
        "", "", "", "?x=1", "?a=1&b=2", "?b=2&a=1", "?utm_source=z", "?x=1&utm_source=z", "?A=1", "?a=1", "?x=b", "?x=B", "?X=1", "?", "?x",
        "?a=1&utm_source=z",
    ];
    let hosts = [
        None,
        Some(""),
        Some("example.org"),
        Some("Example.org"),
        Some("EXAMPLE.ORG"),
        Some("www.example.org"),
        Some("WWW.example.org"),
        Some("api.example.org"),
        Some("other.net"),
        Some("exwww.org"),
        Some("www"),
        Some("éxample.org"),
        Some("ÉXAMPLE.org"),
        Some("www.Example.org"),
    ];
    let schemes = [None, Some(""), Some("http"), Some("https"), Some("HTTP"), Some("ftp")];
    let methods = [None, Some(""), Some("GET"), Some("POST"), Some("get"), Some("PUT"), Some("DELETE")];
    let ips = [None, None, Some("10.0.0.1"), Some("10.1.2.3"), Some("192.168.0.1"), Some("::1")];
    let datetimes = [
        None,
        Some("keep"),
        Some("2025-06-02T09:00:00Z"), // a monday morning
        Some("2025-06-03T13:00:00Z"), // a tuesday afternoon
        Some("2019-06-08T23:30:00Z"), // a saturday night
        Some("2031-01-01T00:00:00Z"),
        Some("2020-01-01T00:00:00Z"),
    ];
    let header_pool = [
        ("X-A", "v"),
        ("X-A", "V"),
        ("x-a", "v"),
        ("X-A", ""),
        ("X-B", "foo"),
        ("X-B", "Foo"),
        ("X-B", "FOO"),
        ("X-B", "fb"),
        ("X-B", "Fb"),
        ("X-B", "F12"),
        ("x-b", "bar"),
        ("X-C", "1"),
        ("X-D", "1"),
    ];

    let url = format!("{}{}", rng.pick(&paths), rng.pick(&queries));
    let host = rng.pick(&hosts).map(|s| s.to_string());
    let scheme = rng.pick(&schemes).map(|s| s.to_string());
    let method = rng.pick(&methods).map(|s| s.to_string());
    let ip = rng.pick(&ips).map(|s| s.parse().unwrap());

    if rng.chance(1, 5) {
        // the way explain_request and impact build their request
        let n_headers = *rng.pick(&[0usize, 1, 2]);
        let mut headers = Vec::new();
        for _ in 0..n_headers {
            let (name, value) = rng.pick(&header_pool);
            headers.push(json!({"name": name, "value": value}));
        }
        let full_url = match (&scheme, &host) {
            (Some(scheme), Some(host)) if !scheme.is_empty() && !host.is_empty() => format!("{scheme}://{host}{url}"),
            _ => url.clone(),
        };
        let example: redirectionio::api::Example = serde_json::from_value(json!({
            "url": full_url,
            "method": method,
            "headers": headers,
            "ip_address": rng.pick(&[None, Some("10.0.0.1"), Some("10.1.2.3"), Some("bad")]),
            "datetime": rng.pick(&[None, Some("2025-06-02T09:00:00Z"), Some("2025-06-03T13:00:00+02:00"), Some("bad")]),
            "response_status_code": null,
            "must_match": true,
            "unit_ids_applied": null,
        }))
        .unwrap();

        if let Ok(request) = Request::from_example(router_config, &example) {
            // explain_request matches this request as it is: it must be a fixed point of the normalisation
            let rebuilt = Request::rebuild_with_config(router_config, &request);
            assert_eq!(serde_json::to_string(&rebuilt).unwrap(), serde_json::to_string(&request).unwrap());

            return request;
        }
    }

    let mut request = match rng.below(3) {
        0 => Request::new(
            PathAndQueryWithSkipped::from_config(&RouterConfig::default(), url.as_str()),
            url.clone(),
            host,
            scheme,
            method,
            ip,
            None,
        ),
        1 => Request::new(PathAndQueryWithSkipped::from_static(url.as_str()), url.clone(), host, scheme, method, ip, None),
        _ => Request::from_config(router_config, url.clone(), host, scheme, method, ip, None),
    };

    let n_headers = *rng.pick(&[0usize, 0, 1, 1, 2, 3]);
    for _ in 0..n_headers {
        let (name, value) = rng.pick(&header_pool);
        request.add_header(name.to_string(), value.to_string(), false);
    }

    match rng.pick(&datetimes) {
        None => request.created_at = None,
        Some("keep") => (),
        Some(dt) => request.set_created_at(Some(dt.to_string())),
    }

    request
}


/// A request built to satisfy (most of) the constraints of one rule of the router
fn gen_request_for_rule(rng: &mut Rng, router_config: &RouterConfig, rule: &Rule) -> Request {
    let subst = |rng: &mut Rng, text: &str| -> String {
        let m = *rng.pick(&["b", "bc", "B", "12", "b/c", "é", "c", ""]);
        let n = *rng.pick(&["c", "1", "b", "12"]);
        let sub = *rng.pick(&["www", "api", "WWW"]);
        let dom = *rng.pick(&["example.org", "Example.org", "x"]);
        text.replace("@sub", sub).replace("@dom", dom).replace("@m", m).replace("@n", n)
    };

    let mut url = subst(rng, rule.source.path.as_str());

    if let Some(query) = &rule.source.query {
        if !query.is_empty() {
            url.push('?');
            url.push_str(subst(rng, query.as_str()).as_str());
        }
    }

    if rng.chance(1, 4) {
        url.push_str(if url.contains('?') { "&utm_source=z" } else { "?utm_source=z" });
    }

    if rng.chance(1, 6) {
        url = url.to_uppercase();
    }

    let host = match &rule.source.host {
        Some(host) if !host.is_empty() => {
            let h = subst(rng, host.as_str());
            Some(if rng.chance(1, 4) { h.to_uppercase() } else { h })
        }
        _ => rng.pick(&[None, Some("example.org"), Some("www.example.org"), Some("other.net")]).map(|s| s.to_string()),
    };

    let scheme = match &rule.source.scheme {
        Some(scheme) if !scheme.is_empty() => Some(scheme.clone()),
        _ => rng.pick(&[None, Some("http"), Some("https")]).map(|s| s.to_string()),
    };

    let method = match &rule.source.methods {
        Some(methods) if !methods.is_empty() => {
            if rule.source.exclude_methods == Some(true) {
                Some("DELETE".to_string())
            } else {
                Some(rng.pick(methods.as_slice()).clone())
            }
        }
        _ => rng.pick(&[None, Some("GET"), Some("POST")]).map(|s| s.to_string()),
    };

    let ip = rng.pick(&[Some("10.0.0.1"), Some("10.1.2.3"), Some("192.168.0.1"), Some("::1"), None]).map(|s| s.parse().unwrap());

    let mut request = if rng.chance(1, 2) {
        Request::new(
            PathAndQueryWithSkipped::from_config(&RouterConfig::default(), url.as_str()),
            url.clone(),
            host,
            scheme,
            method,
            ip,
            None,
        )
    } else {
        Request::from_config(router_config, url.clone(), host, scheme, method, ip, None)
    };

    if let Some(headers) = &rule.source.headers {
        for header in headers {
            let value = header.value.clone().unwrap_or_default();
            match header.kind.as_str() {
                "is_defined" => request.add_header(header.name.clone(), "1".to_string(), false),
                "is_equals" => request.add_header(header.name.clone(), value, false),
                "is_not_equal_to" => request.add_header(header.name.clone(), "other".to_string(), false),
                "contains" => request.add_header(header.name.clone(), format!("F{value}"), false),
                "ends_with" => request.add_header(header.name.clone(), format!("Fo{value}"), false),
                "starts_with" => request.add_header(header.name.clone(), format!("{value}oo"), false),
                "match_regex" => request.add_header(header.name.clone(), subst(rng, value.as_str()), false),
                _ => (),
            }
        }
    }

    if rng.chance(1, 4) {
        request.add_header("X-B".to_string(), "Foo".to_string(), false);
    }

    let datetimes = [
        "2025-06-02T09:00:00Z",
        "2025-06-03T13:00:00Z",
        "2019-06-08T23:30:00Z",
        "2025-06-07T23:30:00Z",
        "2031-01-01T00:00:00Z",
    ];
    request.set_created_at(Some(rng.pick(&datetimes).to_string()));

    request
}

struct Failure {
    what: String,
    detail: String,
}

fn check_one(router: &Router<Rule>, request: &Request, distinct_ranks: bool) -> Vec<Failure> {
    let mut failures = Vec::new();
    let rebuilt = router.rebuild_request(request);

    let matched = router.match_request(&rebuilt);
    let traces = router.trace_request(request);
    let traced = Trace::<Rule>::get_routes_from_traces(&traces);

    if ids(&matched) != ids(&traced) {
        failures.push(Failure {
            what: "route set".to_string(),
            detail: format!("match={:?} trace={:?}", plain_ids(&matched), plain_ids(&traced)),
        });
    }

    // the same, called the way explain_request and the generated tests call it
    let traces_again = router.trace_request(&rebuilt);
    let traced_again = Trace::<Rule>::get_routes_from_traces(&traces_again);

    if ids(&matched) != ids(&traced_again) {
        failures.push(Failure {
            what: "route set (already rebuilt request)".to_string(),
            detail: format!("match={:?} trace={:?}", plain_ids(&matched), plain_ids(&traced_again)),
        });
    }

    // serialised
    let route_trace = router.get_trace(request);
    let serialised = match serde_json::to_value(&route_trace) {
        Ok(value) => value,
        Err(e) => {
            failures.push(Failure {
                what: "serialisation".to_string(),
                detail: format!("{e}"),
            });
            return failures;
        }
    };

    let mut json_ids = BTreeSet::new();
    storage_ids_of_json(&serialised["traces"], &mut json_ids);
    let matched_plain: BTreeSet<String> = matched.iter().map(|r| r.id().to_string()).collect();

    if json_ids != matched_plain {
        failures.push(Failure {
            what: "route set (serialised storage nodes)".to_string(),
            detail: format!("match={:?} trace={:?}", matched_plain, json_ids),
        });
    }

    let listed: BTreeSet<String> = serialised["routes"]
        .as_array()
        .unwrap()
        .iter()
        .map(|r| r["id"].as_str().unwrap().to_string())
        .collect();

    if listed != matched_plain {
        failures.push(Failure {
            what: "route set (serialised routes list)".to_string(),
            detail: format!("match={:?} trace={:?}", matched_plain, listed),
        });
    }

    let direct = router.get_route(&rebuilt);
    let final_priority = serialised["final_route"].get("priority").and_then(|p| p.as_i64());

    if direct.as_ref().map(|r| r.priority()) != final_priority {
        failures.push(Failure {
            what: "final route".to_string(),
            detail: format!(
                "get_route={:?} final_route={:?}",
                direct.as_ref().map(|r| (r.id().to_string(), r.priority())),
                serialised["final_route"].get("id")
            ),
        });
    }

    // actions
    let mut ranks = HashSet::new();
    let tie_free = matched.iter().all(|r| ranks.insert(r.priority()));

    if tie_free || distinct_ranks {
        let live = Action::from_routes_rule(matched.clone(), &rebuilt, None);
        let steps = TraceAction::from_trace_rules(&traces, &rebuilt);
        let live_json = serde_json::to_value(&live).unwrap();

        match steps.last() {
            None => {
                let default_json = serde_json::to_value(Action::default()).unwrap();
                if live_json != default_json {
                    failures.push(Failure {
                        what: "action (no step)".to_string(),
                        detail: format!("live={live_json}"),
                    });
                }
            }
            Some(last) => {
                let last_json = serde_json::to_value(last).unwrap()["action"].clone();

                if last_json != live_json {
                    failures.push(Failure {
                        what: "action".to_string(),
                        detail: format!("live={live_json}\n   trace={last_json}"),
                    });
                }
            }
        }
    }

    failures
}

fn describe(router: &Router<Rule>, request: &Request) -> String {
    let mut rules: Vec<String> = router
        .routes()
        .values()
        .map(|r| serde_json::to_string(r.handler()).unwrap())
        .collect();
    rules.sort();
    format!(
        "config={}\nrules=[\n  {}\n]\nrequest={}",
        serde_json::to_string(router.config.as_ref()).unwrap(),
        rules.join(",\n  "),
        serde_json::to_string(request).unwrap()
    )
}

#[test]
fn fuzz_trace_agrees_with_match() {
    let seeds: u64 = std::env::var("AUDIT_SEEDS").ok().and_then(|s| s.parse().ok()).unwrap_or(400);
    let mut reported = HashSet::new();
    let mut total_failures = 0;
    let mut total_checks = 0u64;
    let mut non_empty = 0u64;
    let mut multi = 0u64;

    for seed in 1..=seeds {
        let mut rng = Rng(seed.wrapping_mul(0x9E3779B97F4A7C15) | 1);
        let config = gen_config(&mut rng);
        let mut router = Router::<Rule>::from_config(config.clone());
        let n_rules = 1 + rng.below(25);
        let distinct = rng.chance(1, 2);
        let mut next_id = 0;

        for i in 0..n_rules {
            let rank = if distinct { i as u16 + 1 } else { rng.below(4) as u16 };
            router.insert(gen_rule(&mut rng, next_id, rank));
            next_id += 1;
        }

        // mutations
        if rng.chance(1, 3) {
            let limit = if rng.chance(1, 2) { None } else { Some(rng.below(6) as u64) };
            router.cache(limit);
        }

        if rng.chance(1, 3) {
            for _ in 0..rng.below(5) {
                let id = format!("r{}", rng.below(next_id));
                router.remove(id.as_str());
            }
        }

        if rng.chance(1, 3) {
            let mut added = Vec::new();
            let mut updated = Vec::new();
            let mut removed = HashSet::new();

            for _ in 0..rng.below(4) {
                added.push(gen_rule(&mut rng, next_id, 100 + next_id as u16));
                next_id += 1;
            }
            for _ in 0..rng.below(4) {
                let id = rng.below(next_id);
                if router.get_route_by_id(format!("r{id}").as_str()).is_some() && !updated.iter().any(|r: &Rule| r.id == format!("r{id}")) {
                    updated.push(gen_rule(&mut rng, id, 200 + id as u16));
                }
            }
            for _ in 0..rng.below(3) {
                removed.insert(format!("r{}", rng.below(next_id)));
            }

            router.apply_change_set(added, updated, removed);

            if rng.chance(1, 2) {
                router.cache(None);
            }
        }

        for _ in 0..60 {
            let request = if rng.chance(2, 3) && !router.routes().is_empty() {
                let mut keys: Vec<&String> = router.routes().keys().collect();
                keys.sort();
                let key = (*rng.pick(keys.as_slice())).clone();
                let rule = router.get_route_by_id(key.as_str()).unwrap().handler().clone();
                gen_request_for_rule(&mut rng, &config, &rule)
            } else {
                gen_request(&mut rng, &config)
            };
            total_checks += 1;

            let n_matched = router.match_request(&router.rebuild_request(&request)).len();
            if n_matched > 0 {
                non_empty += 1;
            }
            if n_matched > 1 {
                multi += 1;
            }

            for failure in check_one(&router, &request, false) {
                total_failures += 1;

                if reported.insert(failure.what.clone()) || total_failures <= 3 {
                    println!(
                        "---- seed {seed}: {} ----\n{}\n{}\n",
                        failure.what,
                        failure.detail,
                        describe(&router, &request)
                    );
                }
            }
        }
    }

    println!("checks={total_checks} non_empty_matches={non_empty} multi={multi} failures={total_failures}");
    assert_eq!(total_failures, 0);
}

// ---------------------------------------------------------------- deterministic probes (all hold)

fn rule(value: Value) -> Rule {
    serde_json::from_value(value).expect("rule")
}

fn config(value: Value) -> RouterConfig {
    serde_json::from_value(value).expect("config")
}

fn location_of(action: &Value) -> Option<String> {
    action["header_filters"]
        .as_array()
        .unwrap()
        .iter()
        .filter(|f| f["filter"]["header"] == "Location")
        .last()
        .map(|f| f["filter"]["value"].as_str().unwrap().to_string())
}

/// Requests deserialised from the JSON an older proxy sends (no `path_and_query_v2`)
#[test]
fn probe_request_without_path_and_query_v2() {
    let cfg = config(json!({"ignore_marketing_query_params": true, "ignore_path_and_query_case": true}));
    let mut router = Router::<Rule>::from_config(cfg);
    router.insert(rule(json!({"id": "a", "rank": 1, "source": {"path": "/foo", "query": "b=1"}, "target": "/t", "status_code": 301})));

    let request: Request = serde_json::from_value(json!({
        "path_and_query": {"path_and_query": "/FOO?b=1&utm_source=x", "path_and_query_matching": null, "skipped_query_params": null, "original": "/FOO?b=1&utm_source=x"},
        "host": null, "scheme": null, "method": null, "headers": [], "remote_addr": null, "created_at": null, "sampling_override": null
    }))
    .unwrap();

    assert!(check_one(&router, &request, true).is_empty());
    assert_eq!(router.match_request(&router.rebuild_request(&request)).len(), 1);
}

/// any-host fallback, one HostMatcher per scheme: the fallback is taken per scheme branch in both paths
#[test]
fn probe_any_host_fallback_per_scheme() {
    for always in [false, true] {
        let cfg = config(json!({"always_match_any_host": always}));
        let mut router = Router::<Rule>::from_config(cfg.clone());
        router.insert(rule(json!({"id": "any", "rank": 1, "source": {"path": "/foo"}, "target": "/any", "status_code": 301})));
        router.insert(rule(json!({"id": "host", "rank": 2, "source": {"host": "example.org", "path": "/foo"}, "target": "/host", "status_code": 301})));
        router.insert(rule(json!({"id": "https-any", "rank": 3, "source": {"scheme": "https", "path": "/foo"}, "target": "/sany", "status_code": 301})));
        router.insert(rule(json!({"id": "https-host", "rank": 4, "source": {"scheme": "https", "host": "@sub.example.org", "path": "/foo"}, "markers": [{"name": "sub", "regex": "[a-z]+"}], "target": "/shost", "status_code": 301})));
        // matches the host but not the method: the fallback must be decided on routes, not on hosts
        router.insert(rule(json!({"id": "post-host", "rank": 5, "source": {"host": "post.example.org", "methods": ["POST"], "path": "/foo"}, "target": "/post", "status_code": 301})));

        for host in [None, Some("example.org"), Some("www.example.org"), Some("post.example.org"), Some("other.net"), Some("")] {
            for scheme in [None, Some("http"), Some("https")] {
                let request = Request::from_config(
                    &cfg,
                    "/foo".to_string(),
                    host.map(|s| s.to_string()),
                    scheme.map(|s| s.to_string()),
                    None,
                    None,
                    None,
                );
                let failures = check_one(&router, &request, true);
                for f in &failures {
                    println!("{}: {}", f.what, f.detail);
                }
                assert!(failures.is_empty());
            }
        }
    }
}

/// memoised header / datetime conditions shared between groups, in every order of truth values
#[test]
fn probe_memoised_condition_groups() {
    let cfg = config(json!({}));
    let mut router = Router::<Rule>::from_config(cfg.clone());
    let conditions = [
        json!({"type": "is_defined", "name": "X-A"}),
        json!({"type": "is_equals", "name": "X-B", "value": "1"}),
        json!({"type": "is_not_defined", "name": "X-C"}),
        json!({"type": "contains", "name": "X-D", "value": "z"}),
    ];
    let mut id = 0;

    // every non-empty subset of the four conditions is a group
    for mask in 1..16u32 {
        let headers: Vec<Value> = (0..4).filter(|i| mask & (1 << i) != 0).map(|i| conditions[i].clone()).collect();
        id += 1;
        router.insert(rule(json!({"id": format!("h{id}"), "rank": id, "source": {"path": "/foo", "headers": headers}, "header_filters": [{"action": "add", "header": "X-Out", "value": format!("h{id}")}]})));
        id += 1;
        router.insert(rule(json!({"id": format!("h{id}"), "rank": id, "source": {"path": "/foo", "headers": headers,
            "weekdays": if mask & 1 != 0 { json!(["mon"]) } else { Value::Null },
            "time": if mask & 2 != 0 { json!([["08:00:00", "12:00:00"]]) } else { Value::Null },
            "datetime": if mask & 4 != 0 { json!([["2025-01-01T00:00:00Z", null]]) } else { Value::Null }},
            "header_filters": [{"action": "add", "header": "X-Out", "value": format!("h{id}")}]})));
    }

    for mask in 0..16u32 {
        for datetime in ["2025-06-02T09:00:00Z", "2025-06-02T13:00:00Z", "2025-06-03T09:00:00Z", "2024-06-03T09:00:00Z"] {
            let mut request = Request::from_config(&cfg, "/foo".to_string(), None, None, None, None, None);
            if mask & 1 != 0 {
                request.add_header("x-a".to_string(), "".to_string(), false);
            }
            if mask & 2 != 0 {
                request.add_header("X-B".to_string(), "1".to_string(), false);
            }
            if mask & 4 != 0 {
                request.add_header("X-C".to_string(), "1".to_string(), false);
            }
            if mask & 8 != 0 {
                request.add_header("X-D".to_string(), "xzx".to_string(), false);
            }
            request.set_created_at(Some(datetime.to_string()));

            let failures = check_one(&router, &request, true);
            for f in &failures {
                println!("{}: {}", f.what, f.detail);
            }
            assert!(failures.is_empty());
        }
    }
}

/// several ip constraints on one rule, reset / stop, response status codes: same last action
#[test]
fn probe_actions_with_reset_stop_and_ips() {
    let cfg = config(json!({"ignore_marketing_query_params": true, "pass_marketing_query_params_to_target": true}));
    let mut router = Router::<Rule>::from_config(cfg.clone());
    router.insert(rule(json!({"id": "a", "rank": 10, "source": {"path": "/foo/@m", "ips": [{"in_range": "10.0.0.0/8"}, {"in_range": "10.1.0.0/16"}, {"not_in_range": "192.168.0.0/16"}]},
        "markers": [{"name": "m", "regex": "[a-z]+"}], "target": "/a/@m", "status_code": 302,
        "header_filters": [{"action": "add", "header": "X-Out", "value": "a-@m"}]})));
    router.insert(rule(json!({"id": "b", "rank": 8, "source": {"path": "/foo/@m", "response_status_codes": [404]}, "markers": [{"name": "m", "regex": ".+"}], "target": "/b/@m", "status_code": 301, "log_override": false})));
    router.insert(rule(json!({"id": "c", "rank": 6, "source": {"path": "/foo/bar"}, "reset": true, "header_filters": [{"action": "add", "header": "X-Out", "value": "c"}], "log_override": true})));
    router.insert(rule(json!({"id": "d", "rank": 4, "source": {"path": "/foo/bar", "methods": ["POST"], "exclude_methods": true}, "stop": true, "target": "/d", "status_code": 307})));
    router.insert(rule(json!({"id": "e", "rank": 2, "source": {"path": "/foo/bar"}, "target": "/e", "status_code": 308})));
    router.insert(rule(json!({"id": "f", "rank": 5, "source": {"path": "/foo/bar", "sampling": 0}, "stop": true, "target": "/f", "status_code": 308})));

    for method in [None, Some("POST")] {
        for ip in [None, Some("10.1.2.3"), Some("192.168.1.1")] {
            for url in ["/foo/bar", "/foo/bar?utm_source=x", "/foo/baz"] {
                let request = Request::from_config(
                    &cfg,
                    url.to_string(),
                    None,
                    None,
                    method.map(|s| s.to_string()),
                    ip.map(|s| s.parse().unwrap()),
                    None,
                );
                let failures = check_one(&router, &request, true);
                for f in &failures {
                    println!("{}: {}", f.what, f.detail);
                }
                assert!(failures.is_empty());
            }
        }
    }
}

// ---------------------------------------------------------------- borderline behaviours (each test passes while the oddity is there)

/// B1. trace_request / get_trace normalise the request themselves, match_request / get_route do not
#[test]
fn borderline_trace_normalises_but_match_does_not() {
    let cfg = config(json!({"ignore_path_and_query_case": true}));
    let mut router = Router::<Rule>::from_config(cfg);
    router.insert(rule(json!({"id": "a", "rank": 1, "source": {"path": "/foo"}, "target": "/t", "status_code": 301})));

    // what a proxy module sends: built with the default configuration
    let raw = Request::new(
        PathAndQueryWithSkipped::from_config(&RouterConfig::default(), "/FOO"),
        "/FOO".to_string(),
        None,
        None,
        None,
        None,
        None,
    );

    let direct = router.get_route(&raw);
    let traced = serde_json::to_value(router.get_trace(&raw)).unwrap();
    println!("B1 get_route(raw)={:?} get_trace(raw).final_route={}", direct.as_ref().map(|r| r.id().to_string()), traced["final_route"]["id"]);

    assert!(direct.is_none());
    assert_eq!(traced["final_route"]["id"], "a");
    // with the request normalised first, as the statement says, both agree
    assert!(check_one(&router, &raw, true).is_empty());
}

/// B2. TraceAction::from_trace_rules is given the request separately from the traces
#[test]
fn borderline_action_trace_with_the_request_given_to_trace_request() {
    let cfg = config(json!({"ignore_marketing_query_params": true, "pass_marketing_query_params_to_target": true, "marketing_query_params": ["gclid"]}));
    let mut router = Router::<Rule>::from_config(cfg);
    router.insert(rule(json!({"id": "a", "rank": 1, "source": {"path": "/foo"}, "target": "/bar", "status_code": 301})));

    let raw = Request::new(
        PathAndQueryWithSkipped::from_config(&RouterConfig::default(), "/foo?gclid=1"),
        "/foo?gclid=1".to_string(),
        None,
        None,
        None,
        None,
        None,
    );
    let rebuilt = router.rebuild_request(&raw);

    let traces = router.trace_request(&raw);
    let with_raw = serde_json::to_value(TraceAction::from_trace_rules(&traces, &raw).last().unwrap()).unwrap()["action"].clone();
    let with_rebuilt = serde_json::to_value(TraceAction::from_trace_rules(&traces, &rebuilt).last().unwrap()).unwrap()["action"].clone();
    let live = serde_json::to_value(Action::from_routes_rule(router.match_request(&rebuilt), &rebuilt, None)).unwrap();

    println!("B2 live={:?} trace(raw request)={:?} trace(rebuilt request)={:?}", location_of(&live), location_of(&with_raw), location_of(&with_rebuilt));

    assert_eq!(location_of(&live).unwrap(), "/bar?gclid=1");
    assert_eq!(location_of(&with_rebuilt).unwrap(), "/bar?gclid=1");
    assert_eq!(location_of(&with_raw).unwrap(), "/bar");
}

/// B3. impact analyses trace the edited rule in a router of its own, where the any-host fallback is always taken
#[test]
fn borderline_impact_traces_in_a_router_of_one_rule() {
    use redirectionio::api::{ImpactInput, ImpactOutput};

    let input: ImpactInput = serde_json::from_value(json!({
        "router_config": {"always_match_any_host": false},
        "max_hops": 3,
        "with_redirection_loop": false,
        "action": "add",
        "rules": [{"id": "existing", "rank": 1, "source": {"host": "example.org", "path": "/foo"}, "target": "/existing", "status_code": 301}],
        "rule": {"id": "edited", "rank": 2, "source": {"path": "/foo"}, "target": "/edited", "status_code": 302,
            "examples": [{"url": "http://example.org/foo", "method": null, "headers": null, "ip_address": null, "response_status_code": null, "must_match": true, "unit_ids_applied": null}]}
    }))
    .unwrap();

    let output = serde_json::to_value(ImpactOutput::create_result(input)).unwrap();
    let impact = &output["impacts"][0];
    let mut traced = BTreeSet::new();
    storage_ids_of_json(&impact["match_traces"], &mut traced);

    println!("B3 response={} traced rules={:?}", impact["response"], traced);

    // the edited rule is not applied (the host of the request has a rule of its own) ...
    assert_eq!(impact["response"]["status_code"], 301);
    assert_eq!(impact["response"]["headers"][0]["value"], "/existing");
    // ... but the trace says it matched
    assert!(traced.contains("edited"));
}

/// B4. with equal ranks the live pipeline orders by id, the action trace by the order of the storages (hash maps)
#[test]
fn borderline_equal_ranks_are_ordered_differently() {
    let mut trace_winners = BTreeSet::new();
    let mut live_winners = BTreeSet::new();

    for _ in 0..40 {
        let mut router = Router::<Rule>::from_config(config(json!({})));
        for id in ["a", "b", "c", "d"] {
            router.insert(rule(json!({"id": id, "rank": 1, "source": {"path": "/foo"}, "target": format!("/{id}"), "status_code": 301})));
        }
        let request = Request::from_config(&router.config, "/foo".to_string(), None, None, None, None, None);
        let traces = router.trace_request(&request);
        let last = serde_json::to_value(TraceAction::from_trace_rules(&traces, &request).last().unwrap()).unwrap()["action"].clone();
        let live = serde_json::to_value(Action::from_routes_rule(router.match_request(&request), &request, None)).unwrap();
        trace_winners.insert(location_of(&last).unwrap());
        live_winners.insert(location_of(&live).unwrap());
    }

    println!("B4 live winners={:?} trace winners={:?}", live_winners, trace_winners);
    assert_eq!(live_winners.len(), 1);
    assert!(trace_winners.len() > 1);
}

/// B5. counts shown in the trace are not maintained by batch removals
#[test]
fn borderline_counts_after_a_change_set() {
    let mut router = Router::<Rule>::from_config(config(json!({})));
    router.insert(rule(json!({"id": "a", "rank": 1, "source": {"host": "example.org", "path": "/foo"}, "target": "/a", "status_code": 301})));
    let mut removed = HashSet::new();
    removed.insert("a".to_string());
    router.apply_change_set(Vec::new(), Vec::new(), removed);

    let request = Request::from_config(&router.config, "/foo".to_string(), Some("example.org".to_string()), None, None, None, None);
    let traces = serde_json::to_value(router.trace_request(&request)).unwrap();
    let host_static: Vec<&Value> = traces.as_array().unwrap().iter().filter(|t| t["type"] == "host_static" && t["against"] == "example.org").collect();

    println!("B5 router.len()={} host trace={}", router.len(), serde_json::to_string(&json!({"matched": host_static[0]["matched"], "count": host_static[0]["count"]})).unwrap());

    assert_eq!(router.len(), 0);
    assert!(router.match_request(&request).is_empty());
    assert!(check_one(&router, &request, true).is_empty());
    assert_eq!(host_static[0]["count"], 1);
}

/// B6. final_route / get_route name the rule of highest priority even when a `stop` keeps it from being applied
#[test]
fn borderline_final_route_and_stop() {
    let mut router = Router::<Rule>::from_config(config(json!({})));
    router.insert(rule(json!({"id": "first", "rank": 2, "source": {"path": "/foo"}, "target": "/first", "status_code": 301, "stop": true})));
    router.insert(rule(json!({"id": "last", "rank": 1, "source": {"path": "/foo"}, "target": "/last", "status_code": 302})));

    let request = Request::from_config(&router.config, "/foo".to_string(), None, None, None, None, None);
    let trace = serde_json::to_value(router.get_trace(&request)).unwrap();
    let live = serde_json::to_value(Action::from_routes_rule(router.match_request(&request), &request, None)).unwrap();

    println!("B6 final_route={} get_route={} live location={:?}", trace["final_route"]["id"], router.get_route(&request).unwrap().id(), location_of(&live));

    assert!(check_one(&router, &request, true).is_empty());
    assert_eq!(trace["final_route"]["id"], "last");
    assert_eq!(location_of(&live).unwrap(), "/first");
}
