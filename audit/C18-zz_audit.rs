// C18 audit: drive the extern "C" surface under an auditing global allocator.
#![allow(clippy::all)]
#![allow(dead_code)]

extern crate redirectionio;

use redirectionio::RouterConfig;
use redirectionio::action::Action;
use redirectionio::api::Rule;
use redirectionio::http::{Header, PathAndQueryWithSkipped, Request};
use redirectionio::router::Router;
use std::alloc::{GlobalAlloc, Layout, System};
use std::cell::Cell;
use std::collections::HashMap;
use std::ffi::{CStr, CString, c_void};
use std::os::raw::c_char;
use std::ptr::{null, null_mut};
use std::sync::Mutex;

// ---------------------------------------------------------------- auditing allocator

struct Audit;

thread_local! {
    static ON: Cell<bool> = const { Cell::new(false) };
    static IN: Cell<bool> = const { Cell::new(false) };
}

static TABLE: Mutex<Option<HashMap<usize, (usize, usize)>>> = Mutex::new(None);
static ERRORS: Mutex<Vec<String>> = Mutex::new(Vec::new());
static SERIAL: Mutex<()> = Mutex::new(());

fn record_alloc(p: *mut u8, l: Layout) {
    if p.is_null() || !ON.with(|c| c.get()) || IN.with(|c| c.get()) {
        return;
    }
    IN.with(|c| c.set(true));
    TABLE.lock().unwrap().get_or_insert_with(HashMap::new).insert(p as usize, (l.size(), l.align()));
    IN.with(|c| c.set(false));
}

fn record_dealloc(p: *mut u8, l: Layout) {
    if !ON.with(|c| c.get()) || IN.with(|c| c.get()) {
        return;
    }
    IN.with(|c| c.set(true));
    let found = TABLE.lock().unwrap().get_or_insert_with(HashMap::new).remove(&(p as usize));
    match found {
        Some((size, align)) => {
            if size != l.size() || align != l.align() {
                ERRORS.lock().unwrap().push(format!(
                    "layout mismatch: allocated ({size},{align}) released ({},{})",
                    l.size(),
                    l.align()
                ));
            }
        }
        None => { /* allocated while the audit was off */ }
    }
    IN.with(|c| c.set(false));
}

unsafe impl GlobalAlloc for Audit {
    unsafe fn alloc(&self, l: Layout) -> *mut u8 {
        let p = unsafe { System.alloc(l) };
        record_alloc(p, l);
        p
    }
    unsafe fn dealloc(&self, p: *mut u8, l: Layout) {
        record_dealloc(p, l);
        unsafe { System.dealloc(p, l) }
    }
    unsafe fn realloc(&self, p: *mut u8, l: Layout, new_size: usize) -> *mut u8 {
        record_dealloc(p, l);
        let q = unsafe { System.realloc(p, l, new_size) };
        record_alloc(q, Layout::from_size_align(new_size, l.align()).unwrap());
        q
    }
}

#[global_allocator]
static GLOBAL: Audit = Audit;

/// Runs `f` with the audit on; returns (live allocations left behind, layout errors)
fn audited<F: FnOnce()>(f: F) -> (Vec<(usize, usize)>, Vec<String>) {
    IN.with(|c| c.set(true));
    TABLE.lock().unwrap().get_or_insert_with(HashMap::new).clear();
    ERRORS.lock().unwrap().clear();
    IN.with(|c| c.set(false));
    ON.with(|c| c.set(true));
    f();
    ON.with(|c| c.set(false));
    let live: Vec<(usize, usize)> = TABLE.lock().unwrap().as_ref().unwrap().values().cloned().collect();
    let errors = ERRORS.lock().unwrap().clone();
    (live, errors)
}

// ---------------------------------------------------------------- C view of the library

#[repr(C)]
struct HM {
    name: *const c_char,
    value: *const c_char,
    next: *mut HM,
}

#[repr(C)]
#[derive(Clone, Copy)]
struct Buf {
    data: *mut u8,
    len: usize,
}

unsafe extern "C" {
    fn redirectionio_action_json_deserialize(s: *mut c_char) -> *mut c_void;
    fn redirectionio_action_json_serialize(a: *mut c_void) -> *const c_char;
    fn redirectionio_action_drop(a: *mut c_void);
    fn redirectionio_action_get_status_code(a: *mut c_void, code: u16) -> u16;
    fn redirectionio_action_header_filter_filter(a: *mut c_void, h: *const HM, code: u16, add: bool) -> *const HM;
    fn redirectionio_action_body_filter_create(a: *mut c_void, code: u16, h: *const HM) -> *mut c_void;
    fn redirectionio_action_body_filter_filter(f: *mut c_void, b: Buf) -> Buf;
    fn redirectionio_action_body_filter_close(f: *mut c_void) -> Buf;
    fn redirectionio_action_body_filter_drop(f: *mut c_void);
    fn redirectionio_action_should_log_request(a: *mut c_void, allow: bool, code: u16) -> bool;
    fn redirectionio_api_buffer_drop(b: Buf);
    fn redirectionio_api_get_rule_api_version() -> *const c_char;
    fn redirectionio_api_create_log_in_json(
        r: *mut c_void,
        code: u16,
        h: *const HM,
        a: *mut c_void,
        proxy: *const c_char,
        time: u64,
        ip: *const c_char,
    ) -> *const c_char;
    fn redirectionio_request_json_deserialize(s: *mut c_char) -> *mut c_void;
    fn redirectionio_request_json_serialize(r: *const c_void) -> *const c_char;
    fn redirectionio_request_create(
        uri: *const c_char,
        host: *const c_char,
        scheme: *const c_char,
        method: *const c_char,
        h: *const HM,
    ) -> *mut c_void;
    fn redirectionio_request_from_str(u: *const c_char) -> *mut c_void;
    fn redirectionio_request_drop(r: *mut c_void);
    fn redirectionio_request_set_remote_addr(r: *mut c_void, addr: *const c_char, tp: *const c_void);
    fn redirectionio_trusted_proxies_create(s: *const c_char) -> *mut c_void;
    fn redirectionio_trusted_proxies_add_proxy(tp: *mut c_void, s: *const c_char);
    fn redirectionio_log_init_stderr();
}

// ---------------------------------------------------------------- helpers playing the C caller

/// A header list owned by the caller (the web server): plain boxes and CStrings of the harness
struct CallerHeaders {
    head: *mut HM,
}

impl CallerHeaders {
    fn new(headers: &[(&str, &str)]) -> Self {
        let mut head: *mut HM = null_mut();
        for (n, v) in headers.iter().rev() {
            head = Box::into_raw(Box::new(HM {
                name: CString::new(*n).unwrap().into_raw(),
                value: CString::new(*v).unwrap().into_raw(),
                next: head,
            }));
        }
        CallerHeaders { head }
    }
}

impl Drop for CallerHeaders {
    fn drop(&mut self) {
        unsafe { free_list(self.head) }
    }
}

/// Releases a list the way it was allocated on the Rust side (node = Box, strings = CString)
unsafe fn free_list(mut cur: *mut HM) {
    while !cur.is_null() {
        let node = unsafe { Box::from_raw(cur) };
        if !node.name.is_null() {
            drop(unsafe { CString::from_raw(node.name as *mut c_char) });
        }
        if !node.value.is_null() {
            drop(unsafe { CString::from_raw(node.value as *mut c_char) });
        }
        cur = node.next;
    }
}

unsafe fn read_list(mut cur: *const HM) -> Vec<(Option<String>, Option<String>)> {
    let mut out = Vec::new();
    while !cur.is_null() {
        let node = unsafe { &*cur };
        let s = |p: *const c_char| {
            if p.is_null() {
                None
            } else {
                Some(unsafe { CStr::from_ptr(p) }.to_string_lossy().to_string())
            }
        };
        out.push((s(node.name), s(node.value)));
        cur = node.next;
    }
    out
}

unsafe fn take_string(p: *const c_char) -> Option<String> {
    if p.is_null() {
        return None;
    }
    let c = unsafe { CString::from_raw(p as *mut c_char) };
    Some(c.to_string_lossy().to_string())
}

fn lib_buffer(bytes: &[u8], spare: usize) -> Buf {
    let mut v = Vec::with_capacity(bytes.len() + spare);
    v.extend_from_slice(bytes);
    let b = redirectionio::filter::Buffer::from_vec(v);
    unsafe { std::mem::transmute::<redirectionio::filter::Buffer, Buf>(b) }
}

unsafe fn buf_bytes(b: &Buf) -> Vec<u8> {
    if b.data.is_null() || b.len == 0 {
        Vec::new()
    } else {
        unsafe { std::slice::from_raw_parts(b.data, b.len) }.to_vec()
    }
}

fn action_json(rules: &[&str], url: &str) -> (String, Action) {
    let mut router = Router::<Rule>::from_config(RouterConfig::default());
    for r in rules {
        router.insert(serde_json::from_str::<Rule>(r).expect("rule"));
    }
    let cfg = RouterConfig::default();
    let request = Request::new(PathAndQueryWithSkipped::from_config(&cfg, url), url.to_string(), None, None, None, None, None);
    let request = Request::rebuild_with_config(&router.config, &request);
    let matched = router.match_request(&request);
    assert!(!matched.is_empty(), "rule must match");
    let action = Action::from_routes_rule(matched, &request, None);
    (serde_json::to_string(&action).unwrap(), action)
}

const RULE_ALL: &str = r#"{"id":"r1","rank":0,"source":{"path":"/foo"},"status_code":302,"target":"/bar",
 "header_filters":[{"action":"add","header":"X-A","value":"1"},{"action":"override","header":"X-B","value":"2"}],
 "body_filters":[{"action":"append_text","content":"<!-- tail -->"}]}"#;

// ---------------------------------------------------------------- baseline: the clean sequences

fn full_sequence(body_chunks: &[&[u8]], spare: usize) -> Vec<u8> {
    let (json, _) = action_json(&[RULE_ALL], "/foo");
    let mut out = Vec::new();
    unsafe {
        let cjson = CString::new(json).unwrap();
        let action = redirectionio_action_json_deserialize(cjson.as_ptr() as *mut c_char);
        assert!(!action.is_null());
        assert_eq!(redirectionio_action_get_status_code(action, 0), 302);

        let input = CallerHeaders::new(&[("Content-Type", "text/html"), ("X-B", "old"), ("X-B", "old2")]);
        let filtered = redirectionio_action_header_filter_filter(action, input.head, 200, true);
        let _ = read_list(filtered);
        free_list(filtered as *mut HM);

        let filter = redirectionio_action_body_filter_create(action, 200, input.head);
        assert!(!filter.is_null());
        for chunk in body_chunks {
            let b = lib_buffer(chunk, spare);
            let r = redirectionio_action_body_filter_filter(filter, b);
            out.extend(buf_bytes(&r));
            redirectionio_api_buffer_drop(r);
        }
        let last = redirectionio_action_body_filter_close(filter);
        out.extend(buf_bytes(&last));
        redirectionio_api_buffer_drop(last);

        let s = redirectionio_action_json_serialize(action);
        take_string(s);
        assert!(redirectionio_action_should_log_request(action, true, 200));

        let uri = CString::new("/foo?a=1").unwrap();
        let host = CString::new("Example.org").unwrap();
        let req = redirectionio_request_create(uri.as_ptr(), host.as_ptr(), null(), null(), input.head);
        let ser = take_string(redirectionio_request_json_serialize(req)).unwrap();
        let cser = CString::new(ser).unwrap();
        let req2 = redirectionio_request_json_deserialize(cser.as_ptr() as *mut c_char);
        let proxy = CString::new("proxy").unwrap();
        let ip = CString::new("1.2.3.4").unwrap();
        take_string(redirectionio_api_create_log_in_json(req2, 200, input.head, action, proxy.as_ptr(), 1, ip.as_ptr()));
        redirectionio_request_set_remote_addr(req, ip.as_ptr(), null());
        redirectionio_request_drop(req);
        redirectionio_request_drop(req2);
        take_string(redirectionio_api_get_rule_api_version());
        redirectionio_action_drop(action);
    }
    out
}

#[test]
fn baseline_sequences_are_clean() {
    let _g = SERIAL.lock().unwrap_or_else(|e| e.into_inner());
    let big = vec![b'x'; 100_000];
    let cases: Vec<Vec<&[u8]>> = vec![vec![], vec![b""], vec![b"a"], vec![b"<html>", b"", b"</html>"], vec![&big, b"y"]];
    for chunks in &cases {
        for spare in [0usize, 1, 37] {
            full_sequence(chunks, spare); // warm up lazies
            let expected: Vec<u8> = chunks.concat().into_iter().chain(b"<!-- tail -->".iter().cloned()).collect();
            let (live, errors) = audited(|| {
                let out = full_sequence(chunks, spare);
                assert!(out == expected);
            });
            assert!(errors.is_empty(), "{errors:?}");
            assert!(live.is_empty(), "leaked {live:?} for {} chunks spare {spare}", chunks.len());
        }
    }
}

fn is_live(p: *const u8) -> bool {
    IN.with(|c| c.set(true));
    let r = TABLE.lock().unwrap().as_ref().map(|t| t.contains_key(&(p as usize))).unwrap_or(false);
    IN.with(|c| c.set(false));
    r
}

// ---------------------------------------------------------------- F1: null filter, the input buffer changes owner or not

#[test]
fn f1_body_filter_filter_null_filter_does_not_take_the_input() {
    let _g = SERIAL.lock().unwrap_or_else(|e| e.into_inner());
    let (json, _) = action_json(&[RULE_ALL], "/foo");
    let cjson = CString::new(json).unwrap();

    // (a) with a filter: the input buffer is consumed by the call
    let mut consumed_with_filter = false;
    let (live_a, _) = audited(|| unsafe {
        let action = redirectionio_action_json_deserialize(cjson.as_ptr() as *mut c_char);
        let filter = redirectionio_action_body_filter_create(action, 200, null());
        let input = lib_buffer(b"hello", 0);
        let out = redirectionio_action_body_filter_filter(filter, input);
        consumed_with_filter = !is_live(input.data);
        redirectionio_api_buffer_drop(out);
        redirectionio_api_buffer_drop(redirectionio_action_body_filter_close(filter));
        redirectionio_action_drop(action);
    });
    assert!(consumed_with_filter, "with a filter the call releases the input");
    assert!(live_a.is_empty());

    // (b) same calls, same releases, but the filter is NULL (no body filter for this response)
    let mut consumed_without_filter = false;
    let (live_b, _) = audited(|| unsafe {
        let input = lib_buffer(b"hello", 0);
        let out = redirectionio_action_body_filter_filter(null_mut(), input);
        assert_eq!(buf_bytes(&out), b"hello");
        consumed_without_filter = !is_live(input.data);
        redirectionio_api_buffer_drop(out);
    });
    println!("with filter: input consumed = {consumed_with_filter}; NULL filter: input consumed = {consumed_without_filter}, left behind = {live_b:?}");
    assert!(
        consumed_without_filter && live_b.is_empty(),
        "same call sequence leaks the input buffer when the filter is NULL: {live_b:?}"
    );
}

// ---------------------------------------------------------------- F2: null action, the returned list IS the input list

#[test]
fn f2_header_filter_filter_null_action_returns_the_callers_list() {
    let _g = SERIAL.lock().unwrap_or_else(|e| e.into_inner());
    unsafe {
        let input = CallerHeaders::new(&[("A", "1"), ("B", "2")]);
        let (json, _) = action_json(&[RULE_ALL], "/foo");
        let cjson = CString::new(json).unwrap();
        let action = redirectionio_action_json_deserialize(cjson.as_ptr() as *mut c_char);
        let with_action = redirectionio_action_header_filter_filter(action, input.head, 200, false);
        assert!(with_action != input.head as *const HM, "with an action the result is a fresh list");
        free_list(with_action as *mut HM);
        redirectionio_action_drop(action);

        let without_action = redirectionio_action_header_filter_filter(null_mut(), input.head, 200, false);
        println!("input list {:p}, returned list {:p}", input.head, without_action);
        // releasing `without_action` like every other returned list, then the input, is a double free
        assert!(
            without_action != input.head as *const HM,
            "the returned list aliases the list of the caller: releasing both is a double free"
        );
    }
}

// ---------------------------------------------------------------- F3: NUL inside a header value or name

#[test]
fn f3_header_with_nul_comes_back_as_null_pointer() {
    let _g = SERIAL.lock().unwrap_or_else(|e| e.into_inner());
    let rule = r#"{"id":"r1","rank":0,"source":{"path":"/foo"},"status_code":302,"target":"/bar\u0000baz",
      "header_filters":[{"action":"add","header":"X-A","value":"a\u0000b"}]}"#;
    let (json, mut native_action) = action_json(&[rule], "/foo");
    let native: Vec<(String, String)> = native_action
        .filter_headers(vec![Header { name: "K".to_string(), value: "v".to_string() }], 302, false, None)
        .into_iter()
        .map(|h| (h.name, h.value))
        .collect();
    println!("native: {native:?}");

    unsafe {
        let cjson = CString::new(json).unwrap(); // the JSON text itself has no NUL, it is escaped
        let action = redirectionio_action_json_deserialize(cjson.as_ptr() as *mut c_char);
        assert!(!action.is_null());
        let input = CallerHeaders::new(&[("K", "v")]);
        let out = redirectionio_action_header_filter_filter(action, input.head, 302, false);
        let got = read_list(out);
        println!("ffi   : {got:?}");
        // what a second pass (body_filter_create, create_log_in_json) sees of that list
        let filter = redirectionio_action_body_filter_create(action, 302, out);
        assert!(filter.is_null());
        free_list(out as *mut HM);
        redirectionio_action_drop(action);

        let mut got_sorted: Vec<(Option<String>, Option<String>)> = got;
        got_sorted.sort();
        let mut expected: Vec<(Option<String>, Option<String>)> = native.into_iter().map(|(n, v)| (Some(n), Some(v))).collect();
        expected.sort();
        assert_eq!(got_sorted, expected, "header multiset differs from the native API (NULL value pointers)");
    }
}

// ---------------------------------------------------------------- F4: initialising the stderr logger twice aborts the host process

extern "C" fn log_cb(msg: *const c_char, _data: *const c_void, _level: i16) {
    unsafe { take_string(msg) };
}

unsafe extern "C" {
    fn redirectionio_log_init_with_callback(cb: extern "C" fn(*const c_char, *const c_void, i16), data: *const c_void);
}

#[test]
fn f4_log_init_stderr_twice() {
    static DATA: u8 = 0;
    if let Ok(mode) = std::env::var("ZZ_CHILD") {
        unsafe {
            match mode.as_str() {
                "stderr,stderr" => {
                    redirectionio_log_init_stderr();
                    redirectionio_log_init_stderr();
                }
                "callback,stderr" => {
                    redirectionio_log_init_with_callback(log_cb, &DATA as *const u8 as *const c_void);
                    redirectionio_log_init_stderr();
                }
                "stderr,callback" => {
                    redirectionio_log_init_stderr();
                    redirectionio_log_init_with_callback(log_cb, &DATA as *const u8 as *const c_void);
                }
                "callback,callback" => {
                    redirectionio_log_init_with_callback(log_cb, &DATA as *const u8 as *const c_void);
                    redirectionio_log_init_with_callback(log_cb, &DATA as *const u8 as *const c_void);
                }
                _ => unreachable!(),
            }
            eprintln!("second init done");
        }
        return;
    }
    let mut failures = Vec::new();
    for mode in ["callback,callback", "stderr,stderr", "callback,stderr", "stderr,callback"] {
        let exe = std::env::current_exe().unwrap();
        let out = std::process::Command::new(exe)
            .args(["--exact", "f4_log_init_stderr_twice", "--nocapture", "--test-threads=1"])
            .env("ZZ_CHILD", mode)
            .env("RUST_BACKTRACE", "0")
            .output()
            .unwrap();
        let stderr = String::from_utf8_lossy(&out.stderr);
        let panic_lines: Vec<&str> = stderr.lines().filter(|l| l.contains("panicked") || l.contains("Error") || l.contains("abort")).collect();
        println!("{mode}: status {:?} {panic_lines:?}", out.status);
        if !stderr.contains("second init done") {
            failures.push(mode);
        }
    }
    assert!(failures.is_empty(), "the host process was aborted for the init sequences {failures:?}");
}

// ---------------------------------------------------------------- F5: no release function for strings and header lists

#[test]
fn f5_exported_release_functions() {
    fn walk(dir: &std::path::Path, out: &mut Vec<String>) {
        for e in std::fs::read_dir(dir).unwrap() {
            let p = e.unwrap().path();
            if p.is_dir() {
                walk(&p, out);
            } else if p.extension().map(|e| e == "rs").unwrap_or(false) {
                let s = std::fs::read_to_string(&p).unwrap();
                for line in s.lines() {
                    if let Some(i) = line.find("extern \"C\" fn ") {
                        let rest = &line[i + 14..];
                        out.push(rest.split('(').next().unwrap().to_string());
                    }
                }
            }
        }
    }
    let mut names = Vec::new();
    walk(&std::path::Path::new(env!("CARGO_MANIFEST_DIR")).join("src"), &mut names);
    names.sort();
    let release: Vec<&String> = names.iter().filter(|n| n.ends_with("_drop") || n.ends_with("_close") || n.ends_with("_free")).collect();
    println!("exported: {names:#?}\nrelease functions: {release:#?}");
    assert!(release.iter().any(|n| n.contains("string") || n.contains("str_")), "no release function for returned strings");
    assert!(release.iter().any(|n| n.contains("header")), "no release function for returned header lists");
}

// ---------------------------------------------------------------- smoke: odd strings must not abort

#[test]
fn smoke_odd_strings() {
    let _g = SERIAL.lock().unwrap_or_else(|e| e.into_inner());
    let odd = [
        "", " ", "/", "*", "?", "#", "//", "/%", "/%zz", "/%00", "/a b", "/é", "http://h/p?q#f", "/?=&&=", "/?a=%00&%00=b", "/\u{7f}", "[::1", "[::1]:80",
        "1.2.3.4:99999", "unix:", "::ffff:1.2.3.4", "1.2.3.4/33", "10.0.0.0/8,,  ,x", "\t", "/\u{10ffff}",
    ];
    unsafe {
        for s in odd {
            let c = CString::new(s).unwrap();
            let h = CallerHeaders::new(&[("X-Forwarded-For", s), ("Forwarded", s), (s, s)]);
            let r = redirectionio_request_create(c.as_ptr(), c.as_ptr(), c.as_ptr(), c.as_ptr(), h.head);
            let tp = redirectionio_trusted_proxies_create(c.as_ptr());
            redirectionio_trusted_proxies_add_proxy(tp, c.as_ptr());
            redirectionio_request_set_remote_addr(r, c.as_ptr(), tp);
            let ip = CString::new("127.0.0.1").unwrap();
            redirectionio_request_set_remote_addr(r, ip.as_ptr(), tp);
            redirectionio_request_set_remote_addr(r, ip.as_ptr(), null());
            let js = take_string(redirectionio_request_json_serialize(r)).unwrap();
            let cjs = CString::new(js.clone()).unwrap();
            let r2 = redirectionio_request_json_deserialize(cjs.as_ptr() as *mut c_char);
            assert!(!r2.is_null(), "{js}");
            let js2 = take_string(redirectionio_request_json_serialize(r2)).unwrap();
            assert_eq!(js, js2);
            take_string(redirectionio_api_create_log_in_json(r2, 0, h.head, null_mut(), c.as_ptr(), u64::MAX, c.as_ptr()));
            redirectionio_request_drop(r2);
            redirectionio_request_drop(r);
            let r3 = redirectionio_request_from_str(c.as_ptr());
            redirectionio_request_drop(r3);
            let a = redirectionio_action_json_deserialize(c.as_ptr() as *mut c_char);
            redirectionio_action_drop(a);
        }
        // null everywhere
        let r = redirectionio_request_create(null(), null(), null(), null(), null());
        redirectionio_request_set_remote_addr(r, null(), null());
        redirectionio_request_drop(r);
        redirectionio_request_drop(null_mut());
        redirectionio_action_drop(null_mut());
        redirectionio_action_body_filter_drop(null_mut());
        let b = redirectionio_action_body_filter_close(null_mut());
        redirectionio_api_buffer_drop(b);
        assert!(redirectionio_action_json_serialize(null_mut()).is_null());
        assert!(redirectionio_request_json_serialize(null()).is_null());
    }
}

// ---------------------------------------------------------------- borderline: create trims its items, add_proxy does not

#[test]
fn b1_add_proxy_does_not_trim() {
    let _g = SERIAL.lock().unwrap_or_else(|e| e.into_inner());
    unsafe {
        let remote_ip = |tp: *const c_void| -> String {
            let h = CallerHeaders::new(&[("X-Forwarded-For", "9.9.9.9")]);
            let uri = CString::new("/").unwrap();
            let r = redirectionio_request_create(uri.as_ptr(), null(), null(), null(), h.head);
            let peer = CString::new("8.8.8.8").unwrap();
            redirectionio_request_set_remote_addr(r, peer.as_ptr(), tp);
            let js = take_string(redirectionio_request_json_serialize(r)).unwrap();
            redirectionio_request_drop(r);
            let v: serde_json::Value = serde_json::from_str(&js).unwrap();
            v["remote_addr"].as_str().unwrap().to_string()
        };
        let item = CString::new(" 8.8.8.8").unwrap();
        let created = redirectionio_trusted_proxies_create(item.as_ptr());
        let empty = CString::new("").unwrap();
        let added = redirectionio_trusted_proxies_create(empty.as_ptr());
        redirectionio_trusted_proxies_add_proxy(added, item.as_ptr());
        let (a, b) = (remote_ip(created), remote_ip(added));
        println!("create(\" 8.8.8.8\") -> {a}; create(\"\") + add_proxy(\" 8.8.8.8\") -> {b}");
        assert_eq!(a, b);
    }
}

// ---------------------------------------------------------------- borderline: NULL user data silences the callback logger

static CALLS: std::sync::atomic::AtomicUsize = std::sync::atomic::AtomicUsize::new(0);

extern "C" fn counting_cb(msg: *const c_char, _data: *const c_void, _level: i16) {
    CALLS.fetch_add(1, std::sync::atomic::Ordering::SeqCst);
    unsafe { take_string(msg) };
}

#[test]
fn b2_callback_logger_with_null_data() {
    if std::env::var("ZZ_CHILD2").is_ok() {
        unsafe {
            redirectionio_log_init_with_callback(counting_cb, null());
            let bad = CString::new("not json").unwrap();
            assert!(redirectionio_action_json_deserialize(bad.as_ptr() as *mut c_char).is_null());
        }
        eprintln!("callbacks={}", CALLS.load(std::sync::atomic::Ordering::SeqCst));
        return;
    }
    let exe = std::env::current_exe().unwrap();
    let out = std::process::Command::new(exe)
        .args(["--exact", "b2_callback_logger_with_null_data", "--nocapture", "--test-threads=1"])
        .env("ZZ_CHILD2", "1")
        .output()
        .unwrap();
    let stderr = String::from_utf8_lossy(&out.stderr);
    println!("status {:?}; {:?}", out.status, stderr.lines().filter(|l| l.contains("callbacks=")).collect::<Vec<_>>());
    assert!(stderr.contains("callbacks=1"), "the error was not reported to the callback");
}
