//! C16 — the HTML tokenizer is lossless and total on arbitrary bytes.
use crate::engine::*;
use proptest::prelude::*;
use redirectionio::html::{TokenType, Tokenizer};
use serde::{Deserialize, Serialize};
use serde_json::Value;

#[derive(Serialize, Deserialize, Clone, Debug, PartialEq)]
pub struct Case {
    /// the input when it is valid UTF-8
    #[serde(default, skip_serializing_if = "Option::is_none")]
    pub text: Option<String>,
    /// the input otherwise
    #[serde(default, skip_serializing_if = "Option::is_none")]
    pub bytes: Option<Vec<u8>>,
}

impl Case {
    pub fn from_bytes(b: Vec<u8>) -> Case {
        match String::from_utf8(b) {
            Ok(s) => Case { text: Some(s), bytes: None },
            Err(e) => Case { text: None, bytes: Some(e.into_bytes()) },
        }
    }
    pub fn input(&self) -> Vec<u8> {
        match (&self.text, &self.bytes) {
            (Some(t), _) => t.as_bytes().to_vec(),
            (None, Some(b)) => b.clone(),
            _ => Vec::new(),
        }
    }
}

const RAW_TAGS: [&str; 10] = ["iframe", "noembed", "noframes", "noscript", "plaintext", "script", "style", "title", "textarea", "xmp"];

// ---- termination watchdog --------------------------------------------------------------------------------------------------
// "Tokenisation terminates": the token-count bound below is the logical oracle, but a loop *inside* one call of `next()` never comes
// back to it (seeded change C16-m8 blocked a check for ever). Every thread therefore notes the input it is working on; a monitor
// thread looks for an input that has been in work for more than HANG_SECS (inputs are at most a few KiB and take microseconds). In
// replay mode that is the verdict. In search mode the input is saved and replayed twice in fresh processes: a violation only when both
// agree, infrastructure trouble (exit 2) otherwise - the wall clock alone never decides.
const HANG_SECS: u64 = 20;
type Slot = std::sync::Arc<std::sync::Mutex<Option<(Vec<u8>, std::time::Instant)>>>;
static SLOTS: std::sync::Mutex<Vec<Slot>> = std::sync::Mutex::new(Vec::new());
static MONITOR: std::sync::Once = std::sync::Once::new();
thread_local! {
    static MY_SLOT: Slot = {
        let s: Slot = Default::default();
        SLOTS.lock().unwrap().push(s.clone());
        s
    };
}

fn start_monitor() {
    MONITOR.call_once(|| {
        // only in the check binary: the libFuzzer targets have their own -timeout
        if !std::env::current_exe().ok().and_then(|p| p.file_name().map(|n| n.to_string_lossy().starts_with("rio-check"))).unwrap_or(false) {
            return;
        }
        std::thread::spawn(|| loop {
            std::thread::sleep(std::time::Duration::from_secs(2));
            let slots: Vec<Slot> = SLOTS.lock().unwrap().clone();
            for s in slots {
                let stuck = match &*s.lock().unwrap() {
                    Some((input, since)) if since.elapsed().as_secs() >= HANG_SECS => Some(input.clone()),
                    _ => None,
                };
                if let Some(input) = stuck {
                    report_hang(&input);
                }
            }
        });
    });
}

fn report_hang(input: &[u8]) -> ! {
    let case = Case::from_bytes(input.to_vec());
    let msg = format!("tokenising {:?} did not end within {HANG_SECS} s (Tokenizer::next() does not return)", String::from_utf8_lossy(input));
    if std::env::args().any(|a| a == "--replay") {
        println!("replay: FAIL: {msg}");
        println!("VIOLATION property=C16 replay={}", std::env::args().last().unwrap_or_default());
        std::process::exit(1);
    }
    let v = Violation { part: "hang-watchdog".to_string(), case: serde_json::to_value(&case).unwrap(), message: msg.clone() };
    let path = write_replay("C16", &v);
    let exe = std::env::current_exe().expect("current exe");
    let confirmed = (0..2).all(|_| {
        let Ok(mut child) = std::process::Command::new(&exe).args(["C16", "--replay", &path]).stdout(std::process::Stdio::null()).stderr(std::process::Stdio::null()).spawn() else { return false };
        let start = std::time::Instant::now();
        loop {
            match child.try_wait() {
                Ok(Some(st)) => return st.code() == Some(1),
                Ok(None) if start.elapsed().as_secs() > 3 * HANG_SECS => {
                    let _ = child.kill();
                    return true;
                }
                Ok(None) => std::thread::sleep(std::time::Duration::from_millis(200)),
                Err(_) => return false,
            }
        }
    });
    if confirmed {
        println!("failure in part hang-watchdog: {msg}");
        println!("VIOLATION property=C16 replay={path}");
        std::process::exit(1);
    }
    eprintln!("infrastructure: an input was in work for more than {HANG_SECS} s but its isolated replays ended in time ({path})");
    std::process::exit(2);
}

struct InWork(Slot);
impl Drop for InWork {
    fn drop(&mut self) {
        *self.0.lock().unwrap() = None;
    }
}

/// The oracle proper, usable from the fuzz target too.
pub fn check_bytes(input: &[u8], out: &mut Outcome) {
    start_monitor();
    let _in_work = MY_SLOT.with(|s| {
        *s.lock().unwrap() = Some((input.to_vec(), std::time::Instant::now()));
        InWork(s.clone())
    });
    let valid_utf8 = std::str::from_utf8(input).is_ok();
    let mut tok = Tokenizer::new(input.to_vec());
    let mut acc: Vec<u8> = Vec::with_capacity(input.len());
    let mut tokens = 0usize;
    let mut kinds: u32 = 0;
    let mut raw_entered = false;
    loop {
        if tokens > input.len() + 1 {
            out.fail(format!("more than |b|+1 = {} tokens produced (no progress?)", input.len() + 1));
            return;
        }
        let tt = match tok.next() {
            Ok(t) => t,
            Err(e) => {
                // total on every byte sequence: the tokenizer works on bytes, an error instead of a token is not an answer
                out.fail(format!("next() returned an error instead of a token ({} input): {e}", if valid_utf8 { "valid UTF-8" } else { "not valid UTF-8" }));
                return;
            }
        };
        if tt == TokenType::ErrorToken {
            let mut all = acc.clone();
            all.extend(tok.raw());
            all.extend(tok.buffered());
            if all != input {
                out.fail(format!(
                    "lossless violated: tokens({}) + error raw({}) + buffered({}) != input({})",
                    acc.len(),
                    tok.raw().len(),
                    tok.buffered().len(),
                    input.len()
                ));
            }
            break;
        }
        tokens += 1;
        let raw = tok.raw();
        if raw.is_empty() {
            out.fail(format!("token #{tokens} of type {tt:?} has an empty raw span"));
            return;
        }
        acc.extend_from_slice(&raw);
        if acc.len() > input.len() || acc[..] != input[..acc.len()] {
            out.fail(format!("token #{tokens}: concatenated raw spans are not a prefix of the input"));
            return;
        }
        kinds |= 1 << (tt as u32);
        if valid_utf8 {
            if let Err(e) = tok.raw_as_string() {
                out.fail(format!("raw_as_string failed on valid UTF-8: {e}"));
                return;
            }
            match tt {
                TokenType::StartTagToken | TokenType::EndTagToken | TokenType::SelfClosingTagToken => {
                    // tag_name, then attributes, exactly the way Tokenizer::token() does it
                    match tok.tag_name() {
                        Err(e) => {
                            out.fail(format!("tag_name failed on valid UTF-8: {e}"));
                            return;
                        }
                        Ok((name, mut has_attr)) => {
                            if let Some(n) = &name {
                                if tt == TokenType::StartTagToken && RAW_TAGS.contains(&n.as_str()) {
                                    raw_entered = true;
                                }
                            }
                            let mut guard = 0;
                            while has_attr {
                                guard += 1;
                                if guard > input.len() + 1 {
                                    out.fail("tag_attr does not terminate".to_string());
                                    return;
                                }
                                match tok.tag_attr() {
                                    Err(e) => {
                                        out.fail(format!("tag_attr failed on valid UTF-8: {e}"));
                                        return;
                                    }
                                    Ok((_, _, more)) => has_attr = more,
                                }
                            }
                        }
                    }
                }
                TokenType::TextToken | TokenType::CommentToken | TokenType::DoctypeToken => {
                    if let Err(e) = tok.text() {
                        out.fail(format!("text failed on valid UTF-8: {e}"));
                        return;
                    }
                }
                _ => {}
            }
            if let Err(e) = tok.token() {
                out.fail(format!("token() failed on valid UTF-8: {e}"));
                return;
            }
        } else {
            // accessors may return Err on invalid UTF-8 but must not panic
            let _ = tok.tag_name();
            let _ = tok.tag_attr();
            let _ = tok.text();
            let _ = tok.token();
        }
    }
    out.nontrivial = (tokens >= 3 && kinds.count_ones() >= 2) || raw_entered;
    if raw_entered {
        out.class("raw-text-state");
    }
    if !valid_utf8 {
        out.class("invalid-utf8");
    }
    if tokens == 0 {
        out.class("no-token");
    }
    if kinds & (1 << (TokenType::CommentToken as u32)) != 0 {
        out.class("comment");
    }
    if kinds & (1 << (TokenType::DoctypeToken as u32)) != 0 {
        out.class("doctype");
    }
    if kinds & (1 << (TokenType::SelfClosingTagToken as u32)) != 0 {
        out.class("self-closing");
    }
}

pub fn check(case: &Case) -> Outcome {
    let mut out = Outcome::new();
    check_bytes(&case.input(), &mut out);
    out
}

fn check_enum(case: &Case) -> Outcome {
    let mut out = check(case);
    out.distinct_by_construction = true;
    out
}

const SIGMA: [u8; 16] = [b'<', b'>', b'/', b'!', b'-', b'=', b'"', b'\'', b' ', b'a', b's', b'c', b'r', b'i', b'p', b't'];

pub const FRAGMENTS: [&str; 25] = [
    "<script>", "</script>", "<!--", "-->", "<![CDATA[", "]]>", "<title>", "</title>", "<textarea>", "<plaintext>", "<", "</", "x", " ", "<!", "-",
    "<script", "<a b='", ">", "<!DOCTYPE", "</SCRIPT>", "<SCRIPT>", "--!>", "<?", "/>",
];

fn nth_string(mut i: u64, base: u64) -> Vec<u64> {
    // all strings of length 0,1,2,... in order
    let mut len = 0;
    let mut block = 1u64;
    while i >= block {
        i -= block;
        block *= base;
        len += 1;
    }
    let mut v = Vec::with_capacity(len);
    for _ in 0..len {
        v.push(i % base);
        i /= base;
    }
    v
}

fn count_upto(base: u64, max_len: u32) -> u64 {
    (0..=max_len).map(|l| base.pow(l)).sum()
}

fn strategy_fragments() -> BoxedStrategy<Case> {
    let frag = prop_oneof![
        6 => pick(FRAGMENTS.iter().map(|s| s.to_string()).collect()),
        3 => pick(vec![
            "<div class=\"a\">", "</div>", "<p>", "</p>", "<br/>", "<img src=x>", "<style>", "</style>", "<!DOCTYPE html>", "<!doctype",
            "</SCRIPT>", "<SCRIPT>", "</scr", "ipt>", "<!-- x --!>", "--!>", "<?xml?>", "</>", "é", "日本", "&amp;", "a < b", "<xmp>", "</xmp>",
            "<iframe>", "</iframe>", "<noscript>", "</noscript>", "<title", "</title ", "</textarea\n>", "\u{0}", "<a href=\"x>y\">", "'", "\"", "=",
            "\u{e0}", "\u{c5}", "\u{a0}", "<k\u{c5}>", "<a title=voil\u{e0}>", "</d\u{e0}>", "<a b=", "<!--!>", "<!---!>", "<!--->", "<!-->",
        ].into_iter().map(|s| s.to_string()).collect()),
        1 => "[ -~]{0,6}".prop_map(|s| s),
    ];
    prop::collection::vec(frag, 0..24).prop_map(|v| Case::from_bytes(v.concat().into_bytes())).boxed()
}

fn strategy_bytes() -> BoxedStrategy<Case> {
    let byte = prop_oneof![
        4 => pick(SIGMA.to_vec()),
        1 => any::<u8>(),
        1 => pick(vec![0xC3u8, 0xA9, 0xE2, 0x82, 0xAC, 0xFF, 0x00, b'\n', b'\t', 0x0c, b'[', b']', b'D', b'O', b'C', b'T', b'Y', b'P', b'E', b'?']),
    ];
    prop::collection::vec(byte, 0..96).prop_map(Case::from_bytes).boxed()
}

pub fn run(ctx: &Ctx) -> Report {
    let mut rep = Report::new(
        "C16",
        "case = byte string; oracle = concat(raw(token_i)) + raw(error token) + buffered() == input, every non-error token has a non-empty span (so #tokens <= |b|+1), \
         no panic/overflow (overflow checks on), accessors Ok on valid UTF-8; exhaustive over the 16-symbol markup alphabet and over a 25-fragment alphabet, random fragment soups and byte strings beyond; \
         non-trivial = >=3 tokens of >=2 kinds, or a raw-text element (script/style/title/textarea/...) was entered; enumerated strings are distinct by construction, random ones by hash",
    );
    rep.assume("termination inside one call of next() is watched by a monitor thread: an input in work for more than 20 s (normal: microseconds) is replayed twice in fresh processes and reported only when both replays hang too (exit 2 otherwise)");
    rep.assume("Tokenizer::next() never answers with Err, whatever the bytes (the accessors may, on bytes that are not UTF-8)");
    let l1 = ctx.tier.pick(6, 7) as u32;
    let n1 = count_upto(16, l1);
    rep.add(run_enum(
        ctx,
        "exhaustive-sigma",
        n1,
        true,
        &format!("all {n1} strings of length <= {l1} over {{< > / ! - = \" ' space a s c r i p t}}"),
        |i| Some(Case::from_bytes(nth_string(i, 16).into_iter().map(|d| SIGMA[d as usize]).collect())),
        check_enum,
        &[],
    ));
    if rep.has_violation() {
        return rep;
    }
    let l2 = ctx.tier.pick(4, 5) as u32;
    let n2 = count_upto(25, l2);
    rep.add(run_enum(
        ctx,
        "exhaustive-fragments",
        n2,
        true,
        &format!("all {n2} concatenations of <= {l2} fragments out of {:?}", FRAGMENTS),
        |i| Some(Case::from_bytes(nth_string(i, 25).into_iter().map(|d| FRAGMENTS[d as usize]).collect::<String>().into_bytes())),
        check_enum,
        &[],
    ));
    if rep.has_violation() {
        return rep;
    }
    rep.add(run_part(ctx, "random-fragments", ctx.cases(2_000_000, 60_000_000), strategy_fragments, check, &[]));
    if rep.has_violation() {
        return rep;
    }
    rep.add(run_part(ctx, "random-bytes", ctx.cases(2_000_000, 60_000_000), strategy_bytes, check, &[]));
    rep
}

pub fn replay(_part: &str, case: &Value) -> Result<Outcome, String> {
    replay_case::<Case, _>(case, check)
}
