// Inputs for which the UNCHANGED library does not do what property C10 states.
// Every test below FAILS on the unchanged tree. See NOTES.md next to this file for the details, the confidence in each
// finding, and why each input is believed to be inside the domain of the property.

use redirectionio::RouterConfig;
use redirectionio::action::Action;
use redirectionio::api::Rule;
use redirectionio::http::{Header, PathAndQueryWithSkipped, Request};
use redirectionio::router::Router;

fn router_config() -> RouterConfig {
    serde_json::from_str(
        r#"{"always_match_any_host":false,"ignore_header_case":false,"ignore_host_case":false,"ignore_marketing_query_params":true,"ignore_path_and_query_case":false,"marketing_query_params":["utm_source"],"pass_marketing_query_params_to_target":true}"#,
    )
    .expect("cannot deserialize config")
}

/// None when the rule does not match, the Location header otherwise
fn location(rule: &str, url: &str, host: Option<&str>, header_lines: &[(&str, &str)]) -> Option<String> {
    let mut router = Router::<Rule>::from_config(router_config());
    router.insert(serde_json::from_str::<Rule>(rule).expect("cannot deserialize rule"));

    let default_config = RouterConfig::default();
    let mut request = Request::new(
        PathAndQueryWithSkipped::from_config(&default_config, url),
        url.to_string(),
        host.map(|host| host.to_string()),
        None,
        None,
        None,
        None,
    );

    for (name, value) in header_lines {
        request.add_header(name.to_string(), value.to_string(), false);
    }

    let request = Request::rebuild_with_config(&router.config, &request);
    let matched = router.match_request(&request);

    if matched.is_empty() {
        return None;
    }

    let mut action = Action::from_routes_rule(matched, &request, None);
    let headers = action.filter_headers(Vec::<Header>::new(), 0, false, None);

    Some(
        headers
            .iter()
            .find(|header| header.name == "Location")
            .map(|header| header.value.clone())
            .unwrap_or_else(|| "<no Location header>".to_string()),
    )
}

// S1. A marker which accepts the empty string ("anything": `.*`, or `[0-9]*`), used as the value of a query parameter,
// instantiated with the empty string: the rule does not match.
// The query of a request is rebuilt, and `q=` is rebuilt as `q` (no `=` for an empty value) while the pattern of the
// rule is `/search\?q=(?:.*)`: it wants the `=`.
#[test]
fn s1_empty_instantiation_of_a_marker_in_a_query_value() {
    let rule = r#"{"id":"r","rank":0,"markers":[{"name":"q","regex":".*"}],"source":{"path":"/search","query":"q=@q"},"status_code":302,"target":"/find/@q"}"#;

    // a non empty instantiation is fine
    assert_eq!(location(rule, "/search?q=rust", None, &[]), Some("/find/rust".to_string()));
    // the same marker in the path accepts the empty string
    let in_path = r#"{"id":"r","rank":0,"markers":[{"name":"q","regex":".*"}],"source":{"path":"/search/@q"},"status_code":302,"target":"/find/@q"}"#;
    assert_eq!(location(in_path, "/search/", None, &[]), Some("/find/".to_string()));

    // "" is accepted by `.*`: expected Some("/find/"), observed None
    assert_eq!(location(rule, "/search?q=", None, &[]), Some("/find/".to_string()));
}

// S2. A `match_regex` header pattern is searched in the header value, not matched against the whole of it, whereas the
// marker is captured with the anchored pattern: a value made from a string REJECTED by the expression of the marker
// makes the rule match, and the target keeps a literal "@n".
#[test]
fn s2_rejected_string_in_a_header_pattern() {
    let rule = r#"{"id":"r","rank":0,"markers":[{"name":"n","regex":"[0-9]+"}],"source":{"path":"/p","headers":[{"name":"X-Version","type":"match_regex","value":"v@n"}]},"status_code":302,"target":"/t/@n"}"#;

    // n := 12 is accepted
    assert_eq!(location(rule, "/p", None, &[("X-Version", "v12")]), Some("/t/12".to_string()));
    // n := "" is rejected and the rule does not match
    assert_eq!(location(rule, "/p", None, &[("X-Version", "v")]), None);

    // n := "12x" is rejected by [0-9]+ : expected None, observed Some("/t/@n")
    assert_eq!(location(rule, "/p", None, &[("X-Version", "v12x")]), None);
}

// S3. A percent encoded capture from a query value is decoded: `%26`, `%3D`, `%25` come out as `&`, `=`, `%`
// (while `%23` and `%2B` stay encoded), which changes the meaning of the target url.
#[test]
fn s3_percent_encoded_capture_from_a_query_value() {
    let rule = r#"{"id":"r","rank":0,"markers":[{"name":"q","regex":".*"}],"source":{"path":"/search","query":"q=@q"},"status_code":302,"target":"/find?term=@q"}"#;

    // the same capture from a path segment is kept as it is
    let in_path = r#"{"id":"r","rank":0,"markers":[{"name":"q","regex":".*"}],"source":{"path":"/search/@q"},"status_code":302,"target":"/find?term=@q"}"#;
    assert_eq!(location(in_path, "/search/a%26b", None, &[]), Some("/find?term=a%26b".to_string()));

    // q := "a%26b" (accepted by `.*`): expected Some("/find?term=a%26b"), observed Some("/find?term=a&b")
    assert_eq!(location(rule, "/search?q=a%26b", None, &[]), Some("/find?term=a%26b".to_string()));
}

// S4. A marker whose name starts with a digit ("@1", like a back reference): the non capturing pattern is fine so the
// rule matches, but `(?P<1>...)` is not a valid group name, the capture pattern does not compile, and the target
// keeps a literal "@1".
#[test]
fn s4_marker_name_starting_with_a_digit() {
    let rule = r#"{"id":"r","rank":0,"markers":[{"name":"1","regex":"[0-9]+"}],"source":{"path":"/p/@1"},"status_code":302,"target":"/t/@1"}"#;

    // a rejected string makes the rule not match: the marker is understood in the source
    assert_eq!(location(rule, "/p/abc", None, &[]), None);

    // expected Some("/t/12"), observed Some("/t/@1")
    assert_eq!(location(rule, "/p/12", None, &[]), Some("/t/12".to_string()));
}

// S5. An enum marker with a value which holds a space, in a path: the request carries the space as `%20`, the
// expression of the marker is only percent encoded for controls and non ASCII characters (`café` works, see below),
// so the value with a space can never be matched.
#[test]
fn s5_enum_value_with_a_space_in_a_path() {
    let rule = r#"{"id":"r","rank":0,"markers":[{"name":"city","regex":"(?:new york|paris|orléans)"}],"source":{"path":"/city/@city"},"status_code":302,"target":"/c/@city"}"#;

    assert_eq!(location(rule, "/city/paris", None, &[]), Some("/c/paris".to_string()));
    // a non ASCII value is encoded on both sides
    assert_eq!(location(rule, "/city/orléans", None, &[]), Some("/c/orl%C3%A9ans".to_string()));

    // city := "new york" is accepted by the expression: expected Some("/c/new%20york"), observed None
    // (the same with the url written `/city/new%20york`)
    assert_eq!(location(rule, "/city/new york", None, &[]), Some("/c/new%20york".to_string()));
}

// S6. As soon as a rule declares a variable, whatever it is about, its markers stop being substituted.
#[test]
fn s6_marker_reference_in_a_rule_with_an_unrelated_variable() {
    let rule = r#"{"id":"r","rank":0,"markers":[{"name":"n","regex":"[0-9]+"}],"variables":[{"name":"host","type":"request_host"}],"source":{"path":"/p/@n"},"status_code":302,"target":"https://@host/t/@n"}"#;

    // expected Some("https://example.org/t/12"), observed Some("https://example.org/t/@n")
    assert_eq!(
        location(rule, "/p/12", Some("example.org"), &[]),
        Some("https://example.org/t/12".to_string())
    );
}
