//! C15 — HTML filters edit the targeted element as specified on well-formed documents.
use crate::dom::*;
use crate::engine::*;
use proptest::prelude::*;
use redirectionio::filter::FilterBodyAction;
use redirectionio::http::Header;
use serde::{Deserialize, Serialize};
use serde_json::Value;

#[derive(Serialize, Deserialize, Clone, Debug, PartialEq)]
pub struct Case {
    pub doc: Vec<Node>,
    pub filters: Vec<FilterSpec>,
    /// 0 = no header, 1 = Content-Type: text/html; charset=utf-8, 2 = TEXT/HTML
    pub content_type: u8,
}

pub fn headers_for(kind: u8) -> Vec<Header> {
    match kind % 3 {
        0 => vec![],
        1 => vec![Header { name: "Content-Type".into(), value: "text/html; charset=utf-8".into() }],
        _ => vec![Header { name: "content-type".into(), value: "TEXT/HTML".into() }],
    }
}

pub fn run_filters(filters: Vec<redirectionio::api::BodyFilter>, headers: &[Header], chunks: &[&[u8]]) -> Vec<u8> {
    let mut f = FilterBodyAction::new(filters, headers);
    let mut out = Vec::new();
    for c in chunks {
        out.extend(f.filter(c.to_vec(), None));
    }
    out.extend(f.end(None));
    out
}

fn count_elems(nodes: &[Node], tag: &str) -> usize {
    nodes
        .iter()
        .map(|n| match n {
            Node::Elem(e) => (if e.tag == tag { 1 } else { 0 }) + count_elems(&e.children, tag),
            _ => 0,
        })
        .sum()
}

fn has_decoy(nodes: &[Node]) -> bool {
    nodes.iter().any(|n| match n {
        Node::Comment(_) | Node::Raw(..) => true,
        Node::Elem(e) => e.end.is_empty() || has_decoy(&e.children),
        _ => false,
    })
}

pub fn check(case: &Case) -> Outcome {
    let mut out = Outcome::new();
    let input = serialize(&case.doc);
    let mut tree = case.doc.clone();
    for f in &case.filters {
        reference_edit(&mut tree, f, 0);
    }
    let expected = serialize(&tree);
    let got = run_filters(case.filters.iter().map(|f| f.to_lib()).collect(), &headers_for(case.content_type), &[input.as_bytes()]);
    if got != expected.as_bytes() {
        out.fail(format!(
            "filters {:?}\n on {:?}\n give  {:?}\n reference edit gives {:?}",
            case.filters.iter().map(|f| f.to_json().to_string()).collect::<Vec<_>>(),
            input,
            String::from_utf8_lossy(&got),
            expected
        ));
        return out;
    }
    let changed = expected != input;
    for f in &case.filters {
        out.class(match (f.action.as_str(), f.selector.as_deref().unwrap_or("").is_empty()) {
            ("append_child", true) => "append",
            ("append_child", false) => "append+selector",
            ("prepend_child", true) => "prepend",
            ("prepend_child", false) => "prepend+selector",
            ("replace", true) => "replace",
            _ => "replace+selector",
        });
    }
    if case.filters.len() >= 2 {
        out.class("composed-filters");
    }
    if !changed {
        out.class("unchanged(selector polarity)");
    }
    out.nontrivial = changed && has_decoy(&case.doc);
    out
}

// ---------------------------------------------------------------------------------------------
#[derive(Clone, Debug)]
struct Plan {
    path: Vec<&'static str>,
    action: &'static str,
    /// replace only: 0 normal single, 1 repeated siblings, 2 void tag, 3 self-closing syntax
    target_form: u8,
    /// 0 none, 1 Some(""), 2 `.sel-hit` with a hit inside, 3 `.sel-hit` without hit, 4 `.no-such-class` (with a hit inside, irrelevant)
    selector_mode: u8,
}

const VOID_TARGETS: &[&str] = &["meta", "link", "embed", "source", "area", "param", "col"];

fn plan_strategy() -> BoxedStrategy<Plan> {
    (prop::sample::subsequence(PATH_TAGS.to_vec(), 1..=4).prop_shuffle(), pick(vec!["append_child", "prepend_child", "replace"]), 0u8..4, pickw(vec![(3u32, 0u8), (1, 1), (3, 2), (2, 3), (1, 4)]), 0..VOID_TARGETS.len(), prop::bool::weighted(0.5), 0u8..12)
        .prop_map(|(mut path, action, form, selector_mode, vt, real_skeleton, table)| {
            if real_skeleton {
                // the usual skeleton: html > head|body > ...
                let tail: Vec<&'static str> = path.iter().copied().filter(|t| !["html", "head", "body"].contains(t)).collect();
                let mut p = vec!["html", if path.len() % 2 == 0 { "head" } else { "body" }];
                p.extend(tail);
                p.truncate(path.len().max(1));
                path = p;
            }
            let target_form = if action == "replace" { form } else { 0 };
            if target_form == 2 {
                let n = path.len();
                path[n - 1] = VOID_TARGETS[vt];
            }
            // audit round 2 (D49): a table row as target, its hit on a cell - elements that a fragment parsed as a child of `body`
            // loses; a hit on a self-closing `body` / `head` / `html` target is no longer avoided either
            if table == 0 && target_form < 2 {
                let n = path.len();
                path[n - 1] = "tr";
            }
            Plan { path, action, target_form, selector_mode }
        })
        .boxed()
}

fn selector_of(mode: u8) -> Option<String> {
    match mode {
        0 => None,
        1 => Some(String::new()),
        2 | 3 => Some(".sel-hit".to_string()),
        _ => Some(".no-such-class".to_string()),
    }
}

fn hit_child(cells: bool) -> BoxedStrategy<Node> {
    (pick(if cells { vec!["td", "th", "td", "th", "td"] } else { vec!["span", "em", "b", "i", "strong"] }), style_strategy(), 0usize..5, fill_strategy(1, vec![])).prop_map(|(t, st, h, ch)| Node::Elem(make_elem(t, &st, ch, Some(h), 0))).boxed()
}

/// one occurrence of the target element
fn target_strategy(tag: &'static str, form: u8, want_hit: bool, decoys: Vec<String>) -> BoxedStrategy<Node> {
    if form == 2 || form == 3 {
        // void tag or self-closing syntax: the hit (if any) sits on the element itself
        return (style_strategy(), 0usize..5, 1u8..3)
            .prop_map(move |(st, h, sc)| Node::Elem(make_elem(tag, &st, vec![], if want_hit { Some(h) } else { None }, if form == 3 { sc } else { 0 })))
            .boxed();
    }
    (style_strategy(), fill_strategy(2, decoys.clone()), fill_strategy(1, decoys), hit_child(tag == "tr"), prop::bool::weighted(if tag == "tr" { 0.0 } else { 0.3 }), 0usize..5)
        .prop_map(move |(st, a, b, hit, wrap, h)| {
            let mut children = a;
            if want_hit {
                if wrap {
                    // a deeper strict descendant
                    children.push(Node::Elem(make_elem("p", &ElemStyle { upper: false, attrs: String::new(), space_before_gt: false, end_space: false }, vec![hit], None, 0)));
                } else {
                    children.push(hit);
                }
            }
            children.extend(b);
            let _ = h;
            Node::Elem(make_elem(tag, &st, merge_text(children), None, 0))
        })
        .boxed()
}

pub fn strategy() -> BoxedStrategy<Case> {
    plan_strategy()
        .prop_flat_map(|plan| {
            let decoys: Vec<String> = plan.path.iter().map(|s| s.to_string()).collect();
            let d = plan.path.len();
            let last = plan.path[d - 1];
            let n_targets = if plan.target_form == 1 { 2..=3usize } else { 1..=1usize };
            let want_hit = plan.selector_mode == 2 || plan.selector_mode == 4;
            // repeated siblings: each occurrence decides on its own whether it carries a hit
            let occ = if plan.target_form == 1 && plan.selector_mode == 2 {
                prop::collection::vec(any::<bool>(), n_targets.clone())
                    .prop_flat_map({
                        let decoys = decoys.clone();
                        move |hits| hits.into_iter().map(|h| target_strategy(last, 0, h, decoys.clone())).collect::<Vec<_>>()
                    })
                    .boxed()
            } else {
                prop::collection::vec(target_strategy(last, plan.target_form, want_hit, decoys.clone()), n_targets).boxed()
            };
            // per level: (style, fill before, fill after)
            let levels = prop::collection::vec((style_strategy(), fill_strategy(2, decoys.clone()), fill_strategy(2, decoys.clone())), d);
            let between = prop::collection::vec(fill_strategy(1, decoys.clone()), 4);
            let value = fill_strategy(2, decoys.clone());
            let extra = (prop::bool::weighted(0.5), 0u8..4, fill_strategy(1, decoys.clone()), prop::bool::weighted(0.3), fill_strategy(1, decoys.clone()), 0u8..3, pick(vec![false, true]));
            (Just(plan), occ, levels, between, value, extra, prop::bool::weighted(0.3), 0u8..3)
        })
        .prop_map(|(plan, occ, levels, between, value, (with_f2, f2_kind, f2_value, with_f3, f3_value, f3_action, doctype_upper), doctype, content_type)| {
            let d = plan.path.len();
            // innermost level: target occurrences interleaved with fill
            let mut inner: Vec<Node> = Vec::new();
            for (i, t) in occ.into_iter().enumerate() {
                inner.extend(between[i % between.len()].clone());
                inner.push(t);
            }
            inner.extend(between[3].clone());
            let mut cur = merge_text(inner);
            // wrap with the ancestors, from the inside out
            for lvl in (0..d - 1).rev() {
                let (st, before, after) = &levels[lvl];
                let mut ch = before.clone();
                ch.extend(cur);
                ch.extend(after.clone());
                cur = vec![Node::Elem(make_elem(plan.path[lvl], st, merge_text(ch), None, 0))];
            }
            let (_, top_before, top_after) = &levels[d - 1];
            let mut doc: Vec<Node> = Vec::new();
            if doctype {
                doc.push(Node::Comment(if doctype_upper { "<!DOCTYPE html>".to_string() } else { "<!doctype html>\n".to_string() }));
            }
            // only text / comments / fill at top level
            doc.extend(top_before.clone());
            doc.extend(cur);
            doc.extend(top_after.clone());
            let doc = merge_text(doc);

            let path: Vec<String> = plan.path.iter().map(|s| s.to_string()).collect();
            let mut selector = selector_of(plan.selector_mode);
            // half of the `.sel-hit` selectors are qualified with the element type of the (first) hit, or of an absent one
            if doctype_upper && (plan.selector_mode == 2 || plan.selector_mode == 3) {
                let ty = first_hit_tag(&doc).unwrap_or_else(|| "span".to_string());
                selector = Some(format!("{ty}.sel-hit"));
            }
            let mut f1 = FilterSpec { action: plan.action.to_string(), path: path.clone(), selector, value };
            let mut filters = Vec::new();
            let used_tags: Vec<&str> = plan.path.clone();
            let new_tag = PATH_TAGS.iter().find(|t| !used_tags.contains(t)).copied().unwrap_or("aside");
            let plain = ElemStyle { upper: false, attrs: String::new(), space_before_gt: false, end_space: false };
            let mut f2: Option<FilterSpec> = None;
            if with_f2 {
                let insert = if f2_kind % 2 == 0 { "append_child" } else { "prepend_child" };
                if f2_kind >= 2 {
                    // chained: f1 inserts a new element which f2 then targets
                    f1.value.push(Node::Elem(make_elem(new_tag, &plain, vec![Node::Text("chained".into())], None, 0)));
                    let mut p2 = if plan.action == "replace" { path[..d - 1].to_vec() } else { path.clone() };
                    p2.push(new_tag.to_string());
                    // f1 must act for the chained target to exist; otherwise the path does not occur and the case is outside the domain
                    let mut probe = doc.clone();
                    reference_edit(&mut probe, &f1, 0);
                    if count_elems(&probe, new_tag) == 1 {
                        f2 = Some(FilterSpec { action: insert.to_string(), path: p2, selector: None, value: f2_value });
                    }
                } else if plan.action != "replace" {
                    f2 = Some(FilterSpec { action: insert.to_string(), path: path.clone(), selector: if f2_kind == 1 { Some(".no-such-class".into()) } else { None }, value: f2_value });
                } else if d >= 2 {
                    f2 = Some(FilterSpec { action: insert.to_string(), path: path[..d - 1].to_vec(), selector: None, value: f2_value });
                }
            }
            filters.push(f1);
            filters.extend(f2);
            if with_f3 && d >= 2 {
                let a3 = ["append_child", "prepend_child", "append_child"][f3_action as usize % 3];
                filters.push(FilterSpec { action: a3.to_string(), path: path[..d - 1].to_vec(), selector: None, value: f3_value });
            }
            Case { doc, filters, content_type }
        })
        .boxed()
}

pub fn run(ctx: &Ctx) -> Report {
    let mut rep = Report::new(
        "C15",
        "case = well-formed generated DOM tree carrying its exact source text (attributes unquoted / single / double quoted / empty / containing > or tags, upper-case tag names, spaces before >, void and self-closing elements, entity and 'a < b' text, multi-byte text, \
         comments / scripts / styles / textareas containing fake path tags and fake selector hits) in which every element of the filter path occurs once as a direct child of the previous one (the last one possibly as repeated / void / self-closing siblings for replace); \
         1..3 filters (3 actions x selector none / empty / class or type+class selector matching a strict descendant or the void target itself / matching nothing x depth 1..4), later filters on a prefix path, the same path, or on an element inserted by the first; single chunk; \
         oracle = output == serialize(reference_edit(tree, filters)) with the reference working on the tree (insert before end tag / after start tag / substitute node), filter by filter; \
         non-trivial = the document changed and contains >=1 decoy (comment or raw-text element mentioning path tags, void or self-closing element); distinct by case hash",
    );
    rep.assume("selectors are class selectors whose hits sit on elements whose tree construction is context-free in html5ever fragment mode (scraper/html5ever are trusted for selector evaluation); text nodes never contain a '<' that could open a tag; the elements of the filter paths carry explicit end tags, fill elements may be written without theirs (p, li, dt, dd: a start tag and nothing else as far as the filters are concerned)");
    rep.add(run_part(ctx, "documents", ctx.cases(800_000, 30_000_000), strategy, check, &[]));
    rep
}

pub fn replay(_part: &str, case: &Value) -> Result<Outcome, String> {
    replay_case::<Case, _>(case, check)
}
