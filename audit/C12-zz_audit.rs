#![allow(clippy::all)]
extern crate redirectionio;

use redirectionio::RouterConfig;
use redirectionio::action::Action;
use redirectionio::api::Rule;
use redirectionio::http::Request;
use redirectionio::regex_radix_tree::{RegexTreeMap, Trace as TreeTrace};
use redirectionio::router::Router;
use serde_json::Value;
use std::collections::HashSet;

struct Rng(u64);
impl Rng {
    fn next(&mut self) -> u64 {
        self.0 ^= self.0 << 13;
        self.0 ^= self.0 >> 7;
        self.0 ^= self.0 << 17;
        self.0
    }
    fn below(&mut self, n: usize) -> usize {
        (self.next() % (n as u64)) as usize
    }
    fn pick<T: Copy>(&mut self, v: &[T]) -> T {
        v[self.below(v.len())]
    }
}

fn canon(v: &Value) -> Value {
    match v {
        Value::Array(a) => {
            let mut items: Vec<Value> = a.iter().map(canon).collect();
            items.sort_by_key(|x| x.to_string());
            Value::Array(items)
        }
        Value::Object(o) => Value::Object(o.iter().map(|(k, v)| (k.clone(), canon(v))).collect()),
        other => other.clone(),
    }
}

fn observe(router: &Router<Rule>, req: &Request) -> String {
    let request = Request::rebuild_with_config(&router.config, req);
    let matched = router.match_request(&request);
    let mut ids: Vec<String> = matched.iter().map(|r| r.id().to_string()).collect();
    ids.sort();
    let mut caps = Vec::new();
    for r in &matched {
        let mut c: Vec<(String, String)> = r.capture(&request).into_iter().collect();
        c.sort();
        caps.push((r.id().to_string(), c));
    }
    caps.sort();
    let traces = router.trace_request(&request);
    let tj = canon(&serde_json::to_value(&traces).unwrap());
    // final_route is a tie-break on HashMap order between equal priorities: not comparable between two router instances
    let mut gt = serde_json::to_value(&router.get_trace(&request)).unwrap();
    gt.as_object_mut().unwrap().remove("final_route");
    let gt = canon(&gt);
    let mut action = Action::from_routes_rule(matched, &request, None);
    let code = action.get_status_code(0, None);
    let headers = action.filter_headers(Vec::new(), 0, false, None);
    let hs: Vec<String> = headers.iter().map(|h| format!("{}: {}", h.name, h.value)).collect();
    format!("ids={:?}\ncaps={:?}\ncode={} headers={:?}\ntrace={}\nget_trace={}", ids, caps, code, hs, tj, gt)
}

fn gen_rule(rng: &mut Rng, id: usize) -> Rule {
    let segs = ["/a", "/ab", "/b", "/A", "/é", "/a b", "/x.y", "/(", "/[", "/+", "/a/", "/%C3%A9", "/a@", "", "/"];
    let marker_regexes = [
        "[a-z]+",
        "[a-z]*",
        ".+?",
        ".*",
        "",
        "[A-Z]+",
        "(a|b)+",
        "\\d{1,3}",
        "[^/]+",
        "é+",
        "(?i)x+",
        "a{2}",
        "a{3}",
        "(",
        "[",
        "\\p{Ll}+",
        "b|c",
        "^a",
        "a$",
        "\\n?",
        ".",
    ];
    let names = ["m", "mm", "n", "M", "a-b", "1x"];
    let mut path = String::new();
    let parts = 1 + rng.below(3);
    let mut used: Vec<&str> = Vec::new();
    for _ in 0..parts {
        path.push_str(rng.pick(&segs));
        if rng.below(2) == 0 {
            let n = rng.pick(&names);
            path.push('@');
            path.push_str(n);
            used.push(n);
        }
    }
    if path.is_empty() {
        path.push('/');
    }
    let mut markers = Vec::new();
    let mut seen = HashSet::new();
    for n in &used {
        if seen.insert(*n) {
            markers.push(serde_json::json!({"name": n, "regex": rng.pick(&marker_regexes)}));
        }
    }
    let mut source = serde_json::json!({"path": path});
    match rng.below(6) {
        0 => {
            source["host"] = Value::from("example.org");
        }
        1 => {
            let n = rng.pick(&names);
            source["host"] = Value::from(format!("@{}.example.org", n));
            if seen.insert(n) {
                markers.push(serde_json::json!({"name": n, "regex": rng.pick(&marker_regexes)}));
            }
        }
        2 => {
            let n = rng.pick(&names);
            source["host"] = Value::from(format!("www@{}.Example.org", n));
            if seen.insert(n) {
                markers.push(serde_json::json!({"name": n, "regex": rng.pick(&marker_regexes)}));
            }
        }
        _ => {}
    }
    if rng.below(5) == 0 {
        let n = rng.pick(&names);
        source["query"] = Value::from(format!("q=@{}&z=1", n));
        if seen.insert(n) {
            markers.push(serde_json::json!({"name": n, "regex": rng.pick(&marker_regexes)}));
        }
    }
    let rule = serde_json::json!({
        "id": format!("r{}", id),
        "rank": rng.below(3),
        "source": source,
        "markers": markers,
        "status_code": 302,
        "target": "/t/@m/@mm/@n",
    });
    serde_json::from_value(rule).expect("rule")
}

fn gen_request(rng: &mut Rng, config: &RouterConfig) -> Request {
    let segs = ["/a", "/ab", "/b", "/A", "/%C3%A9", "/é", "/a%20b", "/a b", "/x.y", "/(", "/[", "/+", "/a/", "/abc", "/aa", "/aaa", "/1", "/", "/x\ny", "/X", "/a@"];
    let mut path = String::new();
    for _ in 0..(1 + rng.below(4)) {
        path.push_str(rng.pick(&segs));
    }
    if rng.below(5) == 0 {
        path.push_str(rng.pick(&["?q=abc&z=1", "?z=1&q=aa", "?q=&z=1", "?Q=A&z=1"]));
    }
    let host = match rng.below(5) {
        0 => None,
        1 => Some("example.org".to_string()),
        2 => Some("abc.example.org".to_string()),
        3 => Some("wwwaa.Example.org".to_string()),
        _ => Some("AA.EXAMPLE.ORG".to_string()),
    };
    Request::from_config(config, path, host, Some("https".to_string()), Some("GET".to_string()), None, None)
}

fn config(rng: &mut Rng) -> RouterConfig {
    let mut c = RouterConfig::default();
    c.ignore_host_case = rng.below(2) == 0;
    c.ignore_path_and_query_case = rng.below(2) == 0;
    c.always_match_any_host = rng.below(2) == 0;
    c
}

#[test]
fn router_differential_fuzz() {
    let mut rng = Rng(0x9E3779B97F4A7C15);
    let mut failures = 0;
    for round in 0..400 {
        let cfg = config(&mut rng);
        let mut plain = Router::<Rule>::from_config(cfg.clone());
        let mut warm = Router::<Rule>::from_config(cfg.clone());
        let mut next_id = 0;
        let mut live: Vec<usize> = Vec::new();
        let steps = 3 + rng.below(12);
        for _step in 0..steps {
            // an update
            match rng.below(4) {
                0 if !live.is_empty() => {
                    let i = rng.below(live.len());
                    let id = format!("r{}", live.remove(i));
                    plain.remove(&id);
                    warm.remove(&id);
                }
                1 if !live.is_empty() => {
                    // change set: update one, add one, remove one
                    let upd = rng.pick(&live);
                    let mut urule = gen_rule(&mut rng, upd);
                    urule.id = format!("r{}", upd);
                    let add = gen_rule(&mut rng, next_id);
                    live.push(next_id);
                    next_id += 1;
                    let mut removed = HashSet::new();
                    if live.len() > 2 {
                        let i = rng.below(live.len() - 1);
                        if live[i] != upd {
                            removed.insert(format!("r{}", live.remove(i)));
                        }
                    }
                    plain.apply_change_set(vec![add.clone()], vec![urule.clone()], removed.clone());
                    warm.apply_change_set(vec![add], vec![urule], removed);
                }
                _ => {
                    let rule = gen_rule(&mut rng, next_id);
                    live.push(next_id);
                    next_id += 1;
                    plain.insert(rule.clone());
                    warm.insert(rule);
                }
            }
            // warm-ups
            for _ in 0..rng.below(3) {
                let limit = match rng.below(8) {
                    0 => None,
                    1 => Some(0),
                    2 => Some(u64::MAX),
                    3 => Some(1000),
                    _ => Some(rng.below(6) as u64),
                };
                warm.cache(limit);
            }
            for _ in 0..6 {
                let req = gen_request(&mut rng, &cfg);
                let a = observe(&plain, &req);
                let b = observe(&warm, &req);
                if a != b {
                    failures += 1;
                    if failures < 4 {
                        println!("ROUND {} MISMATCH for {:?}\nplain: {}\nwarm:  {}", round, req.path_and_query(), a, b);
                    }
                }
            }
        }
    }
    assert_eq!(failures, 0);
}

fn tree_trace_string(t: &TreeTrace<String>) -> String {
    canon(&serde_json::to_value(tt(t)).unwrap()).to_string()
}

fn tt(t: &TreeTrace<String>) -> Value {
    // Trace fields are crate private: use Debug
    Value::from(format!("{:?}", t))
}

#[test]
fn tree_differential_fuzz() {
    let mut rng = Rng(0x1234567);
    let atoms = ["a", "b", "/", "(?:a|b)", "(a)+", "[ab]", "[^/]+", ".", ".*", "\\.", "a{2}", "a{3}", "é", "(?:)", "x?", "\\(", "[(]", "A"];
    let hay_atoms = ["a", "b", "/", ".", "é", "(", "A", "aa", "x", "\n", ""];
    let mut failures = 0;
    for _round in 0..3000 {
        let ic = rng.below(2) == 0;
        let mut plain = RegexTreeMap::<String>::new(ic);
        let mut warm = RegexTreeMap::<String>::new(ic);
        let mut ids = Vec::new();
        for step in 0..(1 + rng.below(8)) {
            match rng.below(5) {
                0 if !ids.is_empty() => {
                    let i = rng.below(ids.len());
                    let id: String = ids.remove(i);
                    assert_eq!(plain.remove(&id), warm.remove(&id));
                }
                1 if !ids.is_empty() => {
                    let i = rng.below(ids.len());
                    let id: String = ids.remove(i);
                    plain.retain(&|k, _| k != id);
                    warm.retain(&|k, _| k != id);
                }
                _ => {
                    let mut p = String::new();
                    for _ in 0..(1 + rng.below(4)) {
                        p.push_str(rng.pick(&atoms));
                    }
                    let id = format!("i{}", step);
                    plain.insert(&p, &id, p.clone());
                    warm.insert(&p, &id, p.clone());
                    ids.push(id);
                }
            }
            for _ in 0..rng.below(3) {
                let limit = match rng.below(4) {
                    0 => 0,
                    1 => u64::MAX,
                    _ => rng.below(5) as u64,
                };
                let level = match rng.below(3) {
                    0 => None,
                    _ => Some(rng.below(5) as u64),
                };
                let left = warm.cache(limit, level);
                assert!(left <= limit);
            }
            for _ in 0..8 {
                let mut h = String::new();
                for _ in 0..rng.below(5) {
                    h.push_str(rng.pick(&hay_atoms));
                }
                let mut a: Vec<&String> = plain.find(&h);
                let mut b: Vec<&String> = warm.find(&h);
                a.sort();
                b.sort();
                let ta = format!("{:?}", plain.trace(&h));
                let tb = format!("{:?}", warm.trace(&h));
                if a != b || ta.len() != tb.len() {
                    failures += 1;
                    if failures < 4 {
                        println!("TREE MISMATCH hay={:?}\nplain={:?}\nwarm={:?}\n{}\n{}", h, a, b, ta, tb);
                    }
                }
            }
            assert_eq!(plain.len(), warm.len());
        }
    }
    let _ = tree_trace_string;
    assert_eq!(failures, 0);
}

fn light(router: &Router<Rule>, req: &Request) -> String {
    let request = Request::rebuild_with_config(&router.config, req);
    let matched = router.match_request(&request);
    let mut caps = Vec::new();
    for r in &matched {
        let mut c: Vec<(String, String)> = r.capture(&request).into_iter().collect();
        c.sort();
        caps.push((r.id().to_string(), c));
    }
    caps.sort();
    let traced: Vec<String> = {
        let traces = router.trace_request(&request);
        let mut v: Vec<String> = redirectionio::router::Trace::<Rule>::get_routes_from_traces(&traces)
            .iter()
            .map(|r| r.id().to_string())
            .collect();
        v.sort();
        v
    };
    format!("{:?} traced={:?}", caps, traced)
}

#[test]
fn large_deep_router() {
    let mut rng = Rng(77);
    let mut cfg = RouterConfig::default();
    cfg.ignore_path_and_query_case = true;
    cfg.ignore_host_case = true;
    let mut plain = Router::<Rule>::from_config(cfg.clone());
    let mut warm = Router::<Rule>::from_config(cfg.clone());
    let mut n = 0;
    // deep chain + bushy levels, on path and on host
    for depth in 1..60 {
        for branch in ["x", "y", "z"] {
            let path = format!("{}/{}@m/end", "/a".repeat(depth), branch);
            let host = if depth % 3 == 0 { Some(format!("{}{}@h.example.org", "w".repeat(depth), branch)) } else { None };
            let mut source = serde_json::json!({"path": path});
            if let Some(h) = host {
                source["host"] = Value::from(h);
            }
            let rule: Rule = serde_json::from_value(serde_json::json!({
                "id": format!("r{}", n), "rank": 1, "source": source,
                "markers": [{"name":"m","regex":"[a-z]+"},{"name":"h","regex":"[a-z0-9]*"}],
                "status_code": 301, "target": "/t/@m/@h"
            }))
            .unwrap();
            n += 1;
            plain.insert(rule.clone());
            warm.insert(rule);
        }
    }
    let mut reqs = Vec::new();
    for _ in 0..600 {
        let depth = 1 + rng.below(62);
        let path = format!("{}/{}{}/end", "/a".repeat(depth), rng.pick(&["x", "y", "z", "q"]), rng.pick(&["abc", "ABC", "", "1"]));
        let host = match rng.below(3) {
            0 => None,
            1 => Some(format!("{}{}abc.example.org", "w".repeat(depth), rng.pick(&["x", "y", "z"]))),
            _ => Some(format!("{}{}.EXAMPLE.org", "W".repeat(depth), rng.pick(&["x", "y", "z"]))),
        };
        reqs.push(Request::from_config(&cfg, path, host, Some("http".to_string()), Some("GET".to_string()), None, None));
    }
    let expected: Vec<String> = reqs.iter().map(|r| light(&plain, r)).collect();
    assert!(expected.iter().any(|e| e.contains("abc")));
    for limit in [Some(0), Some(1), Some(2), Some(7), Some(50), None, Some(3), Some(100000), None, Some(u64::MAX)] {
        warm.cache(limit);
        for (r, e) in reqs.iter().zip(expected.iter()) {
            assert_eq!(&light(&warm, r), e, "after cache({:?})", limit);
        }
    }
}

#[test]
fn concurrent_capture_while_compiling() {
    use std::sync::Arc;
    let cfg = RouterConfig::default();
    let mut router = Router::<Rule>::from_config(cfg.clone());
    for i in 0..50 {
        let rule: Rule = serde_json::from_value(serde_json::json!({
            "id": format!("r{}", i), "rank": 1, "source": {"path": format!("/p{}/@m", i), "host": "@h.example.org"},
            "markers": [{"name":"m","regex":"[\\p{Ll}\\p{Lu}0-9]+"},{"name":"h","regex":"[a-z]+"}],
            "status_code": 301, "target": "/t/@m/@h"
        }))
        .unwrap();
        router.insert(rule);
    }
    let shared = Arc::new(router.clone());
    let mut handles = Vec::new();
    for t in 0..3 {
        let shared = shared.clone();
        let cfg = cfg.clone();
        handles.push(std::thread::spawn(move || {
            for k in 0..300 {
                let i = (k + t) % 50;
                let req = Request::from_config(&cfg, format!("/p{}/Abc9", i), Some("www.example.org".to_string()), None, None, None, None);
                let m = shared.match_request(&req);
                assert_eq!(m.len(), 1);
                let c = m[0].capture(&req);
                assert_eq!(c.get("m").map(|s| s.as_str()), Some("Abc9"));
                assert_eq!(c.get("h").map(|s| s.as_str()), Some("www"));
            }
        }));
    }
    // the clone shares its routes (and their capture regex locks) with the router in use
    for _ in 0..5 {
        router.cache(Some(1000));
    }
    for h in handles {
        h.join().unwrap();
    }
}

/// Borderline (not a transparency violation): a limit above i64::MAX is cast to a negative budget and caches nothing.
#[test]
fn borderline_huge_limit_caches_nothing() {
    let mut router = Router::<Rule>::from_config(RouterConfig::default());
    let rule: Rule = serde_json::from_value(serde_json::json!({
        "id": "r", "rank": 1, "source": {"path": "/p/@m"}, "markers": [{"name":"m","regex":"[a-z]+"}],
        "status_code": 301, "target": "/t/@m"
    }))
    .unwrap();
    router.insert(rule);
    router.cache(Some(u64::MAX));
    let after_max = format!("{:?}", router).contains("compiled: Some");
    router.cache(Some(i64::MAX as u64));
    let after_i64 = format!("{:?}", router).contains("compiled: Some");
    println!("cached after cache(Some(u64::MAX)) = {}, after cache(Some(i64::MAX)) = {}", after_max, after_i64);
    assert!(!after_max && after_i64);
}
