#![allow(dead_code)]
extern crate redirectionio;

use redirectionio::RouterConfig;
use redirectionio::action::Action;
use redirectionio::api::Rule;
use redirectionio::http::{Header, PathAndQueryWithSkipped, Request};
use redirectionio::router::{Router, Trace};

const CFG: &str = r#"{"always_match_any_host":false,"ignore_header_case":false,"ignore_host_case":false,"ignore_marketing_query_params":true,"ignore_path_and_query_case":false,"marketing_query_params":["utm_source","utm_medium","utm_campaign","utm_term","utm_content"],"pass_marketing_query_params_to_target":true}"#;

struct Out {
    matched: Vec<String>,
    traced: Vec<String>,
    headers: Vec<Header>,
    status: u16,
}

impl Out {
    fn location(&self) -> Option<String> {
        self.headers.iter().find(|h| h.name == "Location").map(|h| h.value.clone())
    }
    fn header(&self, name: &str) -> Option<String> {
        self.headers.iter().find(|h| h.name == name).map(|h| h.value.clone())
    }
}

fn run(cfg: &str, rules: &[&str], path: &str, host: Option<&str>, headers: &[(&str, &str)]) -> Out {
    let config: RouterConfig = serde_json::from_str(cfg).expect("config");
    let mut router = Router::<Rule>::from_config(config);
    for r in rules {
        let rule: Rule = serde_json::from_str(r).expect("rule");
        router.insert(rule);
    }
    let default_config = RouterConfig::default();
    let mut request = Request::new(
        PathAndQueryWithSkipped::from_config(&default_config, path),
        path.to_string(),
        host.map(|h| h.to_string()),
        None,
        None,
        None,
        None,
    );
    for (n, v) in headers {
        request.add_header(n.to_string(), v.to_string(), false);
    }
    let request_configured = Request::rebuild_with_config(&router.config, &request);
    let matched = router.match_request(&request_configured);
    let traces = router.trace_request(&request_configured);
    let routes_traces = Trace::<Rule>::get_routes_from_traces(&traces);
    let mut m: Vec<String> = matched.iter().map(|r| r.id().to_string()).collect();
    m.sort();
    let mut t: Vec<String> = routes_traces.iter().map(|r| r.id().to_string()).collect();
    t.sort();
    let mut action = Action::from_routes_rule(matched, &request_configured, None);
    let status = action.get_status_code(0, None);
    let headers = action.filter_headers(Vec::new(), 0, false, None);
    Out {
        matched: m,
        traced: t,
        headers,
        status,
    }
}

fn show(label: &str, o: &Out) {
    println!(
        "{label}: matched={:?} traced={:?} status={} headers={:?}",
        o.matched,
        o.traced,
        o.status,
        o.headers.iter().map(|h| format!("{}: {}", h.name, h.value)).collect::<Vec<_>>()
    );
}

#[test]
fn probe_header_unanchored() {
    let rule = r#"{"id":"r","markers":[{"name":"id","regex":"[0-9]+"}],"rank":0,"source":{"headers":[{"name":"X-Id","type":"match_regex","value":"@id"}],"path":"/test"},"status_code":302,"target":"/t/@id"}"#;
    show("exact", &run(CFG, &[rule], "/test", None, &[("X-Id", "123")]));
    show("embedded", &run(CFG, &[rule], "/test", None, &[("X-Id", "abc123def")]));
    let rule2 = r#"{"id":"r","markers":[{"name":"id","regex":"[0-9]+"}],"rank":0,"source":{"headers":[{"name":"X-Id","type":"match_regex","value":"user-@id"}],"path":"/test"},"status_code":302,"target":"/t/@id"}"#;
    show("embedded2", &run(CFG, &[rule2], "/test", None, &[("X-Id", "superuser-12x")]));
}

#[test]
fn probe_query_percent() {
    let rule = r#"{"id":"r","markers":[{"name":"q","regex":".*"}],"rank":0,"source":{"path":"/s","query":"q=@q"},"status_code":302,"target":"/t?q=@q"}"#;
    show("plain", &run(CFG, &[rule], "/s?q=abc", None, &[]));
    show("pct25", &run(CFG, &[rule], "/s?q=100%25", None, &[]));
    show("pct26", &run(CFG, &[rule], "/s?q=a%26b%3Dc", None, &[]));
    show("pct2541", &run(CFG, &[rule], "/s?q=%2541", None, &[]));
    show("plus", &run(CFG, &[rule], "/s?q=a+b", None, &[]));
    show("empty", &run(CFG, &[rule], "/s?q=", None, &[]));
    show("invalid-utf8", &run(CFG, &[rule], "/s?q=%FF", None, &[]));
    let rule_p = r#"{"id":"r","markers":[{"name":"q","regex":".*"}],"rank":0,"source":{"path":"/s/@q"},"status_code":302,"target":"/t/@q"}"#;
    show("path pct25", &run(CFG, &[rule_p], "/s/100%25", None, &[]));
    show("path pct2f", &run(CFG, &[rule_p], "/s/a%2Fb", None, &[]));
}

const CFG_IC: &str = r#"{"always_match_any_host":false,"ignore_header_case":true,"ignore_host_case":true,"ignore_marketing_query_params":true,"ignore_path_and_query_case":true,"marketing_query_params":["utm_source","utm_medium","utm_campaign","utm_term","utm_content"],"pass_marketing_query_params_to_target":true}"#;

#[test]
fn probe_ignore_case_captures() {
    let rule = r#"{"id":"r","markers":[{"name":"p","regex":"[A-Za-z]+"},{"name":"h","regex":"[A-Za-z]+"},{"name":"x","regex":"[A-Za-z]+"}],"rank":0,"source":{"host":"@h.example.com","headers":[{"name":"X-Tok","type":"match_regex","value":"tok-@x"}],"path":"/Test/@p"},"status_code":302,"target":"/t/@p/@h/@x"}"#;
    show("cs", &run(CFG, &[rule], "/Test/AbC", Some("WwW.example.com"), &[("X-Tok", "tok-XyZ")]));
    show("ic", &run(CFG_IC, &[rule], "/Test/AbC", Some("WwW.example.com"), &[("X-Tok", "tok-XyZ")]));
    show("ic2", &run(CFG_IC, &[rule], "/TEST/AbC", Some("WwW.EXAMPLE.com"), &[("x-tok", "TOK-XyZ")]));
}

#[test]
fn probe_enum_space_path() {
    let rule = r#"{"id":"r","markers":[{"name":"m","regex":"(?:foo bar|baz)"}],"rank":0,"source":{"path":"/x/@m"},"status_code":302,"target":"/t/@m"}"#;
    show("baz", &run(CFG, &[rule], "/x/baz", None, &[]));
    show("foo%20bar", &run(CFG, &[rule], "/x/foo%20bar", None, &[]));
    show("foo bar", &run(CFG, &[rule], "/x/foo bar", None, &[]));
    let rule2 = r#"{"id":"r","markers":[{"name":"m","regex":"(?:a\"b|a<b|a>b)"}],"rank":0,"source":{"path":"/x/@m"},"status_code":302,"target":"/t/@m"}"#;
    show("a%22b", &run(CFG, &[rule2], "/x/a%22b", None, &[]));
    show("a%3Cb", &run(CFG, &[rule2], "/x/a%3Cb", None, &[]));
}

#[test]
fn probe_nonascii_class_path() {
    let rule = r#"{"id":"r","markers":[{"name":"m","regex":"[a-zéè]+"}],"rank":0,"source":{"path":"/x/@m"},"status_code":302,"target":"/t/@m"}"#;
    show("cafe", &run(CFG, &[rule], "/x/cafe", None, &[]));
    show("café", &run(CFG, &[rule], "/x/café", None, &[]));
    show("C3", &run(CFG, &[rule], "/x/C3", None, &[]));
    show("%", &run(CFG, &[rule], "/x/%%", None, &[]));
    let rule2 = r#"{"id":"r","markers":[{"name":"m","regex":"é+"}],"rank":0,"source":{"path":"/x/@m"},"status_code":302,"target":"/t/@m"}"#;
    show("éé", &run(CFG, &[rule2], "/x/éé", None, &[]));
    show("é", &run(CFG, &[rule2], "/x/é", None, &[]));
    show("%C3%A99", &run(CFG, &[rule2], "/x/%C3%A999", None, &[]));
}

#[test]
fn probe_prefix_names() {
    let rule = r#"{"id":"r","markers":[{"name":"a","regex":"[0-9]+"},{"name":"ab","regex":"[a-z]+"},{"name":"abc","regex":"[A-Z]+"}],"rank":0,"source":{"path":"/x/@a@ab@abc/@abc-@ab-@a"},"status_code":302,"target":"/t/@abc@ab@a/@a@ab@abc/@abcd/@abd/@ad"}"#;
    show("p", &run(CFG, &[rule], "/x/12xyQW/QW-xy-12", None, &[]));
}

#[test]
fn probe_variables_nonempty() {
    let rule = r#"{"id":"r","markers":[{"name":"m","regex":"[0-9]+"}],"variables":[{"name":"h","type":"request_host"}],"rank":0,"source":{"path":"/x/@m"},"status_code":302,"target":"https://@h/t/@m"}"#;
    show("v", &run(CFG, &[rule], "/x/12", Some("example.com"), &[]));
    let rule2 = r#"{"id":"r","markers":[{"name":"m","regex":"[a-z]+","transformers":[{"type":"uppercase","options":null}]}],"variables":[{"name":"m","type":{"marker":"m"},"transformers":[{"type":"slice","options":{"from":"0","to":"2"}}]},{"name":"mm","type":{"marker":"m"}}],"rank":0,"source":{"path":"/x/@m"},"status_code":302,"target":"/t/@m/@mm/@mmm"}"#;
    show("v2", &run(CFG, &[rule2], "/x/abcdef", Some("example.com"), &[]));
}

#[test]
fn probe_names() {
    let rule = r#"{"id":"r","markers":[{"name":"2fa","regex":"[0-9]+"}],"rank":0,"source":{"path":"/x/@2fa"},"status_code":302,"target":"/t/@2fa"}"#;
    show("digit-first", &run(CFG, &[rule], "/x/12", None, &[]));
    let rule = r#"{"id":"r","markers":[{"name":"1","regex":"[0-9]+"},{"name":"2","regex":"[a-z]+"}],"rank":0,"source":{"path":"/x/@1/@2"},"status_code":302,"target":"/t/@2/@1"}"#;
    show("digits", &run(CFG, &[rule], "/x/12/ab", None, &[]));
    let rule = r#"{"id":"r","markers":[{"name":"my_id","regex":"[0-9]+"},{"name":"my","regex":"[a-z]+"}],"rank":0,"source":{"path":"/x/@my_id/@my"},"status_code":302,"target":"/t/@my/@my_id"}"#;
    show("underscore", &run(CFG, &[rule], "/x/12/ab", None, &[]));
    let rule = r#"{"id":"r","markers":[{"name":"année","regex":"[0-9]+"}],"rank":0,"source":{"path":"/x/@année"},"status_code":302,"target":"/t/@année"}"#;
    show("unicode name path", &run(CFG, &[rule], "/x/12", None, &[]));
    let rule = r#"{"id":"r","markers":[{"name":"my-id","regex":"[0-9]+"}],"rank":0,"source":{"path":"/x/@my-id"},"status_code":302,"target":"/t/@my-id"}"#;
    show("dash name", &run(CFG, &[rule], "/x/12", None, &[]));
}

#[test]
fn probe_datetime_query() {
    let rx = r#"([0-9]+)-(0[1-9]|1[012])-(0[1-9]|[12][0-9]|3[01])T([01][0-9]|2[0-3]):([0-5][0-9]):([0-5][0-9]|60)(\\.[0-9]+)?(([Zz])|([\\+|\\-]([01][0-9]|2[0-3])(:?[03]0)?))"#;
    let rule = format!(
        r#"{{"id":"r","markers":[{{"name":"d","regex":"{rx}"}}],"rank":0,"source":{{"path":"/x","query":"d=@d"}},"status_code":302,"target":"/t/@d"}}"#
    );
    show("Z", &run(CFG, &[&rule], "/x?d=2020-01-01T10:00:00Z", None, &[]));
    show("-02:00", &run(CFG, &[&rule], "/x?d=2020-01-01T10:00:00-02:00", None, &[]));
    show("%2B02:00", &run(CFG, &[&rule], "/x?d=2020-01-01T10:00:00%2B02:00", None, &[]));
    show("+02:00", &run(CFG, &[&rule], "/x?d=2020-01-01T10:00:00+02:00", None, &[]));
    let rule = format!(
        r#"{{"id":"r","markers":[{{"name":"d","regex":"{rx}"}}],"rank":0,"source":{{"path":"/x/@d"}},"status_code":302,"target":"/t/@d"}}"#
    );
    show("path +02:00", &run(CFG, &[&rule], "/x/2020-01-01T10:00:00+02:00", None, &[]));
    show("path %2B02:00", &run(CFG, &[&rule], "/x/2020-01-01T10:00:00%2B02:00", None, &[]));
}

#[test]
fn probe_filters() {
    let rule = r#"{"id":"r","markers":[{"name":"m","regex":"[a-z]+","transformers":[{"type":"uppercase","options":null}]},{"name":"mm","regex":"[0-9]+"}],"rank":0,"source":{"path":"/x/@m/@mm"},
      "header_filters":[{"action":"add","header":"X-A","value":"v=@m;@mm;@mmm"}],
      "body_filters":[{"action":"append_child","value":"<meta name=\"@m\" content=\"@mm\"/>","element_tree":["html","head"],"css_selector":null,"inner_value":null},{"action":"replace_text","content":"T=@mm@m"}]}"#;
    let config: RouterConfig = serde_json::from_str(CFG).unwrap();
    let mut router = Router::<Rule>::from_config(config);
    router.insert(serde_json::from_str::<Rule>(rule).unwrap());
    let request = Request::from_config(&router.config, "/x/ab/12".to_string(), None, None, None, None, None);
    let matched = router.match_request(&request);
    let mut action = Action::from_routes_rule(matched, &request, None);
    let headers = action.filter_headers(Vec::new(), 200, false, None);
    println!("headers={:?}", headers.iter().map(|h| format!("{}: {}", h.name, h.value)).collect::<Vec<_>>());
    let mut f = action.create_filter_body(200, &[]).expect("filter");
    let mut out = f.filter(b"<html><head></head><body>x</body></html>".to_vec(), None);
    out.extend(f.end(None));
    println!("body={}", String::from_utf8_lossy(&out));
}

#[test]
fn probe_replace_empty() {
    let rule = r#"{"id":"r","markers":[{"name":"m","regex":"[a-z]+","transformers":[{"type":"replace","options":{"something":"","with":"-"}}]}],"rank":0,"source":{"path":"/x/@m"},"status_code":302,"target":"/t/@m"}"#;
    show("replace-empty", &run(CFG, &[rule], "/x/abc", None, &[]));
    let rule = r#"{"id":"r","markers":[{"name":"m","regex":"[a-z]+","transformers":[{"type":"slice","options":{"from":"1"}}]}],"rank":0,"source":{"path":"/x/@m"},"status_code":302,"target":"/t/@m"}"#;
    show("slice-from-only", &run(CFG, &[rule], "/x/abc", None, &[]));
    let rule = r#"{"id":"r","markers":[{"name":"m","regex":"[a-z]+","transformers":[{"type":"slice","options":{"from":"1","to":""}}]}],"rank":0,"source":{"path":"/x/@m"},"status_code":302,"target":"/t/@m"}"#;
    show("slice-to-empty", &run(CFG, &[rule], "/x/abc", None, &[]));
}

// ---------------------------------------------------------------------------------------------
// small differential fuzz: many rules sharing prefixes, typed markers, host + path + header
// ---------------------------------------------------------------------------------------------
struct Lcg(u64);
impl Lcg {
    fn next(&mut self) -> u64 {
        self.0 = self.0.wrapping_mul(6364136223846793005).wrapping_add(1442695040888963407);
        self.0 >> 33
    }
    fn below(&mut self, n: usize) -> usize {
        (self.next() % n as u64) as usize
    }
    fn pick<'a, T>(&mut self, v: &'a [T]) -> &'a T {
        &v[self.below(v.len())]
    }
    fn chance(&mut self, pct: u64) -> bool {
        self.next() % 100 < pct
    }
}

#[derive(Clone, Debug)]
enum Ty {
    Int,
    Lower,
    Enum,
    Uuid,
    Date,
    Any,
    AnyLazy,
}

fn ty_regex(t: &Ty) -> &'static str {
    match t {
        Ty::Int => "[0-9]+",
        Ty::Lower => "([\\p{Ll}])+?",
        Ty::Enum => "(cat|dog|fish|cat-fish)",
        Ty::Uuid => "[a-fA-F0-9]{8}-[a-fA-F0-9]{4}-[a-fA-F0-9]{4}-[a-fA-F0-9]{4}-[a-fA-F0-9]{12}",
        Ty::Date => "([0-9]+)-(0[1-9]|1[012])-(0[1-9]|[12][0-9]|3[01])",
        Ty::Any => ".*",
        Ty::AnyLazy => "(?:.+?)",
    }
}

fn gen_str(r: &mut Lcg, alphabet: &[&str], min: usize, max: usize) -> String {
    let n = min + r.below(max - min + 1);
    let mut s = String::new();
    for _ in 0..n {
        s.push_str(*r.pick(alphabet));
    }
    s
}

fn ty_accept(r: &mut Lcg, t: &Ty, raw: bool) -> String {
    match t {
        Ty::Int => gen_str(r, &["0", "1", "2", "7", "9"], 1, 6),
        Ty::Lower => gen_str(r, &["a", "b", "m", "z", "q"], 1, 6),
        Ty::Enum => r.pick(&["cat", "dog", "fish", "cat-fish"]).to_string(),
        Ty::Uuid => {
            let h = ["0", "9", "a", "F", "c", "3"];
            format!(
                "{}-{}-{}-{}-{}",
                gen_str(r, &h, 8, 8),
                gen_str(r, &h, 4, 4),
                gen_str(r, &h, 4, 4),
                gen_str(r, &h, 4, 4),
                gen_str(r, &h, 12, 12)
            )
        }
        Ty::Date => format!("{}-{}-{}", gen_str(r, &["1", "2", "0"], 1, 4), r.pick(&["01", "09", "10", "12"]), r.pick(&["01", "19", "29", "31"])),
        Ty::Any => {
            if raw {
                gen_str(r, &["a", "Z", "0", "-", "é", "@", "@a", "$1", "\\"], 0, 5)
            } else {
                gen_str(r, &["a", "Z", "0", "-", "%C3%A9", "%20", "@", "@a", "$1", "+", "(", "*"], 0, 5)
            }
        }
        Ty::AnyLazy => {
            if raw {
                gen_str(r, &["a", "Z", "0", "-", "é", "@ab"], 1, 5)
            } else {
                gen_str(r, &["a", "Z", "0", "-", "%C3%A9", "%20", "@ab", "&"], 1, 5)
            }
        }
    }
}

fn ty_reject(r: &mut Lcg, t: &Ty) -> Option<String> {
    match t {
        Ty::Int => Some(r.pick(&["", "12a", "a12", "1-2", "٣"]).to_string()),
        Ty::Lower => Some(r.pick(&["", "a1", "1", "a-b", "a%20"]).to_string()),
        Ty::Enum => Some(r.pick(&["", "cow", "catdog", "ca", "cat-", "cat-fis"]).to_string()),
        Ty::Uuid => Some(r.pick(&["", "0123", "g0000000-0000-0000-0000-000000000000", "00000000-0000-0000-0000-00000000000"]).to_string()),
        Ty::Date => Some(r.pick(&["", "2020-13-01", "2020-00-10", "2020-1-1", "x-01-01", "2020-01-32"]).to_string()),
        Ty::Any => None,
        Ty::AnyLazy => Some("".to_string()),
    }
}

#[derive(Clone, Debug)]
enum Tr {
    Upper,
    Lower,
    Slice(usize, usize),
    Replace(String, String),
}

fn tr_json(t: &Tr) -> String {
    match t {
        Tr::Upper => r#"{"type":"uppercase","options":null}"#.to_string(),
        Tr::Lower => r#"{"type":"lowercase","options":null}"#.to_string(),
        Tr::Slice(a, b) => format!(r#"{{"type":"slice","options":{{"from":"{a}","to":"{b}"}}}}"#),
        Tr::Replace(a, b) => format!(r#"{{"type":"replace","options":{{"something":"{a}","with":"{b}"}}}}"#),
    }
}

fn tr_apply(t: &Tr, s: &str) -> String {
    match t {
        Tr::Upper => s.to_uppercase(),
        Tr::Lower => s.to_lowercase(),
        Tr::Slice(a, b) => {
            if a >= b {
                String::new()
            } else {
                s.chars().skip(*a).take(b - a).collect()
            }
        }
        Tr::Replace(a, b) => s.replace(a.as_str(), b.as_str()),
    }
}

struct M {
    name: String,
    ty: Ty,
    trs: Vec<Tr>,
}

enum Piece {
    Lit(String),
    Mk(usize),
}

fn render_template(p: &[Piece], ms: &[M]) -> String {
    p.iter()
        .map(|x| match x {
            Piece::Lit(s) => s.clone(),
            Piece::Mk(i) => format!("@{}", ms[*i].name),
        })
        .collect()
}

fn render_inst(p: &[Piece], vals: &[String]) -> String {
    p.iter()
        .map(|x| match x {
            Piece::Lit(s) => s.clone(),
            Piece::Mk(i) => vals[*i].clone(),
        })
        .collect()
}

fn json_str(s: &str) -> String {
    serde_json::to_string(s).unwrap()
}

fn fuzz_once(seed: u64, failures: &mut Vec<String>) {
    let mut r = Lcg(seed.wrapping_mul(7919).wrapping_add(17));
    let ic_path = r.chance(30);
    let ic_host = r.chance(30);
    let ic_header = r.chance(30);
    let cfg = format!(
        r#"{{"always_match_any_host":{},"ignore_header_case":{ic_header},"ignore_host_case":{ic_host},"ignore_marketing_query_params":true,"ignore_path_and_query_case":{ic_path},"marketing_query_params":["utm_source"],"pass_marketing_query_params_to_target":true}}"#,
        r.chance(50)
    );
    let config: RouterConfig = serde_json::from_str(&cfg).unwrap();
    let mut router = Router::<Rule>::from_config(config);

    let names = ["a", "ab", "abc", "id", "id2", "idx", "x", "x_y", "A", "Ab", "m_1", "m_"];
    let seps = ["/", ".", "~", ",", ":", ";", "!", "/p/", "/shop/", "-v-"];
    let types = [Ty::Int, Ty::Lower, Ty::Enum, Ty::Uuid, Ty::Date, Ty::Any, Ty::AnyLazy];

    struct R {
        id: String,
        ms: Vec<M>,
        path: Vec<Piece>,
        host: Option<Vec<Piece>>,
        header: Option<Vec<Piece>>,
        target: String,
    }
    let mut rules = Vec::new();
    let nrules = 3 + r.below(10);
    for k in 0..nrules {
        // markers
        let mut ms: Vec<M> = Vec::new();
        let nm = 1 + r.below(4);
        while ms.len() < nm {
            let name = r.pick(&names).to_string();
            if ms.iter().any(|m| m.name == name) {
                continue;
            }
            let ty = r.pick(&types).clone();
            let mut trs = Vec::new();
            for _ in 0..r.below(3) {
                trs.push(match r.below(4) {
                    0 => Tr::Upper,
                    1 => Tr::Lower,
                    2 => Tr::Slice(r.below(4), r.below(8)),
                    _ => Tr::Replace(r.pick(&["a", "0", "-", "cat", "%"]).to_string(), r.pick(&["", "X", "@a", "tiger"]).to_string()),
                });
            }
            ms.push(M { name, ty, trs });
        }
        // distribute markers: each marker goes to path (mostly), host or header
        let mut path = vec![Piece::Lit(r.pick(&["/shop/", "/shop/a/", "/s/", "/"]).to_string())];
        let mut host: Option<Vec<Piece>> = None;
        let mut header: Option<Vec<Piece>> = None;
        for i in 0..ms.len() {
            let place = r.below(10);
            let any = matches!(ms[i].ty, Ty::Any | Ty::AnyLazy);
            if place < 6 || (any && place < 8) {
                path.push(Piece::Mk(i));
                path.push(Piece::Lit(r.pick(&seps).to_string()));
            } else if place < 8 && host.is_none() && !matches!(ms[i].ty, Ty::Any | Ty::AnyLazy) {
                host = Some(vec![Piece::Mk(i), Piece::Lit(format!(".site{}.com", r.below(3)))]);
            } else if header.is_none() {
                header = Some(vec![Piece::Lit(r.pick(&["tok.", "", "Bearer "]).to_string()), Piece::Mk(i), Piece::Lit(r.pick(&["", ".end"]).to_string())]);
            } else {
                path.push(Piece::Mk(i));
                path.push(Piece::Lit(r.pick(&seps).to_string()));
            }
        }
        path.push(Piece::Lit(format!("r{k}")));
        // target uses all markers, in random order, some glued with following text
        let mut target = String::from("/t");
        for _ in 0..(ms.len() + r.below(3)) {
            let i = r.below(ms.len());
            target.push_str(*r.pick(&["/", "-", "@", "/@zz/", ""]));
            target.push('@');
            target.push_str(&ms[i].name);
            target.push_str(*r.pick(&["", "/", "!", "@"]));
        }
        let id = format!("rule{k}");
        let markers_json: Vec<String> = ms
            .iter()
            .map(|m| {
                format!(
                    r#"{{"name":{},"regex":{},"transformers":[{}]}}"#,
                    json_str(&m.name),
                    json_str(ty_regex(&m.ty)),
                    m.trs.iter().map(tr_json).collect::<Vec<_>>().join(",")
                )
            })
            .collect();
        let mut source = format!(r#""path":{}"#, json_str(&render_template(&path, &ms)));
        if let Some(h) = &host {
            source.push_str(&format!(r#","host":{}"#, json_str(&render_template(h, &ms))));
        }
        if let Some(h) = &header {
            source.push_str(&format!(
                r#","headers":[{{"name":"X-Tok","type":"match_regex","value":{}}}]"#,
                json_str(&render_template(h, &ms))
            ));
        }
        let rule_json = format!(
            r#"{{"id":"{id}","markers":[{}],"rank":{k},"source":{{{source}}},"status_code":302,"target":{},"header_filters":[{{"action":"add","header":"X-T","value":{}}}]}}"#,
            markers_json.join(","),
            json_str(&target),
            json_str(&target)
        );
        let rule: Rule = serde_json::from_str(&rule_json).unwrap_or_else(|e| panic!("{e}: {rule_json}"));
        router.insert(rule);
        rules.push((R { id, ms, path, host, header, target }, rule_json));
    }

    for pass in 0..2 {
        if pass == 1 {
            router.cache(Some(1000));
        }
        for (rule, rule_json) in &rules {
            for trial in 0..6 {
                let reject_idx = if trial >= 3 { Some(r.below(rule.ms.len())) } else { None };
                let in_path: Vec<bool> = (0..rule.ms.len()).map(|i| rule.path.iter().any(|p| matches!(p, Piece::Mk(j) if *j == i))).collect();
                let mut vals: Vec<String> = Vec::new();
                let mut rejected = false;
                for (i, m) in rule.ms.iter().enumerate() {
                    if Some(i) == reject_idx {
                        if let Some(v) = ty_reject(&mut r, &m.ty) {
                            // a non-ASCII digit in a path is percent encoded
                            vals.push(v);
                            rejected = true;
                            continue;
                        }
                    }
                    vals.push(ty_accept(&mut r, &m.ty, !in_path[i]));
                }
                let path = render_inst(&rule.path, &vals);
                let host = rule.host.as_ref().map(|h| render_inst(h, &vals));
                let header = rule.header.as_ref().map(|h| render_inst(h, &vals));
                let request = {
                    let mut rq = Request::from_config(&router.config, path.clone(), host.clone(), None, None, None, None);
                    if let Some(h) = &header {
                        rq.add_header("x-tok".to_string(), h.clone(), router.config.ignore_header_case);
                    }
                    rq
                };
                let matched = router.match_request(&request);
                let traces = router.trace_request(&request);
                let traced = Trace::<Rule>::get_routes_from_traces(&traces);
                let mut mi: Vec<&str> = matched.iter().map(|x| x.id()).collect();
                mi.sort();
                let mut ti: Vec<&str> = traced.iter().map(|x| x.id()).collect();
                ti.sort();
                if mi != ti {
                    failures.push(format!("seed {seed}: match {mi:?} != trace {ti:?} for {path} {host:?} {header:?}"));
                }
                let found = matched.iter().find(|x| x.id() == rule.id);
                if rejected {
                    let rej_in_header = reject_idx
                        .map(|i| rule.header.as_ref().map(|h| h.iter().any(|p| matches!(p, Piece::Mk(j) if *j == i))).unwrap_or(false))
                        .unwrap_or(false);
                    if found.is_some() && !(rej_in_header && std::env::var("FUZZ_HDR").is_err()) {
                        failures.push(format!(
                            "seed {seed} pass {pass}: REJECT-BUT-MATCH rule={rule_json} path={path} host={host:?} header={header:?} vals={vals:?} cfg={cfg}"
                        ));
                    }
                    continue;
                }
                let route = match found {
                    None => {
                        failures.push(format!(
                            "seed {seed} pass {pass}: NO-MATCH rule={rule_json} path={path} host={host:?} header={header:?} vals={vals:?} cfg={cfg}"
                        ));
                        continue;
                    }
                    Some(x) => x,
                };
                // expected values
                let mut vars: Vec<(String, String)> = Vec::new();
                for (i, m) in rule.ms.iter().enumerate() {
                    let mut v = vals[i].clone();
                    let in_host = rule.host.as_ref().map(|h| h.iter().any(|p| matches!(p, Piece::Mk(j) if *j == i))).unwrap_or(false);
                    let in_header = rule.header.as_ref().map(|h| h.iter().any(|p| matches!(p, Piece::Mk(j) if *j == i))).unwrap_or(false);
                    if (in_host && ic_host) || (in_header && ic_header) {
                        v = v.to_lowercase(); // tolerated here, reported separately
                    }
                    for t in &m.trs {
                        v = tr_apply(t, &v);
                    }
                    vars.push((m.name.clone(), v));
                }
                // independent substitution: at each '@' take the longest known name
                let mut expected = String::new();
                let mut rest = rule.target.as_str();
                while let Some(p) = rest.find('@') {
                    expected.push_str(&rest[..p]);
                    rest = &rest[p + 1..];
                    let mut best: Option<&(String, String)> = None;
                    for c in &vars {
                        if rest.starts_with(c.0.as_str()) && best.map(|b| c.0.len() > b.0.len()).unwrap_or(true) {
                            best = Some(c);
                        }
                    }
                    match best {
                        Some((n, v)) => {
                            expected.push_str(v);
                            rest = &rest[n.len()..];
                        }
                        None => expected.push('@'),
                    }
                }
                expected.push_str(rest);
                let got = Action::get_target(route, &request).unwrap_or_default();
                if got != expected {
                    failures.push(format!(
                        "seed {seed} pass {pass}: TARGET got={got} expected={expected} rule={rule_json} path={path} host={host:?} header={header:?} cfg={cfg}"
                    ));
                }
                let mut action = Action::from_routes_rule(vec![route.clone()], &request, None);
                let hs = action.filter_headers(Vec::new(), 0, false, None);
                let loc = hs.iter().find(|h| h.name == "Location").map(|h| h.value.clone()).unwrap_or_default();
                let xt = hs.iter().find(|h| h.name == "X-T").map(|h| h.value.clone()).unwrap_or_default();
                if loc != expected || xt != expected {
                    failures.push(format!("seed {seed} pass {pass}: HEADERS loc={loc} xt={xt} expected={expected} rule={rule_json} path={path}"));
                }
            }
        }
    }
}

#[test]
fn fuzz_markers() {
    let mut failures = Vec::new();
    let n: u64 = std::env::var("FUZZ_N").ok().and_then(|s| s.parse().ok()).unwrap_or(25);
    for seed in 0..n {
        fuzz_once(seed, &mut failures);
        if failures.len() > 30 {
            break;
        }
    }
    for f in failures.iter().take(30) {
        println!("{f}\n");
    }
    println!("failures: {}", failures.len());
    assert!(failures.is_empty());
}

#[test]
fn probe_misc2() {
    // same marker in path and host: which place wins?
    let rule = r#"{"id":"r","markers":[{"name":"m","regex":"[a-z]+"}],"rank":0,"source":{"host":"@m.example.com","path":"/x/@m"},"status_code":302,"target":"/t/@m"}"#;
    show("path+host", &run(CFG, &[rule], "/x/aa", Some("bb.example.com"), &[]));
    // header match_regex without marker in a rule which has markers: condition dropped
    let rule = r#"{"id":"r","markers":[{"name":"m","regex":"[a-z]+"}],"rank":0,"source":{"headers":[{"name":"X-A","type":"match_regex","value":"secret"}],"path":"/x/@m"},"status_code":302,"target":"/t/@m"}"#;
    show("hdr-dropped(no header sent)", &run(CFG, &[rule], "/x/aa", None, &[]));
    // enum with space / non-ascii class in host and header are fine (raw expressions)
    let rule = r#"{"id":"r","markers":[{"name":"m","regex":"(?:foo bar|baz)"},{"name":"h","regex":"[a-zé]+"}],"rank":0,"source":{"host":"@h.example.com","headers":[{"name":"X-A","type":"match_regex","value":"@m"}],"path":"/x"},"status_code":302,"target":"/t/@m/@h"}"#;
    show("raw ok", &run(CFG, &[rule], "/x", Some("café.example.com"), &[("X-A", "foo bar")]));
    show("raw reject", &run(CFG, &[rule], "/x", Some("c3.example.com"), &[("X-A", "foo bar")]));
    // html body filter
    let rule = r#"{"id":"r","markers":[{"name":"m","regex":"[a-z]+","transformers":[{"type":"uppercase","options":null}]},{"name":"mm","regex":"[0-9]+"}],"rank":0,"source":{"path":"/x/@m/@mm"},
      "body_filters":[{"action":"append_child","value":"<meta name=\"@m\" content=\"@mm\"/>","element_tree":["html","head"],"css_selector":null,"inner_value":null}]}"#;
    let config: RouterConfig = serde_json::from_str(CFG).unwrap();
    let mut router = Router::<Rule>::from_config(config);
    router.insert(serde_json::from_str::<Rule>(rule).unwrap());
    let request = Request::from_config(&router.config, "/x/ab/12".to_string(), None, None, None, None, None);
    let matched = router.match_request(&request);
    let mut action = Action::from_routes_rule(matched, &request, None);
    let mut f = action.create_filter_body(200, &[]).expect("filter");
    let mut out = f.filter(b"<html><head></head><body>x</body></html>".to_vec(), None);
    out.extend(f.end(None));
    println!("body={}", String::from_utf8_lossy(&out));
}

#[test]
fn probe_transform_pct() {
    let rule = r#"{"id":"r","markers":[{"name":"m","regex":"(?:.+?)","transformers":[{"type":"slice","options":{"from":"0","to":"4"}}]},{"name":"d","regex":"(?:.+?)","transformers":[{"type":"dasherize","options":null}]}],"rank":0,"source":{"path":"/x/@m/@d"},"status_code":302,"target":"/t/@m/@d"}"#;
    show("pct-slice", &run(CFG, &[rule], "/x/café/héllo wörld", None, &[]));
}


// =============================================================================================
// FINDINGS: each test states the behaviour the property requires and FAILS on the audited tree
// =============================================================================================

/// F1 - a match_regex header condition is matched unanchored but captured anchored
#[test]
fn finding_1_header_marker_matched_unanchored_captured_anchored() {
    let rule = r#"{"id":"r","markers":[{"name":"id","regex":"[0-9]+"}],"rank":0,"source":{"headers":[{"name":"X-Id","type":"match_regex","value":"user-@id"}],"path":"/test"},"status_code":302,"target":"/t/@id"}"#;
    let ok = run(CFG, &[rule], "/test", None, &[("X-Id", "user-123")]);
    assert_eq!(ok.location().as_deref(), Some("/t/123"));
    // "superuser-12x" is not "user-" followed by an integer: the rule must not match
    let ko = run(CFG, &[rule], "/test", None, &[("X-Id", "superuser-12x")]);
    show("F1", &ko);
    assert!(
        ko.matched.is_empty() || ko.location().as_deref() != Some("/t/@id"),
        "rule matched a rejected header value and redirects to the literal {:?}",
        ko.location()
    );
}

/// F2 - the value captured in a query is the decoded one: %26, %3D and %25 lose their escaping
#[test]
fn finding_2_query_capture_loses_percent_encoding() {
    let rule = r#"{"id":"r","markers":[{"name":"q","regex":".*"}],"rank":0,"source":{"path":"/s","query":"q=@q"},"status_code":302,"target":"/t?q=@q"}"#;
    let a = run(CFG, &[rule], "/s?q=a%26b%3Dc", None, &[]);
    let b = run(CFG, &[rule], "/s?q=100%25", None, &[]);
    let c = run(CFG, &[rule], "/s?q=%2541", None, &[]);
    // a return url forwarded to the target: its own query leaks into the query of the target
    let d = run(CFG, &[rule], "/s?q=https%3A%2F%2Fexample.com%2F%3Fa%3D1%26b%3D2", None, &[]);
    show("F2 a", &a);
    show("F2 b", &b);
    show("F2 c", &c);
    show("F2 d", &d);
    assert!(!d.location().unwrap_or_default().contains("&b=2"), "b=2 became a parameter of the target");
    assert_eq!(a.location().as_deref(), Some("/t?q=a%26b%3Dc"));
    assert_eq!(b.location().as_deref(), Some("/t?q=100%25"));
    assert_eq!(c.location().as_deref(), Some("/t?q=%2541"));
}

/// F3 - a marker accepting the empty string does not match an empty query value
#[test]
fn finding_3_empty_query_value_never_matches() {
    let rule = r#"{"id":"r","markers":[{"name":"q","regex":".*"}],"rank":0,"source":{"path":"/s","query":"q=@q"},"status_code":302,"target":"/t?q=@q"}"#;
    // same marker in a path: the empty instantiation matches
    let rule_path = r#"{"id":"p","markers":[{"name":"q","regex":".*"}],"rank":0,"source":{"path":"/p/@q"},"status_code":302,"target":"/t/@q"}"#;
    assert_eq!(run(CFG, &[rule_path], "/p/", None, &[]).location().as_deref(), Some("/t/"));
    let o = run(CFG, &[rule], "/s?q=", None, &[]);
    show("F3", &o);
    assert_eq!(o.location().as_deref(), Some("/t?q="));
}

/// F4 - with ignore_header_case the captured header value is the lowercased one (a path keeps its case)
#[test]
fn finding_4_ignore_header_case_lowercases_captured_value() {
    let rule = r#"{"id":"r","markers":[{"name":"p","regex":"[A-Za-z]+"},{"name":"x","regex":"[A-Za-z]+"}],"rank":0,"source":{"headers":[{"name":"X-Tok","type":"match_regex","value":"tok-@x"}],"path":"/test/@p"},"status_code":302,"target":"/t/@p/@x"}"#;
    let o = run(CFG_IC, &[rule], "/Test/AbC", None, &[("X-Tok", "Tok-XyZ")]);
    show("F4", &o);
    assert_eq!(o.location().as_deref(), Some("/t/AbC/XyZ"));
}

/// F5 - expressions are encoded with another set than request paths and queries
#[test]
fn finding_5_expression_and_request_encoded_with_different_sets() {
    // enum value with a space, in a path
    let rule = r#"{"id":"r","markers":[{"name":"m","regex":"(?:foo bar|baz)"}],"rank":0,"source":{"path":"/x/@m"},"status_code":302,"target":"/t/@m"}"#;
    let a = run(CFG, &[rule], "/x/foo%20bar", None, &[]);
    show("F5 enum", &a);
    // date-time expression of the fixtures, in a query: an offset with '+' can be sent in no way
    let rx = r#"([0-9]+)-(0[1-9]|1[012])-(0[1-9]|[12][0-9]|3[01])T([01][0-9]|2[0-3]):([0-5][0-9]):([0-5][0-9]|60)(\\.[0-9]+)?(([Zz])|([\\+|\\-]([01][0-9]|2[0-3])(:?[03]0)?))"#;
    let rule_q = format!(
        r#"{{"id":"r","markers":[{{"name":"d","regex":"{rx}"}}],"rank":0,"source":{{"path":"/x","query":"d=@d"}},"status_code":302,"target":"/t/@d"}}"#
    );
    let b = run(CFG, &[&rule_q], "/x?d=2020-01-01T10:00:00%2B02:00", None, &[]);
    show("F5 datetime", &b);
    assert_eq!(a.matched, vec!["r".to_string()], "enum value 'foo bar' sent as foo%20bar");
    assert_eq!(b.matched, vec!["r".to_string()], "date-time with +02:00 sent as %2B02:00 in a query");
}

/// F6 - a non-ASCII character of an expression becomes a run of ASCII characters: in a class or before
/// a quantifier the expression accepts other strings than the ones it was written for
#[test]
fn finding_6_non_ascii_in_class_or_quantified() {
    let rule = r#"{"id":"r","markers":[{"name":"m","regex":"[a-zéè]+"}],"rank":0,"source":{"path":"/x/@m"},"status_code":302,"target":"/t/@m"}"#;
    assert_eq!(run(CFG, &[rule], "/x/café", None, &[]).location().as_deref(), Some("/t/caf%C3%A9"));
    let a = run(CFG, &[rule], "/x/C3", None, &[]);
    show("F6 class", &a);
    let rule2 = r#"{"id":"r","markers":[{"name":"m","regex":"é+"}],"rank":0,"source":{"path":"/x/@m"},"status_code":302,"target":"/t/@m"}"#;
    let b = run(CFG, &[rule2], "/x/éé", None, &[]);
    let c = run(CFG, &[rule2], "/x/%C3%A999", None, &[]);
    show("F6 éé", &b);
    show("F6 %C3%A999", &c);
    assert!(a.matched.is_empty(), "'C3' is not in [a-zéè]+");
    assert_eq!(b.matched, vec!["r".to_string()], "'éé' is in é+");
    assert!(c.matched.is_empty(), "'é99' is not in é+");
}

/// F7 - transformers work on the percent encoded text of a path capture
#[test]
fn finding_7_transformers_on_percent_encoded_capture() {
    let rule = r#"{"id":"r","markers":[{"name":"m","regex":"(?:.+?)","transformers":[{"type":"slice","options":{"from":"0","to":"4"}}]}],"rank":0,"source":{"path":"/x/@m"},"status_code":302,"target":"/t/@m"}"#;
    let o = run(CFG, &[rule], "/x/café", None, &[]);
    show("F7 slice", &o);
    let rule_u = r#"{"id":"r","markers":[{"name":"m","regex":"(?:.+?)","transformers":[{"type":"uppercase","options":null}]}],"rank":0,"source":{"path":"/x/@m"},"status_code":302,"target":"/t/@m"}"#;
    let u = run(CFG, &[rule_u], "/x/café", None, &[]);
    show("F7 upper", &u);
    // the first four characters of "café" are "café"
    assert_eq!(o.location().as_deref(), Some("/t/caf%C3%A9"));
    assert_eq!(u.location().as_deref(), Some("/t/CAF%C3%89"));
}

/// F8 - a marker name which is not a valid group name (first character a digit): matched, never substituted
#[test]
fn finding_8_marker_name_starting_with_a_digit() {
    let rule = r#"{"id":"r","markers":[{"name":"2fa","regex":"[0-9]+"}],"rank":0,"source":{"path":"/x/@2fa"},"status_code":302,"target":"/t/@2fa"}"#;
    let o = run(CFG, &[rule], "/x/12", None, &[]);
    show("F8", &o);
    assert_eq!(o.matched, vec!["r".to_string()]);
    assert_eq!(o.location().as_deref(), Some("/t/12"));
}

#[test]
fn probe_misc3() {
    let rule_l = r#"{"id":"r","markers":[{"name":"m","regex":"(?:.+?)","transformers":[{"type":"lowercase","options":null}]}],"rank":0,"source":{"path":"/x/@m"},"status_code":302,"target":"/t/@m"}"#;
    show("lowercase CAFÉ", &run(CFG, &[rule_l], "/x/CAFÉ", None, &[]));
    let rule = r#"{"id":"r","markers":[{"name":"m","regex":"([\\p{Ll}])+?"}],"rank":0,"source":{"path":"/x/@m"},"status_code":302,"target":"/t/@m"}"#;
    show("Ll ABC cs", &run(CFG, &[rule], "/x/ABC", None, &[]));
    show("Ll ABC ic", &run(CFG_IC, &[rule], "/x/ABC", None, &[]));
    let rule_e = r#"{"id":"r","markers":[{"name":"m","regex":"(?:café|thé)"}],"rank":0,"source":{"path":"/x/@m"},"status_code":302,"target":"/t/@m"}"#;
    show("enum café ic", &run(CFG_IC, &[rule_e], "/x/café", None, &[]));
    show("enum CAFÉ ic", &run(CFG_IC, &[rule_e], "/x/CAFÉ", None, &[]));
    // marketing parameters
    let rule_i = r#"{"id":"r","markers":[{"name":"m","regex":"[0-9]+"}],"rank":0,"source":{"path":"/x/@m"},"status_code":302,"target":"/t/@m"}"#;
    show("utm", &run(CFG, &[rule_i], "/x/12?utm_source=a", None, &[]));
    let rule_i2 = r#"{"id":"r","markers":[{"name":"m","regex":"[0-9]+"}],"rank":0,"source":{"path":"/x/@m"},"status_code":302,"target":"/t?id=@m"}"#;
    show("utm2", &run(CFG, &[rule_i2], "/x/12?utm_source=a", None, &[]));
    // several request headers
    let rule_h = r#"{"id":"r","markers":[{"name":"id","regex":"[0-9]+"}],"rank":0,"source":{"headers":[{"name":"X-Id","type":"match_regex","value":"@id"}],"path":"/test"},"status_code":302,"target":"/t/@id"}"#;
    show("two headers", &run(CFG, &[rule_h], "/test", None, &[("X-Id", "abc"), ("x-id", "77"), ("X-ID", "zz")]));
}
