// C12 side finding on the UNCHANGED library: a leaf holding the empty expression answers differently before and
// after a warm up.
//
// `LazyRegex::is_match` has a shortcut for an expression which was not compiled: "if self.original.is_empty()
// { true }". That shortcut is right for a NODE (an empty prefix is compiled to `.*`, which matches everything),
// but `LazyRegex::new_leaf("")` builds `^$`, which only matches the empty haystack. So a leaf whose expression
// is empty matches EVERY haystack while it is not compiled, and only the empty haystack once `cache` compiled it.
//
// Inside the domain of the property: "the tree's cache warm-up with any limit and level ... changes no match
// result ... or trace", observed at "RegexTreeMap::find before vs after cache". The empty string is a valid
// expression, `RegexTreeMap::insert` takes it, and nothing documents it as excluded.

use redirectionio::regex_radix_tree::{RegexTreeMap, UniqueRegexTreeMap};

fn observe(tree: &RegexTreeMap<&'static str>, haystack: &str) -> (Vec<&'static str>, String) {
    let mut found: Vec<&'static str> = tree.find(haystack).into_iter().cloned().collect();
    found.sort();

    (found, format!("{:?}", tree.trace(haystack)))
}

#[test]
fn empty_leaf_alone() {
    let mut tree = RegexTreeMap::new(false);
    tree.insert("", "empty", "empty");

    let before: Vec<_> = ["", "a", "/foo"].iter().map(|haystack| observe(&tree, haystack)).collect();

    assert_eq!(tree.cache(10, None), 9);

    let after: Vec<_> = ["", "a", "/foo"].iter().map(|haystack| observe(&tree, haystack)).collect();

    // before: the leaf matches "", "a" and "/foo"; after: it only matches ""
    assert_eq!(before, after, "warming up the cache changed what the tree answers");
}

#[test]
fn empty_leaf_below_the_root_node() {
    // node "" [ leaf "", leaf "a+" ]
    let mut tree = RegexTreeMap::new(false);
    tree.insert("", "empty", "empty");
    tree.insert("a+", "some-a", "some-a");

    let before = observe(&tree, "aa");

    // level 0 is the root node, level 1 the two leaves
    tree.cache(10, Some(1));

    let after = observe(&tree, "aa");

    // before: ["empty", "some-a"]; after: ["some-a"]
    assert_eq!(before, after, "warming up the cache changed what the tree answers");
}

#[test]
fn empty_leaf_in_a_unique_tree() {
    let mut tree = UniqueRegexTreeMap::new(true);
    tree.insert("", 1);

    let before: Vec<i32> = tree.find("example.org").into_iter().cloned().collect();
    tree.cache(1, None);
    let after: Vec<i32> = tree.find("example.org").into_iter().cloned().collect();

    assert_eq!(before, after, "warming up the cache changed what the tree answers");
}
