#!/usr/bin/env bash
# usage: tools/try_seeded.sh <candidate-dir> <Cxx> [more Cyy ...]   - run the quick check(s) against /repo + patch
dir="$(realpath "$1")"; shift
cd "$(dirname "$0")/.."
for id in "$@"; do
  start=$(date +%s)
  out=$(tools/with_patch.sh "$dir/patch.diff" -- ./check $id --tier quick 2>&1); code=$?
  end=$(date +%s)
  echo "[$id on $(basename $(dirname $(dirname $dir)))/$(basename $dir)] exit=$code $((end-start))s"
  echo "$out" | grep -E "^(failure|VIOLATION|infrastructure|C[0-9]+ )" | cut -c1-420
done
