// Inputs for which the UNCHANGED library does not answer like a linear scan of its patterns.
//
// 1. `recursion_depth_grows_with_the_number_of_patterns` and `zz_a_chain_of_2000_patterns_overflows_the_stack`:
//    every operation of the tree is recursive and the depth of the tree is not bounded: a chain of
//    patterns where each one extends the previous one gives a tree as deep as the number of patterns.
// 2. `empty_pattern_matches_only_the_empty_string` (borderline for the stated domain, see NOTES.md):
//    a leaf holding the empty pattern matches every string as long as it is not compiled.

use redirectionio::regex_radix_tree::RegexTreeMap;
use std::cell::Cell;

// Patterns of the shape produced from rules: `/(?:[0-9]+)/a`, `/(?:[0-9]+)/aa`, `/(?:[0-9]+)/aaa`, ...
fn chain(n: usize) -> RegexTreeMap<usize> {
    let mut tree = RegexTreeMap::<usize>::new(false);
    let mut pattern = String::from("/(?:[0-9]+)/");

    for i in 0..n {
        pattern.push('a');
        tree.insert(pattern.as_str(), i.to_string().as_str(), i);
    }

    tree
}

// Stack used between the shallowest and the deepest call of the closure given to retain
fn stack_used_by_retain(n: usize) -> usize {
    std::thread::Builder::new()
        .stack_size(1 << 30)
        .spawn(move || {
            let mut tree = chain(n);
            let low = Cell::new(usize::MAX);
            let high = Cell::new(0usize);

            tree.retain(&|_, _| {
                let marker = 0u8;
                let address = &marker as *const u8 as usize;

                low.set(low.get().min(address));
                high.set(high.get().max(address));

                true
            });

            assert_eq!(tree.len(), n);
            // do not run the (recursive as well) drop
            std::mem::forget(tree);

            high.get() - low.get()
        })
        .unwrap()
        .join()
        .unwrap()
}

#[test]
fn recursion_depth_grows_with_the_number_of_patterns() {
    let small = stack_used_by_retain(100);
    let large = stack_used_by_retain(800);

    println!("stack used by retain: {} bytes for 100 patterns, {} bytes for 800 patterns", small, large);

    // a linear scan needs the same stack whatever the number of patterns; allow a factor of two
    assert!(large <= 2 * small + 4096, "{} bytes for 100 patterns, {} bytes for 800 patterns", small, large);
}

#[test]
fn zz_a_chain_of_2000_patterns_overflows_the_stack() {
    // 2 MiB is the default stack size of a Rust thread; the overflow aborts the whole test process (SIGABRT)
    let found = std::thread::Builder::new()
        .stack_size(2 * 1024 * 1024)
        .spawn(|| {
            let tree = chain(2000);
            let found = tree.find("/12/aaa").len();

            std::mem::forget(tree);

            found
        })
        .unwrap()
        .join()
        .unwrap();

    assert_eq!(found, 1);
}

#[test]
fn empty_pattern_matches_only_the_empty_string() {
    let mut tree = RegexTreeMap::<String>::new(false);
    tree.insert("", "1", "empty".to_string());

    assert_eq!(tree.find("").len(), 1);

    // `^$` does not match "/x", and the tree agrees once the leaf is compiled ...
    let mut cached = tree.clone();
    cached.cache(10, None);
    assert!(cached.find("/x").is_empty());

    // ... but not before
    assert!(tree.find("/x").is_empty(), "find(\"/x\") = {:?}", tree.find("/x"));
}
