//! Glue for the cargo-fuzz targets: structured cases from fuzzer bytes, failure reporting.
use proptest::strategy::{Strategy, ValueTree};
use proptest::test_runner::{RngAlgorithm, TestRng, TestRunner};
use serde::Serialize;

/// Decode the fuzzer's bytes into a structured case by feeding them to the strategy as its random stream.
pub fn from_bytes<S: Strategy>(strategy: &S, data: &[u8]) -> Option<S::Value> {
    if data.is_empty() {
        return None;
    }
    let rng = TestRng::from_seed(RngAlgorithm::PassThrough, data);
    let mut runner = TestRunner::new_with_rng(crate::engine::runner_config(1), rng);
    strategy.new_tree(&mut runner).ok().map(|t| t.current())
}

/// Write the replay file and abort (libFuzzer then saves the input as a crash artifact).
pub fn report<C: Serialize>(prop: &str, part: &str, case: &C, message: &str) -> ! {
    let v = crate::engine::Violation { part: part.to_string(), message: message.to_string(), case: serde_json::to_value(case).unwrap_or(serde_json::Value::Null) };
    let path = crate::engine::write_replay(prop, &v);
    eprintln!("VIOLATION property={prop} replay={path}");
    eprintln!("{message}");
    std::process::abort();
}
