#![no_main]
//! C18 under AddressSanitizer: the FFI interpreter run in-process (use-after-free, double free, overflow are
//! reported by the sanitizer; value-contract violations by the interpreter).
use libfuzzer_sys::fuzz_target;
use rio_verif::fuzzsupport::{from_bytes, report};
use rio_verif::props::c18;

fuzz_target!(|data: &[u8]| {
    if let Some(case) = from_bytes(&c18::strategy(true), data) {
        if let Err(m) = c18::run_sequence(&case) {
            report("C18", "sequences", &case, &m);
        }
    }
});
