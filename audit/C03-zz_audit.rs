#![allow(dead_code)]
use redirectionio::api::{BodyFilter, HTMLBodyFilter, TextAction, TextBodyFilter};
use redirectionio::filter::FilterBodyAction;
use redirectionio::http::Header;

fn html(action: &str, tree: &[&str], css: Option<&str>, value: &str) -> BodyFilter {
    BodyFilter::HTML(HTMLBodyFilter {
        action: action.to_string(),
        element_tree: tree.iter().map(|s| s.to_string()).collect(),
        css_selector: css.map(|s| s.to_string()),
        value: value.to_string(),
        inner_value: None,
        id: Some("id".to_string()),
        target_hash: Some("th".to_string()),
    })
}

fn text(action: TextAction, content: &str) -> BodyFilter {
    BodyFilter::Text(TextBodyFilter {
        action,
        content: content.to_string(),
        id: Some("tid".to_string()),
        target_hash: None,
    })
}

fn hdr(name: &str, value: &str) -> Header {
    Header {
        name: name.to_string(),
        value: value.to_string(),
    }
}

fn run(filters: &[BodyFilter], headers: &[Header], chunks: &[&[u8]]) -> Vec<u8> {
    let mut f = FilterBodyAction::new(filters.to_vec(), headers);
    let mut out = Vec::new();
    for c in chunks {
        out.extend(f.filter(c.to_vec(), None));
    }
    out.extend(f.end(None));
    out
}

fn s(v: &[u8]) -> String {
    String::from_utf8_lossy(v).to_string()
}

/// all 1-cut and bytewise chunkings; returns list of (description, output) that differ from single
fn diff_chunkings(filters: &[BodyFilter], headers: &[Header], body: &[u8]) -> Vec<(String, String)> {
    let single = run(filters, headers, &[body]);
    let mut res = Vec::new();
    for i in 0..=body.len() {
        let out = run(filters, headers, &[&body[..i], &body[i..]]);
        if out != single {
            res.push((format!("cut@{} {:?}|{:?}", i, s(&body[..i]), s(&body[i..])), s(&out)));
        }
    }
    let chunks: Vec<&[u8]> = body.chunks(1).collect();
    let out = run(filters, headers, &chunks);
    if out != single {
        res.push(("bytewise".to_string(), s(&out)));
    }
    // with empty chunks interleaved
    let mut chunks2: Vec<&[u8]> = Vec::new();
    for c in body.chunks(3) {
        chunks2.push(&[]);
        chunks2.push(c);
        chunks2.push(&[]);
    }
    let out = run(filters, headers, &chunks2);
    if out != single {
        res.push(("3-stride with empties".to_string(), s(&out)));
    }
    res
}

fn report(name: &str, filters: &[BodyFilter], headers: &[Header], body: &str) -> usize {
    let single = run(filters, headers, &[body.as_bytes()]);
    let d = diff_chunkings(filters, headers, body.as_bytes());
    if !d.is_empty() {
        println!("=== {} : body {:?}\n    single -> {:?}", name, body, s(&single));
        for (desc, out) in d.iter().take(6) {
            println!("    {} -> {:?}", desc, out);
        }
        println!("    ({} differing chunkings)", d.len());
    } else {
        println!("--- {} ok ({:?})", name, s(&single));
    }
    d.len()
}

#[test]
fn probe_basic() {
    let f = vec![html("append_child", &["html", "body"], None, "<p>X</p>")];
    report("append plain", &f, &[], "<html><head></head><body class=\"a > b\"><div>Yolo</div></body></html>");
    let f = vec![html("prepend_child", &["html", "body"], None, "<p>X</p>")];
    report("prepend plain", &f, &[], "<html><head></head><body class=\"a > b\"><div>Yolo é€😀</div></body></html>");
    let f = vec![html("replace", &["html", "head", "title"], None, "<title>N</title>")];
    report("replace title", &f, &[], "<html><head><title>Old é</title></head><body></body></html>");
    let f = vec![html("replace", &["html", "head", "meta"], Some("meta[name=\"description\"]"), "<meta name=\"description\" content=\"N\">")];
    report(
        "replace meta",
        &f,
        &[],
        "<html><head><meta charset=utf-8><meta name=\"description\" content=\"o\"/></head><body></body></html>",
    );
    report("doctype", &f, &[], "<!DOCTYPE html><html><head><meta name=description content=o></head></html>");
}

struct Rng(u64);
impl Rng {
    fn next(&mut self) -> u64 {
        self.0 ^= self.0 << 13;
        self.0 ^= self.0 >> 7;
        self.0 ^= self.0 << 17;
        self.0
    }
    fn below(&mut self, n: usize) -> usize {
        (self.next() % n as u64) as usize
    }
}

fn filter_sets() -> Vec<(&'static str, Vec<BodyFilter>)> {
    vec![
        ("append body", vec![html("append_child", &["html", "body"], None, "<p>X</p>")]),
        ("append body css", vec![html("append_child", &["html", "body"], Some("p.x"), "<p class=x>X</p>")]),
        ("prepend body", vec![html("prepend_child", &["html", "body"], None, "<p>X</p>")]),
        ("prepend body css", vec![html("prepend_child", &["html", "body"], Some("p.x"), "<p class=x>X</p>")]),
        ("replace title", vec![html("replace", &["html", "head", "title"], None, "<title>N</title>")]),
        ("replace meta css", vec![html("replace", &["html", "head", "meta"], Some("meta[name=d]"), "<meta name=d content=N>")]),
        ("replace div", vec![html("replace", &["div"], None, "<div>R</div>")]),
        ("append div p", vec![html("append_child", &["html", "body", "div", "p"], None, "<b>A</b>")]),
        (
            "chain",
            vec![
                html("append_child", &["html", "head"], Some("meta[name=d]"), "<meta name=d content=N>"),
                html("replace", &["html", "head", "meta"], Some("meta[name=d]"), "<meta name=d content=N>"),
                html("prepend_child", &["html", "body"], None, "<i>P</i>"),
            ],
        ),
        (
            "text+html",
            vec![
                text(TextAction::Prepend, "<html><!--pre-->"),
                html("append_child", &["html", "body"], None, "<p>X</p>"),
                text(TextAction::Append, "<!--post-->"),
            ],
        ),
    ]
}

fn fuzz(frags: &[&str], seed: u64, iters: usize, maxlen: usize) -> usize {
    let sets = filter_sets();
    let mut rng = Rng(seed);
    let mut found = 0;
    for _ in 0..iters {
        let n = 1 + rng.below(maxlen);
        let mut body = String::new();
        for _ in 0..n {
            body.push_str(frags[rng.below(frags.len())]);
        }
        if has_bogus(&body) {
            // `</` + non-letter, `<!`, `<?`: comment tokens, known root cause
            continue;
        }
        for (name, set) in &sets {
            let d = diff_chunkings(set, &[], body.as_bytes());
            if !d.is_empty() {
                found += 1;
                if found <= 15 {
                    let single = run(set, &[], &[body.as_bytes()]);
                    println!("=== {} : body {:?}\n    single -> {:?}", name, body, s(&single));
                    for (desc, out) in d.iter().take(3) {
                        println!("    {} -> {:?}", desc, out);
                    }
                }
                break;
            }
        }
    }
    println!("fuzz found {} differing bodies", found);
    found
}

const SAFE: &[&str] = &[
    "<html>", "<head>", "</head>", "<body>", "</body>", "</html>", "<div>", "</div>", "<p>", "</p>", "<p class=x>", "<meta name=d>",
    "<meta name=\"d\" content=\"a>b\"/>", "<meta charset=utf-8>", "<br/>", "<br>", "<img src=a/>", "text", " < ", "a<b", "<<", "é", "😀",
    "&amp;", "<a href=/x/>", "<a title='a>b'>", "</a>", "<", ">", "/", "=", "\"", "'", " ", "\n", "<DIV>", "</DIV>", "<Body>", "</BODY >",
    "<div", "</div", "<p/>", "<div/>", "</p attr>", "<1>", "< p>", "</>", "<body class=\"", "<input disabled>",
];

#[test]
fn fuzz_safe() {
    let n = fuzz(SAFE, 0x1234_5678_9abc_def1, 4000, 14);
    assert_eq!(n, 0);
}

use redirectionio::html::{TokenType, Tokenizer};

/// regions (start,end,incl_start) of the single-pass tokenisation which fall under the KNOWN issue:
/// comment / CDATA / raw text tokens whose content contains '<'
fn known_regions(body: &[u8]) -> Vec<(usize, usize, bool)> {
    let mut t = Tokenizer::new(body.to_vec());
    let mut pos = 0usize;
    let mut res = Vec::new();
    let mut raw_next = false;
    loop {
        let tt = t.next().unwrap();
        if tt == TokenType::ErrorToken {
            break;
        }
        let raw = t.raw();
        let start = pos;
        let end = pos + raw.len();
        pos = end;
        match tt {
            TokenType::CommentToken | TokenType::DoctypeToken => {
                if raw[1..].contains(&b'<') {
                    res.push((start, end + if end == body.len() { 1 } else { 0 }, false));
                }
                raw_next = false;
            }
            TokenType::TextToken => {
                if raw_next || raw.starts_with(b"<![CDATA[") {
                    if raw.contains(&b'<') {
                        res.push((start, end + 14, true));
                    }
                }
                raw_next = false;
            }
            TokenType::StartTagToken | TokenType::SelfClosingTagToken => {
                let (name, _) = t.tag_name().unwrap();
                let name = name.unwrap_or_default();
                raw_next = matches!(
                    name.as_str(),
                    "iframe" | "noembed" | "noframes" | "noscript" | "plaintext" | "script" | "style" | "title" | "textarea" | "xmp"
                );
            }
            _ => {
                raw_next = false;
            }
        }
    }
    res
}

fn diff_chunkings_unknown(filters: &[BodyFilter], headers: &[Header], body: &[u8]) -> Vec<(String, String)> {
    let regions = known_regions(body);
    let single = run(filters, headers, &[body]);
    let mut res = Vec::new();
    for i in 0..=body.len() {
        if regions.iter().any(|(st, en, incl)| (*st < i || (*incl && *st == i)) && i < *en) {
            continue;
        }
        let out = run(filters, headers, &[&body[..i], &body[i..]]);
        if out != single {
            res.push((format!("cut@{} {:?}|{:?}", i, s(&body[..i]), s(&body[i..])), s(&out)));
        }
    }
    if regions.is_empty() {
        let chunks: Vec<&[u8]> = body.chunks(1).collect();
        let out = run(filters, headers, &chunks);
        if out != single {
            res.push(("bytewise".to_string(), s(&out)));
        }
    }
    res
}

fn fuzz2(frags: &[&str], seed: u64, iters: usize, maxlen: usize) -> usize {
    let sets = filter_sets();
    let mut rng = Rng(seed);
    let mut found = 0;
    for _ in 0..iters {
        let n = 1 + rng.below(maxlen);
        let mut body = String::new();
        for _ in 0..n {
            body.push_str(frags[rng.below(frags.len())]);
        }
        for (name, set) in &sets {
            let d = diff_chunkings_unknown(set, &[], body.as_bytes());
            if !d.is_empty() {
                found += 1;
                if found <= 15 {
                    let single = run(set, &[], &[body.as_bytes()]);
                    println!("=== {} : body {:?}\n    single -> {:?}", name, body, s(&single));
                    for (desc, out) in d.iter().take(3) {
                        println!("    {} -> {:?}", desc, out);
                    }
                }
                break;
            }
        }
    }
    println!("fuzz2 found {} differing bodies", found);
    found
}

const RAWISH: &[&str] = &[
    "<html>", "<head>", "</head>", "<body>", "</body>", "</html>", "<div>", "</div>", "<p>", "</p>", "<meta name=d>", "text", " < ", "é",
    "<title>", "</title>", "Title é", "<script>", "</script>", "var a=1>2;", "<style>", "</style>", "p > a {}", "<textarea>", "</textarea>",
    "<!--", " c ", "-->", "<!DOCTYPE html>", "<!doctype html", "<![CDATA[", "]]>", "<?xml ?>", "<noscript>", "</noscript>", "<iframe>", "</iframe>",
    "<", ">", "!", "-", "--", "<!", "<?", "</", "</ ", "<script src=a/>", "<title/>", "<SCRIPT>", "</SCRIPT >", "</scr", "</script", "<plaintext>",
    "<!---->", "<!-->", "--!>", "]", "]]", "<svg>", "</svg>", "<xmp>", "</xmp>", "<!--<script>-->", "</title ", "\n", " ",
];

#[test]
fn fuzz_rawish() {
    // what is still reported here are raw-text end tags longer than the 14-byte margin of known_regions()
    let n = fuzz2(RAWISH, 0x9e37_79b9_7f4a_7c15, 20000, 10);
    assert!(n <= 1);
}

fn big_script_body(n: usize, inner: &str) -> String {
    let mut b = String::from("<html><head><script>");
    while b.len() < n {
        b.push_str(inner);
    }
    b.push_str("</script></head><body><div>x</div></body></html>");
    b
}

#[test]
fn stack_script_plain() {
    // run on a thread with the default 2 MiB stack of spawned threads (what nginx / apache worker threads typically have or less)
    for n in [10_000usize, 30_000, 100_000, 300_000, 1_000_000, 4_000_000] {
        let body = big_script_body(n, "var a = 1;\n");
        let f = vec![html("append_child", &["html", "body"], None, "<p>X</p>")];
        let h = std::thread::Builder::new()
            .stack_size(2 * 1024 * 1024)
            .spawn(move || {
                let out = run(&f, &[], &[body.as_bytes()]);
                out.len()
            })
            .unwrap();
        println!("n={} -> out len {:?}", n, h.join().map_err(|_| "panic"));
    }
}

#[test]
fn stack_script_escaped() {
    for n in [10_000usize, 30_000, 100_000, 300_000, 1_000_000, 4_000_000] {
        let body = big_script_body(n, "<!-- var a = '<script>'; -x- \n");
        let f = vec![html("append_child", &["html", "body"], None, "<p>X</p>")];
        let h = std::thread::Builder::new()
            .stack_size(2 * 1024 * 1024)
            .spawn(move || {
                let out = run(&f, &[], &[body.as_bytes()]);
                out.len()
            })
            .unwrap();
        println!("n={} -> out len {:?}", n, h.join().map_err(|_| "panic"));
    }
}

use std::io::{Read, Write};

fn compress(enc: &str, data: &[u8]) -> Vec<u8> {
    match enc {
        "gzip" => {
            let mut e = flate2::write::GzEncoder::new(Vec::new(), flate2::Compression::default());
            e.write_all(data).unwrap();
            e.finish().unwrap()
        }
        "deflate" => {
            let mut e = flate2::write::ZlibEncoder::new(Vec::new(), flate2::Compression::default());
            e.write_all(data).unwrap();
            e.finish().unwrap()
        }
        "br" => {
            let mut out = Vec::new();
            let mut r = brotli::CompressorReader::new(data, 4096, 5, 22);
            r.read_to_end(&mut out).unwrap();
            out
        }
        _ => unreachable!(),
    }
}

fn decompress(enc: &str, data: &[u8]) -> Result<Vec<u8>, String> {
    let mut out = Vec::new();
    match enc {
        "gzip" => {
            flate2::read::GzDecoder::new(data).read_to_end(&mut out).map_err(|e| e.to_string())?;
        }
        "deflate" => {
            flate2::read::ZlibDecoder::new(data).read_to_end(&mut out).map_err(|e| e.to_string())?;
        }
        "br" => {
            brotli::Decompressor::new(data, 4096).read_to_end(&mut out).map_err(|e| e.to_string())?;
        }
        _ => unreachable!(),
    }
    Ok(out)
}

#[test]
fn encodings_chunking() {
    let body = "<!DOCTYPE html><html><head><title>Ti é</title><meta name=d content=o></head><body class=\"a\"><div>Yolo é€😀 lorem ipsum lorem ipsum lorem ipsum</div><p>a &lt; b</p></body></html>";
    let filters = vec![
        html("replace", &["html", "head", "meta"], Some("meta[name=d]"), "<meta name=d content=N>"),
        html("append_child", &["html", "body"], None, "<p>X</p>"),
        text(TextAction::Append, "<!--post-->"),
    ];
    let plain = run(&filters, &[hdr("Content-Type", "text/html")], &[body.as_bytes()]);
    println!("plain: {}", s(&plain));
    for enc in ["gzip", "deflate", "br"] {
        let headers = vec![hdr("Content-Type", "text/html; charset=utf-8"), hdr("Content-Encoding", enc)];
        let comp = compress(enc, body.as_bytes());
        let single = run(&filters, &headers, &[&comp]);
        let single_dec = decompress(enc, &single);
        assert_eq!(single_dec.as_ref().map(|v| s(v)), Ok(s(&plain)), "{} single", enc);
        let mut raw_diff = 0;
        let mut dec_diff = 0;
        for i in 0..=comp.len() {
            let out = run(&filters, &headers, &[&comp[..i], &comp[i..]]);
            if out != single {
                raw_diff += 1;
            }
            let dec = decompress(enc, &out);
            if dec.as_ref().map(|v| s(v)) != Ok(s(&plain)) {
                dec_diff += 1;
                if dec_diff < 4 {
                    println!("{} cut@{} decoded differs: {:?}", enc, i, dec.map(|v| s(&v)));
                }
            }
        }
        let chunks: Vec<&[u8]> = comp.chunks(1).collect();
        let out = run(&filters, &headers, &chunks);
        let dec = decompress(enc, &out);
        println!(
            "{}: comp len {}, single out len {}, bytewise out len {}, bytewise decoded ok: {}, 1-cut raw diffs {}/{}, decoded diffs {}",
            enc,
            comp.len(),
            single.len(),
            out.len(),
            dec.as_ref().map(|v| s(v)) == Ok(s(&plain)),
            raw_diff,
            comp.len() + 1,
            dec_diff
        );
    }
}

#[test]
fn misdeclared_encoding() {
    let body = "<html><head></head><body><div>Yolo</div></body></html>";
    let filters = vec![html("append_child", &["html", "body"], None, "<p>X</p>")];
    for enc in ["gzip", "deflate", "br"] {
        let headers = vec![hdr("Content-Type", "text/html"), hdr("Content-Encoding", enc)];
        for b in [body.to_string(), format!("x^{}", body), format!("x\u{1}{}", body)] {
            let single = run(&filters, &headers, &[b.as_bytes()]);
            let chunks: Vec<&[u8]> = b.as_bytes().chunks(1).collect();
            let bw = run(&filters, &headers, &chunks);
            let chunks: Vec<&[u8]> = b.as_bytes().chunks(7).collect();
            let s7 = run(&filters, &headers, &chunks);
            println!("{} body {:?}\n   single  -> {:?}\n   bytewise-> {:?}\n   7-stride-> {:?}", enc, b, s(&single), s(&bw), s(&s7));
        }
    }
}

fn has_bogus(body: &str) -> bool {
    let b = body.as_bytes();
    for i in 0..b.len() {
        if b[i] == b'<' && i + 1 < b.len() {
            let c = b[i + 1];
            if c == b'/' {
                if i + 2 < b.len() && !(b[i + 2].is_ascii_alphabetic() || b[i + 2] == b'>') {
                    return true;
                }
            }
            if c == b'!' || c == b'?' {
                return true;
            }
        }
    }
    false
}

#[test]
fn fuzz_multicut_safe() {
    let sets = filter_sets();
    let mut rng = Rng(0xdead_beef_cafe_f00d);
    let mut found = 0;
    let mut tried = 0;
    for _ in 0..6000 {
        let n = 1 + rng.below(25);
        let mut body = String::new();
        for _ in 0..n {
            body.push_str(SAFE[rng.below(SAFE.len())]);
        }
        if has_bogus(&body) {
            continue;
        }
        tried += 1;
        let b = body.as_bytes();
        let (name, set) = &sets[rng.below(sets.len())];
        let single = run(set, &[], &[b]);
        for _ in 0..8 {
            // random partition with occasional empty chunks
            let mut chunks: Vec<&[u8]> = Vec::new();
            let mut pos = 0;
            while pos < b.len() {
                let l = match rng.below(6) {
                    0 => 0,
                    1 => 1,
                    2 => 2,
                    _ => 1 + rng.below(12),
                };
                let e = (pos + l).min(b.len());
                chunks.push(&b[pos..e]);
                pos = e;
            }
            if rng.below(2) == 0 {
                chunks.push(&[]);
            }
            let out = run(set, &[], &chunks);
            if out != single {
                found += 1;
                if found < 10 {
                    println!(
                        "=== {} body {:?}\n   chunks {:?}\n   single {:?}\n   chunked {:?}",
                        name,
                        body,
                        chunks.iter().map(|c| s(c)).collect::<Vec<_>>(),
                        s(&single),
                        s(&out)
                    );
                }
                break;
            }
        }
    }
    println!("multicut: tried {} found {}", tried, found);
    assert_eq!(found, 0);
}

#[test]
fn empty_body_with_encoding() {
    let filters = vec![html("append_child", &["html", "body"], None, "<p>X</p>")];
    for enc in ["gzip", "deflate", "br"] {
        let headers = vec![hdr("Content-Type", "text/html"), hdr("Content-Encoding", enc)];
        let a = run(&filters, &headers, &[]);
        let b = run(&filters, &headers, &[b""]);
        let c = run(&filters, &headers, &[b"", b""]);
        println!("{}: no chunk -> {:?}; one empty -> {:?}; two empty -> {:?}", enc, a, b, c);
        let short = run(&filters, &headers, &[b"OK"]);
        println!("{}: body 'OK' -> {:?}", enc, s(&short));
    }
}

#[test]
fn gzip_multi_member() {
    let part1 = "<html><head></head><body><div>Yolo</div>";
    let part2 = "<p>more</p></body></html>";
    let filters = vec![html("append_child", &["html", "body"], None, "<p>X</p>")];
    let headers = vec![hdr("Content-Type", "text/html"), hdr("Content-Encoding", "gzip")];
    let mut comp = compress("gzip", part1.as_bytes());
    comp.extend(compress("gzip", part2.as_bytes()));
    let single = run(&filters, &headers, &[&comp]);
    println!("single decoded: {:?}", decompress("gzip", &single).map(|v| s(&v)));
    let mut diffs = 0;
    for i in 0..=comp.len() {
        let out = run(&filters, &headers, &[&comp[..i], &comp[i..]]);
        let d = decompress("gzip", &out).map(|v| s(&v));
        if d != decompress("gzip", &single).map(|v| s(&v)) {
            diffs += 1;
            if diffs < 4 || i % 10 == 0 {
                println!("cut@{} (of {}, member1 len {}) out len {} decoded: {:?}", i, comp.len(), compress("gzip", part1.as_bytes()).len(), out.len(), d);
            }
        }
    }
    println!("multi-member diffs: {} single out len {}", diffs, single.len());
}

// ---------------------------------------------------------------------------------------------
// FINDING 1: bytes swallowed by the Decode stage before it fails are never given back
// ---------------------------------------------------------------------------------------------
#[test]
fn finding1_misdeclared_encoding_loses_prefix() {
    let body = "<html><head></head><body><div>Yolo</div></body></html>";
    let filters = vec![html("append_child", &["html", "body"], None, "<p>X</p>")];
    let mut failures = Vec::new();
    for (enc, b) in [
        ("gzip", body.to_string()),
        ("deflate", format!("x^{}", body)), // "x^" (0x78 0x5e) is a well-formed zlib header
        ("br", format!("x^{}", body)),
    ] {
        let headers = vec![hdr("Content-Type", "text/html"), hdr("Content-Encoding", enc)];
        let single = run(&filters, &headers, &[b.as_bytes()]);
        let two = run(&filters, &headers, &[&b.as_bytes()[..4], &b.as_bytes()[4..]]);
        let chunks: Vec<&[u8]> = b.as_bytes().chunks(1).collect();
        let bytewise = run(&filters, &headers, &chunks);
        println!("{}: single {:?}\n    4+rest {:?}\n    bytewise {:?}", enc, s(&single), s(&two), s(&bytewise));
        if single != two || single != bytewise {
            failures.push(enc);
        }
    }
    assert!(failures.is_empty(), "chunking changed the output for {:?}", failures);
}

#[test]
fn finding1_multi_member_gzip() {
    // a legal gzip body made of two members (RFC 1952 2.2); flate2's write::GzDecoder stops after the first one
    let part1 = "<html><head></head><body><div>Yolo</div>";
    let part2 = "<p>more</p></body></html>";
    let filters = vec![html("append_child", &["html", "body"], None, "<p>X</p>")];
    let headers = vec![hdr("Content-Type", "text/html"), hdr("Content-Encoding", "gzip")];
    let mut comp = compress("gzip", part1.as_bytes());
    comp.extend(compress("gzip", part2.as_bytes()));
    let single = run(&filters, &headers, &[&comp]);
    assert_eq!(single, comp, "single chunk: the filter gives up and passes the body through untouched");
    let out = run(&filters, &headers, &[&comp[..20], &comp[20..]]);
    let mut dec = Vec::new();
    let r = flate2::read::MultiGzDecoder::new(out.as_slice()).read_to_end(&mut dec);
    println!("cut@20: out len {} (input {}), decodes: {:?} {:?}", out.len(), comp.len(), r.map_err(|e| e.to_string()), s(&dec));
    assert_eq!(out, single);
}

// ---------------------------------------------------------------------------------------------
// FINDING 2: one stack frame per byte of inline script in unoptimised builds
// ---------------------------------------------------------------------------------------------
#[test]
#[ignore] // aborts the test process (SIGABRT, stack overflow) in the debug profile: run it alone
fn finding2_big_inline_script_single_chunk() {
    let body = big_script_body(200_000, "var a = 1;\n");
    let f = vec![html("append_child", &["html", "body"], None, "<p>X</p>")];
    let h = std::thread::Builder::new()
        .stack_size(2 * 1024 * 1024)
        .spawn(move || {
            let chunks: Vec<&[u8]> = body.as_bytes().chunks(4096).collect();
            let chunked = run(&f, &[], &chunks);
            println!("4096-byte chunks: ok, {} bytes out", chunked.len());
            let single = run(&f, &[], &[body.as_bytes()]);
            println!("single chunk: ok, {} bytes out", single.len());
            assert_eq!(single, chunked);
        })
        .unwrap();
    h.join().unwrap();
}

// ---------------------------------------------------------------------------------------------
// BORDERLINE
// ---------------------------------------------------------------------------------------------
#[test]
fn borderline_known_root_cause_variants() {
    let f = vec![html("append_child", &["html", "body"], None, "<p>X</p>")];
    let cases: Vec<(&str, Vec<&str>)> = vec![
        ("cut inside the END TAG of a raw-text element", vec!["<html><body><script>var t = \"</body>\";</scr", "ipt><p>z</p></body></html>"]),
        ("cut exactly between raw text and its end tag", vec!["<html><body><script>var t = \"</body>\";", "</script><p>z</p></body></html>"]),
        ("unterminated raw text + trailing EMPTY chunk", vec!["<html><body><p>z</p><script>var t = \"</body>\";", ""]),
        ("bogus comment '<?'", vec!["<html><body><?php echo \"", "</body>\"; ?><p>z</p></body></html>"]),
        ("bogus comment '</ '", vec!["<html><body>a </ b ", "</body> c><p>z</p></body></html>"]),
        ("doctype containing markup", vec!["<!DOCTYPE html [ ", "<html><body></body></html> ]><html><body><p>z</p></body></html>"]),
    ];
    for (name, chunks) in cases {
        let whole: String = chunks.concat();
        let single = run(&f, &[], &[whole.as_bytes()]);
        let cs: Vec<&[u8]> = chunks.iter().map(|c| c.as_bytes()).collect();
        let out = run(&f, &[], &cs);
        println!("{}\n   chunks  {:?}\n   single  {:?}\n   chunked {:?}\n   {}", name, chunks, s(&single), s(&out), if single == out { "same" } else { "DIFFERENT" });
    }
}

#[test]
fn text_filter_combos() {
    let mk = |k: usize| match k {
        0 => text(TextAction::Append, "<i>A</i>"),
        1 => text(TextAction::Prepend, "<b>P</b>"),
        2 => text(TextAction::Replace, "<html><body>R</body></html>"),
        3 => html("append_child", &["html", "body"], None, "<p>X</p>"),
        _ => html("replace", &["html", "body"], Some("b"), "<body>RB</body>"),
    };
    let bodies = ["", "ab", "<html><body></body></html>", "<html><body><b>q</b></body></html>", "<html><body", "é"];
    let mut bad = 0;
    for a in 0..5 {
        for b in 0..5 {
            for c in 0..6 {
                let mut filters = vec![mk(a), mk(b)];
                if c < 5 {
                    filters.push(mk(c));
                }
                for body in bodies {
                    let bb = body.as_bytes();
                    let single = run(&filters, &[], &[bb]);
                    let mut variants: Vec<Vec<&[u8]>> = vec![bb.chunks(1).collect(), vec![b"", bb], vec![bb, b""], vec![b"", b"", bb, b"", b""]];
                    let mut v: Vec<&[u8]> = Vec::new();
                    for ch in bb.chunks(1) {
                        v.push(b"");
                        v.push(ch);
                    }
                    variants.push(v);
                    for i in 0..=bb.len() {
                        variants.push(vec![&bb[..i], &bb[i..]]);
                    }
                    for var in variants {
                        let out = run(&filters, &[], &var);
                        if out != single {
                            bad += 1;
                            if bad < 10 {
                                println!(
                                    "filters {} {} {} body {:?} chunks {:?}\n   single {:?}\n   chunked {:?}",
                                    a,
                                    b,
                                    c,
                                    body,
                                    var.iter().map(|x| s(x)).collect::<Vec<_>>(),
                                    s(&single),
                                    s(&out)
                                );
                            }
                        }
                    }
                }
            }
        }
    }
    assert_eq!(bad, 0);
}
