//! C18 — the C interface keeps ownership and memory contracts.
//!
//! The harness plays the C caller. Sequences are executed in a child process (`rio-probe`) whose global allocator audits
//! every deallocation against the layout of the allocation and counts live allocations.
use crate::engine::*;
use crate::ffi::*;
use crate::props::c05;
use crate::spec::*;
use proptest::prelude::*;
use redirectionio::action::Action;
use redirectionio::filter::FilterBodyAction;
use redirectionio::http::{Header, Request};
use serde::{Deserialize, Serialize};
use serde_json::Value;
use std::collections::BTreeMap;
use std::ffi::CString;
use std::io::{BufRead, BufReader, Write};
use std::process::{Child, ChildStdin, ChildStdout, Command, Stdio};
use std::ptr::{null, null_mut};

#[derive(Serialize, Deserialize, Clone, Debug, PartialEq)]
pub enum BufKind {
    Empty,
    /// n bytes of markup
    Html(u32),
    /// n arbitrary bytes derived from a seed
    Bytes(u32, u8),
}

#[derive(Serialize, Deserialize, Clone, Debug, PartialEq)]
pub enum FOp {
    ReqCreate { slot: u8, uri: Option<String>, host: Option<String>, scheme: Option<String>, method: Option<String>, headers: Option<Vec<(String, String)>> },
    ReqFromStr { slot: u8, url: Option<String> },
    ReqFromJson { slot: u8, json: Option<String> },
    ReqSetAddr { slot: u8, addr: Option<String>, trusted: bool },
    ReqSerialize { slot: u8 },
    ReqDrop { slot: u8 },
    ActFromJson { slot: u8, json: Option<String> },
    ActSerialize { slot: u8 },
    ActStatus { slot: u8, code: u16 },
    ActFilterHeaders { slot: u8, headers: Option<Vec<(String, String)>>, code: u16, add_ids: bool },
    ActShouldLog { slot: u8, allow: bool, code: u16 },
    ActDrop { slot: u8 },
    BfCreate { slot: u8, act: u8, code: u16, headers: Option<Vec<(String, String)>> },
    BfFilter { slot: u8, buf: BufKind },
    BfClose { slot: u8 },
    BfDrop { slot: u8 },
    BufDrop { buf: BufKind },
    Log { req: u8, act: u8, code: u16, headers: Option<Vec<(String, String)>>, proxy: Option<String>, ip: Option<String> },
    Version,
    /// no drop function exists for these: sequences containing them are not leak-audited
    TpCreate { s: Option<String> },
    TpAdd { s: Option<String> },
}

#[derive(Serialize, Deserialize, Clone, Debug, PartialEq)]
pub struct Case {
    pub ops: Vec<FOp>,
}

pub fn buf_bytes(k: &BufKind) -> Vec<u8> {
    match k {
        BufKind::Empty => Vec::new(),
        BufKind::Html(n) => {
            let unit = b"<html><head><title>t</title></head><body><div class=\"a\">x</div><p>y \xc3\xa9</p></body></html>\n";
            unit.iter().cycle().take(*n as usize).copied().collect()
        }
        BufKind::Bytes(n, seed) => {
            let mut sm = Sm(*seed as u64 + 1);
            (0..*n).map(|_| (sm.next() % 251) as u8).collect()
        }
    }
}

fn cstr(s: &Option<String>) -> Option<CString> {
    s.as_ref().map(|s| CString::new(s.replace('\0', "")).unwrap())
}
fn cptr(c: &Option<CString>) -> *const std::ffi::c_char {
    c.as_ref().map(|c| c.as_ptr()).unwrap_or(null())
}

const NSLOT: usize = 2;

/// State of the C caller plus native twins used as the value oracle.
pub struct World {
    req: [*mut Request; NSLOT],
    act: [*mut Action; NSLOT],
    act_twin: [Option<Action>; NSLOT],
    bf: [*mut FilterBodyAction; NSLOT],
    bf_twin: [Option<FilterBodyAction>; NSLOT],
    tp: *const CTrustedProxies,
}

impl World {
    pub fn new() -> World {
        World { req: [null_mut(); NSLOT], act: [null_mut(); NSLOT], act_twin: [None, None], bf: [null_mut(); NSLOT], bf_twin: [None, None], tp: null() }
    }

    /// Release everything still alive, exactly once, through the matching drop function.
    pub unsafe fn cleanup(&mut self) {
        for i in 0..NSLOT {
            if !self.bf[i].is_null() {
                redirectionio_action_body_filter_drop(self.bf[i]);
                self.bf[i] = null_mut();
                self.bf_twin[i] = None;
            }
            if !self.act[i].is_null() {
                redirectionio_action_drop(self.act[i]);
                self.act[i] = null_mut();
                self.act_twin[i] = None;
            }
            if !self.req[i].is_null() {
                redirectionio_request_drop(self.req[i]);
                self.req[i] = null_mut();
            }
        }
    }
}

fn sorted(mut v: Vec<(String, String)>) -> Vec<(String, String)> {
    v.sort();
    v
}

/// Execute one operation. Err = a value-contract violation.
pub unsafe fn step(w: &mut World, op: &FOp) -> Result<(), String> {
    match op {
        FOp::ReqCreate { slot, uri, host, scheme, method, headers } => {
            let s = *slot as usize % NSLOT;
            if !w.req[s].is_null() {
                redirectionio_request_drop(w.req[s]);
            }
            let (cu, ch, cs, cm) = (cstr(uri), cstr(host), cstr(scheme), cstr(method));
            let hm = headers.as_ref().map(|h| OwnedHeaderMap::new(h));
            let p = redirectionio_request_create(cptr(&cu), cptr(&ch), cptr(&cs), cptr(&cm), hm.as_ref().map(|m| m.head()).unwrap_or(null()));
            if p.is_null() {
                return Err("redirectionio_request_create returned NULL".into());
            }
            w.req[s] = p as *mut Request;
            let r = &*p;
            if r.path_and_query.as_deref() != Some(uri.as_deref().unwrap_or("/")) || r.host != *host || r.scheme != *scheme || r.method != *method {
                return Err(format!("request_create: fields differ from the arguments: {:?}", r));
            }
            let got: Vec<(String, String)> = r.headers.iter().map(|h| (h.name.clone(), h.value.clone())).collect();
            let exp: Vec<(String, String)> = headers.clone().unwrap_or_default().into_iter().map(|(n, v)| (n.replace('\0', ""), v.replace('\0', ""))).collect();
            if sorted(got.clone()) != sorted(exp.clone()) {
                return Err(format!("request_create: headers {:?} instead of {:?}", got, exp));
            }
        }
        FOp::ReqFromStr { slot, url } => {
            let s = *slot as usize % NSLOT;
            if !w.req[s].is_null() {
                redirectionio_request_drop(w.req[s]);
                w.req[s] = null_mut();
            }
            let cu = cstr(url);
            let p = redirectionio_request_from_str(cptr(&cu));
            let native = url.as_deref().unwrap_or("/").parse::<Request>().ok();
            match (p.is_null(), native) {
                (true, None) => {}
                (false, Some(n)) => {
                    w.req[s] = p as *mut Request;
                    if (*p).path_and_query != n.path_and_query || (*p).host != n.host || (*p).scheme != n.scheme {
                        return Err("request_from_str differs from the native parse".into());
                    }
                }
                (a, b) => {
                    if !p.is_null() {
                        w.req[s] = p as *mut Request;
                    }
                    return Err(format!("request_from_str: NULL={a} but native parse is_some={}", b.is_some()));
                }
            }
        }
        FOp::ReqFromJson { slot, json } => {
            let s = *slot as usize % NSLOT;
            if !w.req[s].is_null() {
                redirectionio_request_drop(w.req[s]);
                w.req[s] = null_mut();
            }
            let cj = cstr(json);
            let p = redirectionio_request_json_deserialize(cptr(&cj) as *mut _);
            let native: Option<Request> = json.as_ref().and_then(|j| serde_json::from_str(j).ok());
            if p.is_null() != native.is_none() {
                if !p.is_null() {
                    w.req[s] = p as *mut Request;
                }
                return Err(format!("request_json_deserialize: NULL={} but serde accepts={}", p.is_null(), native.is_some()));
            }
            w.req[s] = p as *mut Request;
        }
        FOp::ReqSetAddr { slot, addr, trusted } => {
            let s = *slot as usize % NSLOT;
            let ca = cstr(addr);
            redirectionio_request_set_remote_addr(w.req[s], cptr(&ca), if *trusted { w.tp } else { null() });
        }
        FOp::ReqSerialize { slot } => {
            let s = *slot as usize % NSLOT;
            let got = take_string(redirectionio_request_json_serialize(w.req[s]));
            let exp = if w.req[s].is_null() { None } else { serde_json::to_string(&*w.req[s]).ok() };
            if got != exp {
                return Err(format!("request_json_serialize returned {:?}, serde gives {:?}", got, exp));
            }
        }
        FOp::ReqDrop { slot } => {
            let s = *slot as usize % NSLOT;
            redirectionio_request_drop(w.req[s]);
            w.req[s] = null_mut();
        }
        FOp::ActFromJson { slot, json } => {
            let s = *slot as usize % NSLOT;
            if !w.act[s].is_null() {
                redirectionio_action_drop(w.act[s]);
                w.act[s] = null_mut();
                w.act_twin[s] = None;
            }
            let cj = cstr(json);
            let p = redirectionio_action_json_deserialize(cptr(&cj) as *mut _);
            let native: Option<Action> = json.as_ref().and_then(|j| serde_json::from_str(j).ok());
            if p.is_null() != native.is_none() {
                if !p.is_null() {
                    w.act[s] = p as *mut Action;
                }
                return Err(format!("action_json_deserialize: NULL={} but serde accepts={}", p.is_null(), native.is_some()));
            }
            w.act[s] = p as *mut Action;
            w.act_twin[s] = native;
        }
        FOp::ActSerialize { slot } => {
            let s = *slot as usize % NSLOT;
            let got = take_string(redirectionio_action_json_serialize(w.act[s]));
            let exp = w.act_twin[s].as_ref().and_then(|a| serde_json::to_string(a).ok());
            if got != exp {
                return Err(format!("action_json_serialize returned {:?}, native twin serialises to {:?}", got, exp));
            }
        }
        FOp::ActStatus { slot, code } => {
            let s = *slot as usize % NSLOT;
            let got = redirectionio_action_get_status_code(w.act[s], *code);
            let exp = w.act_twin[s].as_mut().map(|a| a.get_status_code(*code, None)).unwrap_or(0);
            if got != exp {
                return Err(format!("action_get_status_code({code}) = {got}, native = {exp}"));
            }
        }
        FOp::ActFilterHeaders { slot, headers, code, add_ids } => {
            let s = *slot as usize % NSLOT;
            let hm = headers.as_ref().map(|h| OwnedHeaderMap::new(h));
            let head = hm.as_ref().map(|m| m.head()).unwrap_or(null());
            let ret = redirectionio_action_header_filter_filter(w.act[s], head, *code, *add_ids);
            // (U+E000 stands for a byte that is not UTF-8: both sides of the comparison read it lossily, as U+FFFD)
            let clean: Vec<(String, String)> = headers.clone().unwrap_or_default().into_iter().map(|(n, v)| (n.replace('\0', ""), v.replace('\0', "").replace('\u{e000}', "\u{fffd}"))).collect();
            if w.act[s].is_null() {
                // contract: the very same list comes back, still owned by the caller
                if ret != head {
                    return Err("header_filter_filter(NULL action) must return the list it was given".into());
                }
            } else {
                let got = take_header_map(ret);
                let input: Vec<Header> = clean.iter().map(|(n, v)| Header { name: n.clone(), value: v.clone() }).collect();
                // a string with an interior NUL cannot be handed over as a C string: NULL (read as "") stands for it
                let c_side = |s: String| if s.contains('\0') { String::new() } else { s };
                let exp: Vec<(String, String)> = w.act_twin[s].as_mut().unwrap().filter_headers(input, *code, *add_ids, None).into_iter().map(|h| (c_side(h.name), c_side(h.value))).collect();
                if sorted(got.clone()) != sorted(exp.clone()) {
                    return Err(format!("header_filter_filter: headers {:?}, native gives {:?} (as multisets)", got, exp));
                }
            }
        }
        FOp::ActShouldLog { slot, allow, code } => {
            let s = *slot as usize % NSLOT;
            let got = redirectionio_action_should_log_request(w.act[s], *allow, *code);
            let exp = w.act_twin[s].as_mut().map(|a| a.should_log_request(*allow, *code, None)).unwrap_or(*allow);
            if got != exp {
                return Err(format!("action_should_log_request = {got}, native = {exp}"));
            }
        }
        FOp::ActDrop { slot } => {
            let s = *slot as usize % NSLOT;
            redirectionio_action_drop(w.act[s]);
            w.act[s] = null_mut();
            w.act_twin[s] = None;
        }
        FOp::BfCreate { slot, act, code, headers } => {
            let s = *slot as usize % NSLOT;
            let a = *act as usize % NSLOT;
            if !w.bf[s].is_null() {
                redirectionio_action_body_filter_drop(w.bf[s]);
                w.bf[s] = null_mut();
                w.bf_twin[s] = None;
            }
            let hm = headers.as_ref().map(|h| OwnedHeaderMap::new(h));
            let p = redirectionio_action_body_filter_create(w.act[a], *code, hm.as_ref().map(|m| m.head()).unwrap_or(null()));
            let clean: Vec<Header> = headers.clone().unwrap_or_default().into_iter().map(|(n, v)| Header { name: n.replace('\0', ""), value: v.replace('\0', "") }).collect();
            let twin = w.act_twin[a].as_mut().and_then(|t| t.create_filter_body(*code, &clean));
            if p.is_null() != twin.is_none() {
                if !p.is_null() {
                    w.bf[s] = p as *mut FilterBodyAction;
                }
                return Err(format!("body_filter_create: NULL={} but native creates a filter={}", p.is_null(), twin.is_some()));
            }
            w.bf[s] = p as *mut FilterBodyAction;
            w.bf_twin[s] = twin;
        }
        FOp::BfFilter { slot, buf } => {
            let s = *slot as usize % NSLOT;
            let bytes = buf_bytes(buf);
            let input = c_buffer(&bytes);
            // ownership of `input` goes to the library only when a filter exists; with NULL it returns a duplicate
            let ret = redirectionio_action_body_filter_filter(w.bf[s], input);
            let got = read_buffer(&ret);
            let exp = match w.bf_twin[s].as_mut() {
                Some(t) => t.filter(bytes.clone(), None),
                None => bytes.clone(),
            };
            redirectionio_api_buffer_drop(ret);
            if w.bf[s].is_null() {
                // the caller still owns the input buffer
                redirectionio_api_buffer_drop(input);
            }
            if got != exp {
                return Err(format!("body_filter_filter: {} bytes returned, native gives {} bytes ({:?} vs {:?})", got.len(), exp.len(), String::from_utf8_lossy(&got[..got.len().min(60)]), String::from_utf8_lossy(&exp[..exp.len().min(60)])));
            }
        }
        FOp::BfClose { slot } => {
            let s = *slot as usize % NSLOT;
            let ret = redirectionio_action_body_filter_close(w.bf[s]);
            let got = read_buffer(&ret);
            redirectionio_api_buffer_drop(ret);
            let exp = w.bf_twin[s].as_mut().map(|t| t.end(None)).unwrap_or_default();
            w.bf[s] = null_mut(); // close releases the filter
            w.bf_twin[s] = None;
            if got != exp {
                return Err(format!("body_filter_close: {:?}, native end() gives {:?}", String::from_utf8_lossy(&got), String::from_utf8_lossy(&exp)));
            }
        }
        FOp::BfDrop { slot } => {
            let s = *slot as usize % NSLOT;
            redirectionio_action_body_filter_drop(w.bf[s]);
            w.bf[s] = null_mut();
            w.bf_twin[s] = None;
        }
        FOp::BufDrop { buf } => {
            redirectionio_api_buffer_drop(c_buffer(&buf_bytes(buf)));
        }
        FOp::Log { req, act, code, headers, proxy, ip } => {
            let r = *req as usize % NSLOT;
            let a = *act as usize % NSLOT;
            let hm = headers.as_ref().map(|h| OwnedHeaderMap::new(h));
            let (cp, ci) = (cstr(proxy), cstr(ip));
            let ret = take_string(redirectionio_api_create_log_in_json(w.req[r], *code, hm.as_ref().map(|m| m.head()).unwrap_or(null()), w.act[a], cptr(&cp), 12345, cptr(&ci)));
            if w.req[r].is_null() != ret.is_none() {
                return Err(format!("create_log_in_json: NULL request={} but result is_some={}", w.req[r].is_null(), ret.is_some()));
            }
            if let Some(j) = ret {
                let v: Value = serde_json::from_str(&j).map_err(|e| format!("create_log_in_json returned invalid JSON: {e}"))?;
                if v["code"].as_u64() != Some(*code as u64) || v["proxy"].as_str() != Some(proxy.as_deref().unwrap_or("").replace('\0', "").as_str()) {
                    return Err(format!("create_log_in_json: code/proxy not reported: {j}"));
                }
            }
        }
        FOp::Version => {
            let v = take_string(redirectionio_api_get_rule_api_version());
            if v.as_deref() != Some("2.0.0") {
                return Err(format!("rule api version {:?}", v));
            }
        }
        FOp::TpCreate { s } => {
            let c = cstr(s);
            let p = redirectionio_trusted_proxies_create(cptr(&c));
            if p.is_null() {
                return Err("trusted_proxies_create returned NULL".into());
            }
            w.tp = p;
        }
        FOp::TpAdd { s } => {
            let c = cstr(s);
            redirectionio_trusted_proxies_add_proxy(w.tp as *mut _, cptr(&c));
        }
    }
    Ok(())
}

pub fn leak_audited(case: &Case) -> bool {
    !case.ops.iter().any(|o| matches!(o, FOp::TpCreate { .. } | FOp::TpAdd { .. }))
}

/// Run a whole sequence, then release everything. Returns Err on a value-contract violation.
pub fn run_sequence(case: &Case) -> Result<(), String> {
    let mut w = World::new();
    let mut res = Ok(());
    unsafe {
        for (i, op) in case.ops.iter().enumerate() {
            if let Err(e) = step(&mut w, op) {
                res = Err(format!("op #{i} {:?}: {e}", op_name(op)));
                break;
            }
        }
        w.cleanup();
    }
    res
}

fn op_name(op: &FOp) -> String {
    let s = format!("{op:?}");
    s.chars().take(120).collect()
}

// ---------------------------------------------------------------------------------------------
// the null matrix (executed by rio-probe, one combination per call)
pub fn null_matrix() -> Vec<Case> {
    let opt = |b: bool, s: &str| if b { Some(s.to_string()) } else { None };
    let hs = |k: u8| -> Option<Vec<(String, String)>> {
        match k {
            0 => None,
            1 => Some(vec![("Content-Type".into(), "text/html".into()), ("X-A".into(), "1".into())]),
            _ => Some(vec![]),
        }
    };
    let action_json = r#"{"status_code_update":{"status_code":301,"on_response_status_codes":[],"exclude_response_status_codes":false,"fallback_status_code":0,"rule_id":"r","fallback_rule_id":null,"unit_id":null,"target_hash":null},"header_filters":[{"filter":{"action":"override","header":"Location","value":"/t","id":null,"target_hash":null},"on_response_status_codes":[],"exclude_response_status_codes":false,"rule_id":"r"}],"body_filters":[{"filter":{"action":"append_child","value":"<i>x</i>","inner_value":null,"element_tree":["html","body"],"css_selector":null,"id":null,"target_hash":null},"on_response_status_codes":[],"exclude_response_status_codes":false,"rule_id":"r"}],"rule_ids":["r"],"rule_traces":[],"rules_applied":[],"log_override":null}"#;
    let mut m: Vec<Case> = Vec::new();
    let mk_act = |valid: bool| FOp::ActFromJson { slot: 0, json: if valid { Some(action_json.to_string()) } else { None } };
    let mk_req = |valid: bool| if valid { FOp::ReqCreate { slot: 0, uri: Some("/foo".into()), host: Some("example.com".into()), scheme: None, method: None, headers: hs(1) } } else { FOp::ReqDrop { slot: 0 } };
    // deserialisers: null / invalid / valid
    for j in [None, Some("not json".to_string()), Some("{}".to_string()), Some(action_json.to_string())] {
        m.push(Case { ops: vec![FOp::ActFromJson { slot: 0, json: j.clone() }, FOp::ActSerialize { slot: 0 }] });
        m.push(Case { ops: vec![FOp::ReqFromJson { slot: 0, json: j.clone() }, FOp::ReqSerialize { slot: 0 }] });
        m.push(Case { ops: vec![FOp::ReqFromStr { slot: 0, url: j }, FOp::ReqSerialize { slot: 0 }] });
    }
    // functions of the action: action x header list
    for a in [false, true] {
        m.push(Case { ops: vec![mk_act(a), FOp::ActSerialize { slot: 0 }, FOp::ActStatus { slot: 0, code: 0 }, FOp::ActShouldLog { slot: 0, allow: true, code: 200 }, FOp::ActDrop { slot: 0 }, FOp::ActDrop { slot: 0 }] });
        for h in 0..3u8 {
            for ids in [false, true] {
                m.push(Case { ops: vec![mk_act(a), FOp::ActFilterHeaders { slot: 0, headers: hs(h), code: 0, add_ids: ids }] });
            }
            // body filter: create x filter x close x drop, with empty / non-empty buffers
            for buf in [BufKind::Empty, BufKind::Html(1), BufKind::Html(200)] {
                m.push(Case { ops: vec![mk_act(a), FOp::BfCreate { slot: 0, act: 0, code: 0, headers: hs(h) }, FOp::BfFilter { slot: 0, buf: buf.clone() }, FOp::BfClose { slot: 0 }, FOp::BfClose { slot: 0 }, FOp::BfDrop { slot: 0 }] });
            }
        }
    }
    for buf in [BufKind::Empty, BufKind::Html(1), BufKind::Bytes(300, 7)] {
        m.push(Case { ops: vec![FOp::BufDrop { buf: buf.clone() }, FOp::BfFilter { slot: 1, buf }] });
    }
    // request_create: all 2^5 argument patterns
    for bits in 0..32u8 {
        m.push(Case {
            ops: vec![
                FOp::ReqCreate { slot: 0, uri: opt(bits & 1 != 0, "/foo?a=1"), host: opt(bits & 2 != 0, "example.com"), scheme: opt(bits & 4 != 0, "https"), method: opt(bits & 8 != 0, "GET"), headers: hs(if bits & 16 != 0 { 1 } else { 0 }) },
                FOp::ReqSerialize { slot: 0 },
            ],
        });
    }
    // trusted proxies and remote address: request x address x proxies
    for tp in [None, Some("10.0.0.0/8, garbage,, ::1".to_string())] {
        for add in [None, Some("192.168.0.0/16".to_string()), Some("nope".to_string())] {
            for r in [false, true] {
                for addr in [None, Some("10.1.2.3:8080".to_string()), Some("garbage".to_string())] {
                    for trusted in [false, true] {
                        m.push(Case { ops: vec![FOp::TpAdd { s: add.clone() }, FOp::TpCreate { s: tp.clone() }, FOp::TpAdd { s: add.clone() }, mk_req(r), FOp::ReqSetAddr { slot: 0, addr: addr.clone(), trusted }, FOp::ReqSerialize { slot: 0 }] });
                    }
                }
            }
        }
    }
    // log: request x headers x action x proxy x ip
    for r in [false, true] {
        for h in 0..2u8 {
            for a in [false, true] {
                for p in [false, true] {
                    for ip in [None, Some("1.2.3.4".to_string()), Some("garbage".to_string())] {
                        m.push(Case { ops: vec![mk_req(r), mk_act(a), FOp::Log { req: 0, act: 0, code: 200, headers: hs(h), proxy: opt(p, "nginx"), ip: ip.clone() }, FOp::Version] });
                    }
                }
            }
        }
    }
    m.push(Case { ops: vec![FOp::ReqDrop { slot: 0 }, FOp::ActDrop { slot: 0 }, FOp::BfDrop { slot: 0 }, FOp::BfClose { slot: 0 }, FOp::Version] });
    m
}

pub fn null_matrix_len() -> u32 {
    null_matrix().len() as u32
}

// ---------------------------------------------------------------------------------------------
// parent side: a persistent child per worker thread
pub struct ProbeChild {
    child: Child,
    stdin: ChildStdin,
    stdout: BufReader<ChildStdout>,
}

impl ProbeChild {
    pub fn spawn() -> Result<ProbeChild, String> {
        let exe = crate::props::c07::probe_path("release");
        if !exe.exists() {
            return Err(format!("INFRA: {} is missing (run ./check --setup)", exe.display()));
        }
        let mut child = Command::new(exe).arg("ffi-seq").stdin(Stdio::piped()).stdout(Stdio::piped()).stderr(Stdio::null()).spawn().map_err(|e| format!("INFRA: cannot spawn probe: {e}"))?;
        let stdin = child.stdin.take().unwrap();
        let mut stdout = BufReader::new(child.stdout.take().unwrap());
        let mut hello = String::new();
        if stdout.read_line(&mut hello).is_err() || hello.trim_end() != "READY" {
            return Err(format!("INFRA: probe did not start: {hello:?}"));
        }
        Ok(ProbeChild { child, stdin, stdout })
    }

    /// send one case, read one verdict line; Err("died ...") when the child is gone
    pub fn ask(&mut self, case_json: &str) -> Result<String, String> {
        if writeln!(self.stdin, "{case_json}").is_err() || self.stdin.flush().is_err() {
            return Err(self.death());
        }
        let mut line = String::new();
        match self.stdout.read_line(&mut line) {
            Ok(0) | Err(_) => Err(self.death()),
            Ok(_) => Ok(line.trim_end().to_string()),
        }
    }

    fn death(&mut self) -> String {
        use std::os::unix::process::ExitStatusExt;
        match self.child.wait() {
            Ok(st) => format!("the process died while executing the sequence: exit code {:?}, signal {:?}", st.code(), st.signal()),
            Err(e) => format!("the process died while executing the sequence ({e})"),
        }
    }
}

impl Drop for ProbeChild {
    fn drop(&mut self) {
        let _ = self.child.kill();
        let _ = self.child.wait();
    }
}

thread_local! {
    static CHILD: std::cell::RefCell<Option<ProbeChild>> = const { std::cell::RefCell::new(None) };
}

pub fn check(case: &Case) -> Outcome {
    let mut out = Outcome::new();
    let json = serde_json::to_string(case).unwrap();
    let verdict = CHILD.with(|c| {
        let mut c = c.borrow_mut();
        if c.is_none() {
            match ProbeChild::spawn() {
                Ok(p) => *c = Some(p),
                Err(e) => return Err(e),
            }
        }
        let r = c.as_mut().unwrap().ask(&json);
        if r.is_err() {
            *c = None; // respawn for the next case
        }
        r
    });
    match verdict {
        Ok(line) => {
            if let Some(msg) = line.strip_prefix("FAIL ") {
                out.fail(msg.to_string());
            } else if !line.starts_with("OK") {
                out.fail(format!("INFRA: unexpected answer from the probe: {line}"));
            } else if !line.ends_with("logs=0") {
                out.class("messages-through-the-log-callback");
            }
        }
        Err(e) => out.fail(e),
    }
    let filtered = case.ops.iter().any(|o| matches!(o, FOp::BfFilter { buf, .. } if *buf != BufKind::Empty));
    let created = case.ops.iter().any(|o| matches!(o, FOp::BfCreate { .. }));
    if leak_audited(case) {
        out.class("leak-audited");
    }
    if filtered && created {
        out.class("filters-a-buffer");
    }
    out.nontrivial = filtered && created && case.ops.iter().any(|o| matches!(o, FOp::ActFromJson { json: Some(_), .. }));
    out
}

// ---------------------------------------------------------------------------------------------
// generator
fn headers_strategy() -> BoxedStrategy<Option<Vec<(String, String)>>> {
    let h = (pick(vec!["Content-Type", "content-encoding", "X-Shared", "Location", "X-Forwarded-For", "Forwarded", "Host"]), pick(vec!["text/html", "gzip", "br", "v", "", "1.2.3.4, 10.0.0.1", "for=1.2.3.4;proto=https", "text/html; charset=utf-8", "é"]))
        .prop_map(|(n, v)| (n.to_string(), v.to_string()));
    prop_oneof![1 => Just(None), 4 => prop::collection::vec(h, 0..4).prop_map(Some)].boxed()
}

/// response heads: as above, and in one list out of six a value in a legacy encoding (one byte 0xE9, written U+E000 here)
fn response_headers_strategy() -> BoxedStrategy<Option<Vec<(String, String)>>> {
    (headers_strategy(), 0u8..6)
        .prop_map(|(h, k)| match (h, k) {
            (Some(mut v), 0) => {
                v.push(("Content-Disposition".to_string(), "attachment; filename=\"caf\u{e000}.pdf\"".to_string()));
                Some(v)
            }
            (h, _) => h,
        })
        .boxed()
}

pub const D44: &str = "d44-header-with-non-utf8-value-dropped-at-the-c-boundary";

pub fn is_d44(case: &Case, msg: &str) -> bool {
    msg.contains("header_filter_filter:") && case.ops.iter().any(|o| matches!(o, FOp::ActFilterHeaders { headers: Some(h), .. } if h.iter().any(|(_, v)| v.contains('\u{e000}'))))
}

fn buf_strategy() -> BoxedStrategy<BufKind> {
    prop_oneof![2 => Just(BufKind::Empty), 3 => pick(vec![1u32, 2, 97, 500, 4096, 65536]).prop_map(BufKind::Html), 2 => (pick(vec![1u32, 3, 100, 5000]), any::<u8>()).prop_map(|(n, s)| BufKind::Bytes(n, s))].boxed()
}

fn opt_str(pool: Vec<&'static str>) -> BoxedStrategy<Option<String>> {
    prop::option::weighted(0.8, pick(pool)).prop_map(|o| o.map(|s| s.to_string())).boxed()
}

pub fn strategy(with_tp: bool) -> BoxedStrategy<Case> {
    // action JSONs come from the library itself (C05 shapes)
    let action_json = c05::case_strategy(4).prop_map(|c| {
        let req = RequestSpec { uri: "/foo".into(), ..Default::default() }.build(&ConfigSpec::default().to_lib());
        let a = Action::from_routes_rule(c05::routes_of(&c.rules), &req, None);
        serde_json::to_string(&a).unwrap()
    });
    // one action in eight carries a string with an interior NUL (JSON can, a C string cannot): the library has to answer
    // NULL for that string - and must survive reporting it through the log callback
    let action_json = (action_json, 0u8..8).prop_map(|(j, k)| if k == 0 { j.replacen("\"value\":\"v-", "\"value\":\"a\\u0000b-", 1) } else { j });
    let request_json = crate::gen::router_case_strategy(crate::gen::RuleOpts::MATCH_ONLY, 1, 1, 1).prop_map(|rc| serde_json::to_string(&rc.requests[0].build(&rc.config.to_lib())).unwrap());
    let slot = 0u8..2;
    let code = pick(vec![0u16, 200, 301, 404, 500]);
    let mut ops: Vec<(u32, BoxedStrategy<FOp>)> = vec![
        (3, (slot.clone(), opt_str(vec!["/foo", "/foo?a=1&utm_source=x", "/é", ""]), opt_str(vec!["example.com", "Example.COM"]), opt_str(vec!["https", "http"]), opt_str(vec!["GET", "POST"]), headers_strategy()).prop_map(|(slot, uri, host, scheme, method, headers)| FOp::ReqCreate { slot, uri, host, scheme, method, headers }).boxed()),
        (1, (slot.clone(), opt_str(vec!["http://example.com/x?y=1", "/rel", "http://a b/", "https://[::1]:8080/p", ""])).prop_map(|(slot, url)| FOp::ReqFromStr { slot, url }).boxed()),
        (2, (slot.clone(), prop_oneof![1 => Just(None), 1 => Just(Some("{".to_string())), 6 => request_json.prop_map(Some)]).prop_map(|(slot, json)| FOp::ReqFromJson { slot, json }).boxed()),
        (2, (slot.clone(), opt_str(vec!["10.1.2.3", "10.1.2.3:8080", "[::1]:80", "garbage", "127.0.0.1\n"]), any::<bool>()).prop_map(|(slot, addr, trusted)| FOp::ReqSetAddr { slot, addr, trusted }).boxed()),
        (2, slot.clone().prop_map(|slot| FOp::ReqSerialize { slot }).boxed()),
        (1, slot.clone().prop_map(|slot| FOp::ReqDrop { slot }).boxed()),
        (5, (slot.clone(), prop_oneof![1 => Just(None), 1 => Just(Some("[]".to_string())), 8 => action_json.prop_map(Some)]).prop_map(|(slot, json)| FOp::ActFromJson { slot, json }).boxed()),
        (2, slot.clone().prop_map(|slot| FOp::ActSerialize { slot }).boxed()),
        (2, (slot.clone(), code.clone()).prop_map(|(slot, code)| FOp::ActStatus { slot, code }).boxed()),
        (3, (slot.clone(), response_headers_strategy(), code.clone(), any::<bool>()).prop_map(|(slot, headers, code, add_ids)| FOp::ActFilterHeaders { slot, headers, code, add_ids }).boxed()),
        (1, (slot.clone(), any::<bool>(), code.clone()).prop_map(|(slot, allow, code)| FOp::ActShouldLog { slot, allow, code }).boxed()),
        (1, slot.clone().prop_map(|slot| FOp::ActDrop { slot }).boxed()),
        (5, (slot.clone(), slot.clone(), code.clone(), headers_strategy()).prop_map(|(slot, act, code, headers)| FOp::BfCreate { slot, act, code, headers }).boxed()),
        (8, (slot.clone(), buf_strategy()).prop_map(|(slot, buf)| FOp::BfFilter { slot, buf }).boxed()),
        (2, slot.clone().prop_map(|slot| FOp::BfClose { slot }).boxed()),
        (1, slot.clone().prop_map(|slot| FOp::BfDrop { slot }).boxed()),
        (1, buf_strategy().prop_map(|buf| FOp::BufDrop { buf }).boxed()),
        (2, (slot.clone(), slot.clone(), code, headers_strategy(), opt_str(vec!["nginx", ""]), opt_str(vec!["1.2.3.4", "garbage", "[::1]:80"])).prop_map(|(req, act, code, headers, proxy, ip)| FOp::Log { req, act, code, headers, proxy, ip }).boxed()),
        (1, Just(FOp::Version).boxed()),
    ];
    if with_tp {
        ops.push((2, opt_str(vec!["10.0.0.0/8", "10.0.0.0/8, 192.168.1.1, garbage", ""]).prop_map(|s| FOp::TpCreate { s }).boxed()));
        ops.push((1, opt_str(vec!["::1", "nope"]).prop_map(|s| FOp::TpAdd { s }).boxed()));
    }
    let op = proptest::strategy::Union::new_weighted(ops);
    prop::collection::vec(op, 1..25).prop_map(|ops| Case { ops }).boxed()
}

pub fn run(ctx: &Ctx) -> Report {
    let mut rep = Report::new(
        "C18",
        "case = call sequence over the extern C surface played by the harness as the C caller (requests from 3 constructors, actions from library-built JSON, header lists, body filters, buffers empty / 1 B / 64 KiB / arbitrary bytes allocated exactly like malloc(len), returned strings, trusted proxies, log), NULL objects interleaved, everything released exactly once through the matching function; \
         executed in a child process whose global allocator audits every dealloc/realloc against the layout of the allocation and counts live allocations; oracle: (1) no layout mismatch, and for sequences without trusted-proxy calls zero growth of live allocations between the 1st and the 3rd repetition of the sequence; (2) values: buffers and strings round-trip, header lists round-trip as multisets, \
         every result equals the native API applied to a twin object; (3) the child survives (double free / use after free / abort in extern C kill it); non-trivial = the sequence creates a body filter from a real action and filters >=1 non-empty buffer; distinct by case hash",
    );
    rep.assume("trusted proxies and the logger have no release function: sequences containing trusted-proxy calls are layout-audited but not leak-audited; buffers given to the library are allocated with exactly len bytes, as a C caller's malloc(len) does");
    let matrix = null_matrix();
    let n = matrix.len() as u64;
    rep.add(run_enum(ctx, "null-matrix", n, true, &format!("{n} NULL / non-NULL argument patterns of the extern C functions"), |i| Some(matrix[i as usize].clone()), |c| { let mut o = check(c); o.distinct_by_construction = true; o.nontrivial = true; o }, &[]));
    if rep.has_violation() {
        return rep;
    }
    rep.add(run_part(ctx, "sequences", ctx.cases(150_000, 4_000_000), || strategy(false), check, &[KnownSig { name: D44, pred: is_d44 }]));
    if rep.has_violation() {
        return rep;
    }
    rep.add(run_part(ctx, "sequences-with-trusted-proxies", ctx.cases(30_000, 800_000), || strategy(true), check, &[KnownSig { name: D44, pred: is_d44 }]));
    rep
}

pub fn replay(_part: &str, case: &Value) -> Result<Outcome, String> {
    replay_case::<Case, _>(case, check)
}

#[allow(dead_code)]
fn _m() -> BTreeMap<u8, u8> {
    BTreeMap::new()
}
