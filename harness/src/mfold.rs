//! M-fold: the reference action. Fold over the matched rules sorted by (rank desc, id desc).
use crate::spec::*;
use serde_json::Value;

/// Is the rule skipped because of sampling? Only the deterministic points are in the domain
/// (override true/false, rate 0 or >= 100).
pub fn sampled_in(r: &RuleSpec, sampling_override: Option<bool>) -> bool {
    match r.source.sampling {
        None => true,
        Some(s) => match sampling_override {
            Some(false) => false,
            Some(true) => true,
            None => s.min(100) >= 100, // 0 => never; >=100 => always; anything else is not generated
        },
    }
}

pub fn sort_rules(rules: &mut Vec<RuleSpec>) {
    rules.sort_by(|a, b| b.rank.cmp(&a.rank).then_with(|| b.id.cmp(&a.id)));
}

/// The effective rules, in application order.
pub fn effective(matched: &[RuleSpec], sampling_override: Option<bool>) -> Vec<RuleSpec> {
    let mut sorted = matched.to_vec();
    sort_rules(&mut sorted);
    let mut e: Vec<RuleSpec> = Vec::new();
    for r in sorted {
        if !sampled_in(&r, sampling_override) {
            continue;
        }
        let stop = r.stop == Some(true);
        if r.reset == Some(true) {
            e.clear();
        }
        e.push(r);
        if stop {
            break;
        }
    }
    e
}

pub fn codes(r: &RuleSpec) -> &[u16] {
    r.source.response_status_codes.as_deref().unwrap_or(&[])
}

pub fn conditional(r: &RuleSpec) -> bool {
    !codes(r).is_empty()
}

pub fn admits(r: &RuleSpec, c: u16) -> bool {
    let cs = codes(r);
    if cs.is_empty() {
        return true;
    }
    if r.source.exclude_response_status_codes == Some(true) {
        !cs.contains(&c)
    } else {
        cs.contains(&c)
    }
}

/// (status, id of the rule whose status was used)
pub fn status(e: &[RuleSpec], c: u16) -> (u16, Option<String>) {
    let with: Vec<&RuleSpec> = e.iter().filter(|r| r.status_code.unwrap_or(0) != 0).collect();
    let Some(h) = with.last() else { return (0, None) };
    let code = h.status_code.unwrap();
    if !conditional(h) {
        return if c == 0 { (code, Some(h.id.clone())) } else { (0, None) };
    }
    // a rule with a response-status condition is never decided at request time (c == 0: no response yet) - not even when
    // the condition is an exclusion, which the absent response trivially "is not in"
    if c != 0 && admits(h, c) {
        return (code, Some(h.id.clone()));
    }
    if c != 0 && with.len() >= 2 {
        let h2 = with[with.len() - 2];
        if !conditional(h2) {
            return (h2.status_code.unwrap(), Some(h2.id.clone()));
        }
    }
    (0, None)
}

/// (log decision, id of the rule used)
pub fn log(e: &[RuleSpec], default: bool, c: u16) -> (bool, Option<String>) {
    let with: Vec<&RuleSpec> = e.iter().filter(|r| r.log_override.is_some()).collect();
    let Some(l) = with.last() else { return (default, None) };
    if admits(l, c) {
        return (l.log_override.unwrap(), Some(l.id.clone()));
    }
    if with.len() >= 2 {
        let l2 = with[with.len() - 2];
        if !conditional(l2) {
            return (l2.log_override.unwrap(), Some(l2.id.clone()));
        }
    }
    (default, None)
}

/// Header filters in application order for response code c: (action, header, value).
/// `target` gives the substituted redirect target of a rule.
pub fn header_filters(e: &[RuleSpec], c: u16, target: &dyn Fn(&RuleSpec) -> Option<String>) -> Vec<(String, String, String)> {
    let mut out = Vec::new();
    for r in e {
        if !admits(r, c) {
            continue;
        }
        if let Some(t) = target(r) {
            if !r.target.as_deref().unwrap_or("").is_empty() {
                out.push(("override".to_string(), "Location".to_string(), t));
            }
        }
        for f in r.header_filters.as_deref().unwrap_or(&[]) {
            out.push((f.action.clone(), f.header.clone(), f.value.clone()));
        }
    }
    out
}

pub fn body_filters(e: &[RuleSpec], c: u16) -> Vec<Value> {
    let mut out = Vec::new();
    for r in e {
        if !admits(r, c) {
            continue;
        }
        for f in r.body_filters.as_deref().unwrap_or(&[]) {
            out.push(f.clone());
        }
    }
    out
}

pub fn admitted_ids(e: &[RuleSpec], c: u16) -> Vec<String> {
    e.iter().filter(|r| admits(r, c)).map(|r| r.id.clone()).collect()
}

pub const PROBE_BODY: &str = "<html><head><title>t</title></head><body><p>x</p></body></html>";

/// Reference effect of the five tagged body-filter shapes of `gen::body_filter_json` on a document,
/// by plain string operations (HTML semantics proper are C15's subject).
pub fn apply_tagged_body_filters(doc: &str, filters: &[Value]) -> String {
    let mut out = doc.to_string();
    for f in filters {
        let action = f["action"].as_str().unwrap_or("");
        match action {
            "append_text" => out.push_str(f["content"].as_str().unwrap_or("")),
            "prepend_text" => out = format!("{}{}", f["content"].as_str().unwrap_or(""), out),
            "replace_text" => out = f["content"].as_str().unwrap_or("").to_string(),
            "append_child" => {
                let last = f["element_tree"].as_array().and_then(|a| a.last()).and_then(|v| v.as_str()).unwrap_or("body");
                // with a selector the filter acts only when no element of the target matches it (here: meta[name="d"])
                let selector = f["css_selector"].as_str().unwrap_or("");
                let blocked = !selector.is_empty() && {
                    let open = format!("<{last}>");
                    let close = format!("</{last}>");
                    match (out.find(&open), out.find(&close)) {
                        (Some(a), Some(b)) if a < b => out[a..b].contains("<meta name=\"d\""),
                        _ => false,
                    }
                };
                if !blocked {
                    if let Some(i) = out.find(&format!("</{last}>")) {
                        out.insert_str(i, f["value"].as_str().unwrap_or(""));
                    }
                }
            }
            "prepend_child" => {
                let last = f["element_tree"].as_array().and_then(|a| a.last()).and_then(|v| v.as_str()).unwrap_or("head");
                let open = format!("<{last}>");
                if let Some(i) = out.find(&open) {
                    out.insert_str(i + open.len(), f["value"].as_str().unwrap_or(""));
                }
            }
            "replace" => {
                if let (Some(a), Some(b)) = (out.find("<title>"), out.find("</title>")) {
                    out.replace_range(a..b + "</title>".len(), f["value"].as_str().unwrap_or(""));
                }
            }
            _ => {}
        }
    }
    out
}
