// Side finding on the UNCHANGED tree (property C16: "For every byte sequence, tokenisation terminates ...,
// never panics ...").
//
// The script-data states of the tokenizer (read_script_data, read_script_data_escaped,
// read_script_data_double_escaped and their *_dash / *_less_than_sign companions in src/html/mod.rs) are
// written as functions which call each other - and themselves - once PER INPUT BYTE:
//
//     fn read_script_data(&mut self) {
//         let byte = self.read_byte() as char;
//         if self.err.is_some() { return; }
//         if byte == '<' { self.read_script_data_less_than_sign(); return; }
//         self.read_script_data();            // <- one stack frame per byte of the script
//     }
//
// Rust does not guarantee tail call elimination. In a build without optimisation (the `dev` / `test`
// profiles, i.e. what `cargo build` and `cargo test` produce) every byte of an inline script costs one stack
// frame (about 30 bytes of stack per input byte were measured: 40 000 bytes of script pass, 80 000 overflow
// the 2 MiB stack of a test thread), so that ONE call of Tokenizer::next() on `<script>` followed by a
// long script overflows the stack and the process is aborted (SIGABRT, "thread ... has overflowed its
// stack") - which is worse than a panic, it cannot be caught. With `--release` LLVM happens to turn these
// calls into jumps and the same input (and 10 MB of it) is tokenised fine; this is an optimisation the
// code relies on, not a guarantee.
//
// Inside the domain of the property: the input is an ordinary byte string (`<script>` + N times `a` +
// `</script>`, valid UTF-8, only bytes of the markup alphabet), the property quantifies over all byte
// strings ("randomly for longer"), and inline scripts of 100 KB and more are common in real pages.
//
// Expected: three tokens (`<script>`, the text, `</script>`), raw spans + remainder == input.
// Observed (cargo test, unoptimised): stack overflow inside the second call of next(), process aborted.
//
// The tokenisation is run in a thread with an explicit stack of 2 MiB (the default of Rust for spawned
// threads, and the one the test harness uses) so that the result does not depend on the environment.

use redirectionio::html::{TokenType, Tokenizer};

fn tokenize_script(prefix: &'static [u8], filler: u8, length: usize) {
    let handle = std::thread::Builder::new()
        .stack_size(2 * 1024 * 1024)
        .spawn(move || {
            let mut input = prefix.to_vec();
            input.extend(std::iter::repeat(filler).take(length));
            input.extend_from_slice(b"</script>");

            let mut tokenizer = Tokenizer::new(input.clone());
            let mut seen: Vec<u8> = Vec::new();
            let mut types = Vec::new();

            loop {
                let token_type = tokenizer.next().unwrap();
                seen.extend(tokenizer.raw());

                if token_type == TokenType::ErrorToken {
                    break;
                }

                types.push(token_type);
            }

            seen.extend(tokenizer.buffered());

            assert_eq!(seen, input);
            assert_eq!(types, vec![TokenType::StartTagToken, TokenType::TextToken, TokenType::EndTagToken]);
        })
        .unwrap();

    handle.join().unwrap();
}

#[test]
fn short_script_is_fine() {
    tokenize_script(b"<script>", b'a', 1_000);
}

#[test]
fn script_of_300_kilobytes() {
    // aborts the test process on the unchanged tree (unoptimised build)
    tokenize_script(b"<script>", b'a', 300_000);
}

#[test]
fn escaped_script_of_300_kilobytes() {
    // the same in the "script data escaped" state (after `<!--`)
    tokenize_script(b"<script><!--", b'a', 300_000);
}
