use redirectionio::api::{BodyFilter, HTMLBodyFilter};
use redirectionio::filter::FilterBodyAction;

fn f(action: &str, path: &[&str], sel: Option<&str>, value: &str) -> BodyFilter {
    BodyFilter::HTML(HTMLBodyFilter {
        action: action.to_string(),
        value: value.to_string(),
        inner_value: None,
        element_tree: path.iter().map(|s| s.to_string()).collect(),
        css_selector: sel.map(|s| s.to_string()),
        id: None,
        target_hash: None,
    })
}

fn run(doc: &str, filters: Vec<BodyFilter>) -> String {
    let mut a = FilterBodyAction::new(filters, &[]);
    let mut out = a.filter(doc.as_bytes().to_vec(), None);
    out.extend(a.end(None));
    String::from_utf8(out).unwrap()
}

fn show(name: &str, doc: &str, filters: Vec<BodyFilter>, expected: &str) -> bool {
    let out = run(doc, filters);
    let ok = out == expected;
    if !ok {
        println!("--- {} : DIFF\n doc: {}\n out: {}\n exp: {}", name, doc, out, expected);
    } else {
        println!("--- {} : ok", name);
    }
    ok
}

// document template with a hole: T is the target text; we compute expected by string replace
fn case(name: &str, doc: &str, filters: Vec<BodyFilter>, from: &str, to: &str) -> bool {
    assert!(doc.matches(from).count() >= 1, "{}", name);
    show(name, doc, filters, &doc.replace(from, to))
}

#[test]
fn probe_shapes() {
    let mut all = true;
    let v = "<i>V</i>";
    // 1. '>' in quoted attribute of target
    all &= case("gt in attr", r#"<html><body><div title="a > b" data-x='</div>'>x</div></body></html>"#,
        vec![f("append_child", &["html","body","div"], None, v)], "x</div></body>", "x<i>V</i></div></body>");
    all &= case("gt in attr sel", r#"<html><body><div title="a > b" data-x='</div>'>x</div></body></html>"#,
        vec![f("append_child", &["html","body","div"], Some("b.no"), v)], "x</div></body>", "x<i>V</i></div></body>");
    all &= case("gt in attr prepend sel", r#"<html><body><div title="a > b" data-x='</div>'>x</div></body></html>"#,
        vec![f("prepend_child", &["html","body","div"], Some("b.no"), v)], ">x</div></body>", "><i>V</i>x</div></body>");
    // 2. whitespace in tags
    all &= case("ws in tags", "<html><body\n class=a\t><div\n>x</div\n></body\n></html>",
        vec![f("append_child", &["html","body","div"], Some("b.no"), v)], "x</div\n>", "x<i>V</i></div\n>");
    // 3. lt in text
    all &= case("lt in text", "<html><body><div>1 < 2 and a<3 <> << </div></body></html>",
        vec![f("append_child", &["html","body","div"], Some("b.no"), v)], " </div>", " <i>V</i></div>");
    all &= case("lt in text replace", "<html><body><div>1 < 2 and a<3 <> << </div><p>k</p></body></html>",
        vec![f("replace", &["html","body","p"], None, v)], "<p>k</p>", v);
    // 4. comments of all kinds
    all &= case("comments", "<html><body><!-- </body> --><!----><!---><!--> <!-- a -- b --><!-- x --!><div>x<!-- </div> --></div></body></html>",
        vec![f("append_child", &["html","body","div"], Some("b.no"), v)], "--></div>", "--><i>V</i></div>");
    all &= case("comments2", "<html><body><!-- </body> --><!----><!---><!--> <!-- a -- b --><!-- x --!><div>x<!-- </div> --></div></body></html>",
        vec![f("append_child", &["html","body"], None, v)], "</body></html>", "<i>V</i></body></html>");
    // 5. raw text elements
    all &= show("style", "<html><head><style>a > b { content: \"</head>\" } </style><title>a </head> <b></title></head><body><textarea></body></textarea><xmp></body></xmp></body></html>",
        vec![f("append_child", &["html","head"], None, v), f("append_child", &["html","body"], None, "<u>W</u>")],
        "<html><head><style>a > b { content: \"</head>\" } </style><title>a </head> <b></title><i>V</i></head><body><textarea></body></textarea><xmp></body></xmp><u>W</u></body></html>");
    // 6. CDATA in svg
    all &= case("cdata", "<html><body><svg><![CDATA[ </body> ]]><path d=\"M0\"/></svg><p>k</p></body></html>",
        vec![f("replace", &["html","body","p"], None, v)], "<p>k</p>", v);
    // 7. PI & doctype
    all &= case("pi", "<?xml version=\"1.0\"?><!DOCTYPE html PUBLIC \"-//W3C//DTD XHTML 1.0 Strict//EN\" \"http://www.w3.org/TR/xhtml1/DTD/xhtml1-strict.dtd\"><html><body><p>k</p></body></html>",
        vec![f("replace", &["html","body","p"], None, v)], "<p>k</p>", v);
    // 8. uppercase
    all &= case("upper", "<HTML><BODY><DIV>x<BR><IMG SRC=a><INPUT></DIV></BODY></HTML>",
        vec![f("append_child", &["html","body","div"], Some("b.no"), v)], "</DIV>", "<i>V</i></DIV>");
    // 9. void self closing
    all &= case("voids", "<html><body><div>x<br/><br /><img src=a/><img src='a'/><hr></div></body></html>",
        vec![f("append_child", &["html","body","div"], Some("b.no"), v)], "</div>", "<i>V</i></div>");
    // 10. attributes no value etc
    all &= case("attrs", "<html><body><div hidden a= b = c d='' e=\"\" f=g/ h>x</div></body></html>",
        vec![f("prepend_child", &["html","body","div"], Some("b.no"), v)], ">x<", "><i>V</i>x<");
    // 11. replace siblings with mixed forms
    all &= show("replace siblings", "<html><head><meta a><META b/><meta c ><title>t</title><meta d=/></head></html>",
        vec![f("replace", &["html","head","meta"], None, v)], "<html><head><i>V</i><i>V</i><i>V</i><title>t</title><i>V</i></head></html>");
    all &= show("replace siblings sel", "<html><head><meta name=a><META NAME=b /><meta name='a'><title>t</title><meta name=\"a\"/></head></html>",
        vec![f("replace", &["html","head","meta"], Some("meta[name=a]"), v)], "<html><head><i>V</i><META NAME=b /><i>V</i><title>t</title><i>V</i></head></html>");
    // 12. script
    all &= case("script", "<html><body><script>if (a<b && c>d) { document.write(\"<div></body>\"); } // <!-- </body>\n</script><div>x</div></body></html>",
        vec![f("append_child", &["html","body","div"], None, v)], "x</div>", "x<i>V</i></div>");
    assert!(all);
}

#[test]
fn probe_big_script() {
    let size: usize = std::env::var("BIG").ok().and_then(|s| s.parse().ok()).unwrap_or(4_000);
    let pats: Vec<(&str, String)> = vec![
        ("plain", "a".repeat(size)),
        ("lt", "a<".repeat(size / 2)),
        ("lt-slash", "</a".repeat(size / 3)),
        ("escaped", format!("<!--{}-->", "a".repeat(size))),
        ("escaped-dash", format!("<!--{}-->", "-a".repeat(size / 2))),
        ("escaped-lt", format!("<!--{}-->", "<a-".repeat(size / 3))),
        ("double-escaped", format!("<!--<script>{}</script>-->", "a-<".repeat(size / 3))),
        ("bang", "<!-a".repeat(size / 4)),
    ];
    for (name, p) in pats {
        let doc = format!("<html><body><script>{}</script><p>a</p></body></html>", p);
        let out = run(&doc, vec![f("replace", &["html", "body", "p"], None, "<i>V</i>")]);
        println!("{} size {} ok {}", name, size, out.ends_with("<i>V</i></body></html>") && out.len() == doc.len() - 8 + 8);
    }
}

// ---------------------------------------------------------------------------------------------
// differential generator
// ---------------------------------------------------------------------------------------------
struct Rng(u64);
impl Rng {
    fn next(&mut self) -> u64 {
        self.0 ^= self.0 << 13;
        self.0 ^= self.0 >> 7;
        self.0 ^= self.0 << 17;
        self.0
    }
    fn below(&mut self, n: usize) -> usize {
        (self.next() % n as u64) as usize
    }
    fn chance(&mut self, num: usize, den: usize) -> bool {
        self.below(den) < num
    }
    fn pick<'a>(&mut self, v: &[&'a str]) -> &'a str {
        v[self.below(v.len())]
    }
}

const PATH_POOL: &[&str] = &["html", "body", "head", "main", "section", "article", "div", "ul", "p", "span", "nav", "x-app", "h1", "form", "a", "title", "footer"];
const VOID_TARGETS: &[&str] = &["meta", "link", "img", "input", "br", "hr", "source"];
const FILLER: &[&str] = &["b", "i", "em", "strong", "aside", "header", "li", "ol", "dl", "dd", "small", "u", "my-el", "h2", "label", "button", "center"];
const VOID_FILLER: &[&str] = &["area", "base", "col", "embed", "param", "track", "wbr"];
const RAW: &[&str] = &["script", "style", "textarea", "xmp", "noscript", "iframe", "noembed", "noframes"];

struct Gen {
    rng: Rng,
    out: String,
    path: Vec<String>,
    decoys: Vec<String>,
}

#[derive(Debug, Clone)]
struct Occ {
    s0: usize,
    s1: usize,
    e0: usize,
    e1: usize,
    hit: bool,
}

fn casing(rng: &mut Rng, name: &str) -> String {
    match rng.below(6) {
        0 => name.to_uppercase(),
        1 => name
            .chars()
            .enumerate()
            .map(|(i, c)| if i % 2 == 0 { c.to_ascii_uppercase() } else { c })
            .collect(),
        _ => name.to_string(),
    }
}

impl Gen {
    fn decoy(&mut self) -> String {
        // text that looks like markup using the names of the path
        let n = self.rng.below(self.decoys.len());
        let name = self.decoys[n].clone();
        match self.rng.below(8) {
            0 => format!("<{}>", name),
            1 => format!("</{}>", name),
            2 => format!("<{} class=\"hit\">", name),
            3 => format!("<b class=\"hit\">k</b>"),
            4 => format!("<{}/>", name),
            5 => format!("</{}><{}>", name, name),
            6 => format!("<{} ", name),
            _ => format!("</{}", name),
        }
    }

    fn attr_value_safe(&mut self, quote: char) -> String {
        let mut s = String::new();
        for _ in 0..self.rng.below(4) {
            match self.rng.below(9) {
                0 => s.push_str(&self.decoy().replace(quote, "")),
                1 => s.push_str(" > "),
                2 => s.push('/'),
                3 => s.push_str("&amp;"),
                4 => s.push_str("é"),
                5 => s.push(if quote == '"' { '\'' } else { '"' }),
                6 => s.push_str("a=b"),
                7 => s.push_str("\n"),
                _ => s.push_str("v"),
            }
        }
        s
    }

    fn attrs(&mut self, hit: bool) -> String {
        let mut s = String::new();
        let n = self.rng.below(4);
        let hit_pos = self.rng.below(n + 1);
        for i in 0..=n {
            if i == hit_pos && hit {
                match self.rng.below(4) {
                    0 => s.push_str(" class=hit"),
                    1 => s.push_str(" class='hit'"),
                    2 => s.push_str(" CLASS=\"hit\""),
                    _ => s.push_str("\nclass = \"x hit\""),
                }
            }
            if i == n {
                break;
            }
            let ws = self.rng.pick(&[" ", "  ", "\n", "\t", " \r\n"]);
            s.push_str(ws);
            let key = self.rng.pick(&["id", "data-x", "title", "href", "ALT", "aria-label", "x:y", "on_click"]);
            match self.rng.below(8) {
                0 => s.push_str(key),
                1 => {
                    s.push_str(key);
                    s.push_str("=\"");
                    let v = self.attr_value_safe('"');
                    s.push_str(&v);
                    s.push('"');
                }
                2 => {
                    s.push_str(key);
                    s.push_str("='");
                    let v = self.attr_value_safe('\'');
                    s.push_str(&v);
                    s.push('\'');
                }
                3 => {
                    s.push_str(key);
                    s.push_str("=");
                    s.push_str(self.rng.pick(&["v", "/a/b/", "a=b", "x'y", "é", "/", "a/", "&amp;", "1"]));
                }
                4 => {
                    s.push_str(key);
                    s.push_str(" = ");
                    s.push_str(self.rng.pick(&["v", "\"q r\"", "'s'"]));
                }
                5 => {
                    s.push_str(key);
                    s.push_str("=\"\"");
                }
                6 => {
                    s.push_str(key);
                    s.push_str("=''");
                }
                _ => {
                    s.push_str(key);
                    s.push_str("=\"");
                    s.push_str("/>");
                    s.push('"');
                }
            }
        }
        s
    }

    fn start_tag(&mut self, name: &str, hit: bool) -> String {
        let a = self.attrs(hit);
        let n = casing(&mut self.rng, name);
        let tail = self.rng.pick(&["", "", "", " ", "\n"]);
        // an unquoted value must be separated from '>' .. it is, '>' ends it
        format!("<{}{}{}>", n, a, tail)
    }

    fn end_tag(&mut self, name: &str) -> String {
        let n = casing(&mut self.rng, name);
        let tail = self.rng.pick(&["", "", "", " ", "\n", "\t "]);
        format!("</{}{}>", n, tail)
    }

    fn void_tag(&mut self, name: &str, hit: bool) -> String {
        let a = self.attrs(hit);
        let n = casing(&mut self.rng, name);
        // the closing form; when the last attribute is unquoted a '/' glued to it belongs to the value, which is fine for a void element
        let mut tail = self.rng.pick(&["", "", " ", "/", " /", "\n/"]);
        if a.ends_with("class=hit") && tail == "/" {
            tail = " /";
        }
        format!("<{}{}{}>", n, a, tail)
    }

    fn text(&mut self) {
        for _ in 0..1 + self.rng.below(3) {
            let t = self.rng.pick(&[
                "text", " ", "\n  ", "&lt;div&gt;", "&amp;", "&#60;p&#62;", "1 < 2", "a<3", "<>", "< ", "é€😀", "a > b", "x<=y", "&nbsp;", "\"quoted\"", "a=b", "/", "</ >", "<1>",
            ]);
            self.out.push_str(t);
        }
        // a text never ends with '<' directly followed by a letter of the next token: add a separator
        if self.out.ends_with('<') {
            self.out.push(' ');
        }
    }

    fn comment(&mut self) {
        let d = self.decoy();
        let c = match self.rng.below(10) {
            0 => "<!---->".to_string(),
            1 => "<!-->".to_string(),
            2 => "<!--->".to_string(),
            3 => format!("<!-- {} -->", d),
            4 => format!("<!-- a -- {} -- b -->", d),
            5 => format!("<!--{}--!>", d),
            6 => format!("<!--[if IE]>{}<![endif]-->", d),
            7 => format!("<!-- > {} ->-->", d),
            8 => "<?php echo 1 ?>".to_string(),
            _ => format!("<!-- {} - -->", d),
        };
        self.out.push_str(&c);
    }

    fn raw(&mut self) {
        let name = self.rng.pick(RAW);
        let st = self.start_tag(name, false);
        self.out.push_str(&st);
        for _ in 0..self.rng.below(4) {
            let d = self.decoy();
            match self.rng.below(10) {
                0 => self.out.push_str(&d),
                1 => self.out.push_str("if (a<b && c>d) {}"),
                2 => self.out.push_str("<"),
                3 => self.out.push_str("</"),
                4 => {
                    if name == "script" {
                        self.out.push_str(&format!("<!-- {} -->", d))
                    } else {
                        self.out.push_str("<!-- x -->")
                    }
                }
                5 => self.out.push_str(&format!("</{}x>", name)),
                6 => self.out.push_str(&format!("</{}", &name[..name.len() - 1])),
                7 => self.out.push_str("é\n"),
                8 => self.out.push_str(&format!("\"{}\"", d)),
                _ => self.out.push_str("&lt;"),
            }
        }
        if name == "script" {
            let d = self.decoy();
            match self.rng.below(6) {
                0 => self.out.push_str(&format!("<!-- <script> {} </script> -->", d)),
                1 => self.out.push_str(&format!("<!-- {} ", d)),
                2 => self.out.push_str(&format!("<!--<script>{}</script>y", d)),
                3 => self.out.push_str(&format!("<!--<SCRIPT >{}</script >--> <!-- x --> \"</scr\" + \"ipt>\"", d)),
                4 => self.out.push_str(&format!("<!-- - -- <scriptx>{}</scriptx><script/>{}</script>", d, d)),
                _ => {}
            }
        }
        let et = self.end_tag(name);
        self.out.push_str(&et);
    }

    fn filler(&mut self, depth: usize) {
        match self.rng.below(12) {
            0 | 1 | 2 => self.text(),
            3 => self.comment(),
            4 => self.raw(),
            5 => {
                let n = self.rng.pick(VOID_FILLER);
                let t = self.void_tag(n, false);
                self.out.push_str(&t);
            }
            6 => {
                // self closing non void filler (foreign content style)
                if self.rng.chance(1, 3) {
                    self.out.push_str("<svg viewBox='0 0 1 1'><g><path d=\"M0 0 L1 1\"/><desc>t</desc></g><![CDATA[ </svg> ]]></SVG>");
                    return;
                }
                let n = self.rng.pick(&["path", "circle", "use", "x-icon"]);
                let a = self.attrs(false);
                let quoted_end = !a.ends_with(|c: char| c.is_alphanumeric() || c == '/' || c == ';' || c == 'é' || c == '\'');
                if quoted_end || a.is_empty() {
                    self.out.push_str(&format!("<{}{}/>", n, a));
                } else {
                    self.out.push_str(&format!("<{}{} />", n, a));
                }
            }
            7 => {
                self.out.push_str("<![CDATA[");
                let d = self.decoy();
                self.out.push_str(&d);
                self.out.push_str("]]>");
            }
            _ => {
                if depth > 3 {
                    self.text();
                    return;
                }
                let n = self.rng.pick(FILLER);
                let st = self.start_tag(n, false);
                self.out.push_str(&st);
                for _ in 0..self.rng.below(4) {
                    self.filler(depth + 1);
                }
                let et = self.end_tag(n);
                self.out.push_str(&et);
            }
        }
    }

    fn fillers(&mut self, max: usize) {
        for _ in 0..self.rng.below(max + 1) {
            self.filler(0);
        }
    }
}

struct Case {
    doc: String,
    path: Vec<String>,
    occs: Vec<Occ>,
}

fn gen_case(seed: u64, replace: bool) -> Case {
    let mut rng = Rng(seed.wrapping_mul(0x9E3779B97F4A7C15) | 1);
    for _ in 0..5 {
        rng.next();
    }
    let depth = 1 + rng.below(4);
    let mut names: Vec<&str> = PATH_POOL.to_vec();
    let mut path: Vec<String> = Vec::new();
    for _ in 0..depth {
        let i = rng.below(names.len());
        path.push(names.remove(i).to_string());
    }
    let mut void_target = false;
    if replace && rng.chance(1, 3) {
        void_target = true;
        let last = path.len() - 1;
        path[last] = rng.pick(VOID_TARGETS).to_string();
    }
    // "title" is a raw text element, it can only be the last one
    if let Some(p) = path.iter().position(|n| n == "title") {
        if p != path.len() - 1 {
            path[p] = "center2".to_string();
        }
    }
    let decoys = path.clone();
    let mut g = Gen { rng, out: String::new(), path: path.clone(), decoys };
    let mut occs = Vec::new();

    if g.rng.chance(1, 2) {
        g.out.push_str(g.rng.pick(&["<!DOCTYPE html>", "<!doctype html>\n", "<!DOCTYPE html PUBLIC \"-//W3C//DTD XHTML 1.0 Strict//EN\" \"http://www.w3.org/TR/xhtml1/DTD/xhtml1-strict.dtd\">", "\u{feff}<!DOCTYPE html>"]));
    }

    // open the ancestors
    let mut closers = Vec::new();
    for i in 0..depth - 1 {
        let name = g.path[i].clone();
        let st = g.start_tag(&name, false);
        g.out.push_str(&st);
        g.fillers(3);
        closers.push(name);
    }

    let target = g.path[depth - 1].clone();
    let siblings = if replace { 1 + g.rng.below(3) } else { 1 };
    for _ in 0..siblings {
        let hit = g.rng.chance(1, 2);
        let s0 = g.out.len();
        if void_target {
            let t = g.void_tag(&target, hit);
            g.out.push_str(&t);
            let s1 = g.out.len();
            occs.push(Occ { s0, s1, e0: s1, e1: s1, hit });
        } else if replace && g.rng.chance(1, 5) && target != "title" {
            // self closing form of a non void element, the last attribute is quoted or absent
            let n = casing(&mut g.rng, &target);
            let hit = hit && !["html", "head", "body"].contains(&target.as_str());
            let t = if hit { format!("<{} class=\"hit\"/>", n) } else { format!("<{} id=\"a\" />", n) };
            g.out.push_str(&t);
            let s1 = g.out.len();
            occs.push(Occ { s0, s1, e0: s1, e1: s1, hit });
        } else if target == "title" {
            // raw text target: hit only on itself
            let st = g.start_tag(&target, hit);
            g.out.push_str(&st);
            let s1 = g.out.len();
            g.out.push_str("a title &amp; <b>");
            let e0 = g.out.len();
            let et = g.end_tag(&target);
            g.out.push_str(&et);
            let e1 = g.out.len();
            occs.push(Occ { s0, s1, e0, e1, hit });
        } else {
            let hit_self = hit && g.rng.chance(1, 3) && !["html", "head", "body"].contains(&target.as_str());
            let st = g.start_tag(&target, hit_self);
            g.out.push_str(&st);
            let s1 = g.out.len();
            g.fillers(3);
            if hit && !hit_self {
                let t = match g.rng.below(3) {
                    0 => "<b class=\"hit\">h</b>".to_string(),
                    1 => "<IMG CLASS=hit>".to_string(),
                    _ => "<em><i class='a hit'></i></em>".to_string(),
                };
                g.out.push_str(&t);
            }
            g.fillers(3);
            let e0 = g.out.len();
            let et = g.end_tag(&target);
            g.out.push_str(&et);
            let e1 = g.out.len();
            occs.push(Occ { s0, s1, e0, e1, hit });
        }
        g.fillers(2);
    }

    while let Some(name) = closers.pop() {
        g.fillers(2);
        let et = g.end_tag(&name);
        g.out.push_str(&et);
    }
    if g.rng.chance(1, 3) {
        g.out.push('\n');
    }

    Case { doc: g.out, path, occs }
}

fn expected(case: &Case, action: &str, sel: Option<&str>, value: &str) -> String {
    let mut out = case.doc.clone();
    for occ in case.occs.iter().rev() {
        match action {
            "append_child" => {
                if sel.is_none() || (sel == Some(".hit") && !occ.hit) || sel == Some(".never") {
                    out.insert_str(occ.e0, value);
                }
            }
            "prepend_child" => {
                if sel.is_none() || (sel == Some(".hit") && !occ.hit) || sel == Some(".never") {
                    out.insert_str(occ.s1, value);
                }
            }
            _ => {
                if sel.is_none() || (sel == Some(".hit") && occ.hit) {
                    out.replace_range(occ.s0..occ.e1, value);
                }
            }
        }
    }
    out
}

#[test]
fn differential() {
    let n: u64 = std::env::var("N").ok().and_then(|s| s.parse().ok()).unwrap_or(3000);
    let mut failures = 0;
    for seed in 1..=n {
        for action in ["append_child", "prepend_child", "replace"] {
            let case = gen_case(seed * 3 + if action == "replace" { 1 } else { 0 }, action == "replace");
            for sel in [None, Some(".hit"), Some(".never")] {
                let value = "<ins class=\"v\">V &amp; é</ins>";
                let path: Vec<&str> = case.path.iter().map(|s| s.as_str()).collect();
                let out = run(&case.doc, vec![f(action, &path, sel, value)]);
                let exp = expected(&case, action, sel, value);
                if out != exp {
                    failures += 1;
                    if failures <= 3 {
                        println!("=== seed {} {} {:?} path {:?}\n doc: {:?}\n out: {:?}\n exp: {:?}", seed, action, sel, case.path, case.doc, out, exp);
                    }
                }
            }
        }
    }
    println!("failures: {}", failures);
    assert_eq!(failures, 0);
}

fn run_chunks(chunks: &[&str], filters: Vec<BodyFilter>) -> String {
    let mut a = FilterBodyAction::new(filters, &[]);
    let mut out = Vec::new();
    for c in chunks {
        out.extend(a.filter(c.as_bytes().to_vec(), None));
    }
    out.extend(a.end(None));
    String::from_utf8(out).unwrap()
}

#[test]
fn borderline_chunked_raw_text() {
    let v = "<i>V</i>";
    // the chunk boundary falls inside a script whose text mentions the target
    let chunks = ["<html><body><script>var s = 1;", "document.write(\"<p>x\");</script><p>k</p></body></html>"];
    let out = run_chunks(&chunks, vec![f("prepend_child", &["html", "body", "p"], None, v)]);
    println!("chunked: {}", out);
    let whole = run(&chunks.concat(), vec![f("prepend_child", &["html", "body", "p"], None, v)]);
    println!("whole  : {}", whole);
    println!("chunk invariant: {}", out == whole);
}

#[test]
fn composition_chain_equals_sequential() {
    let n: u64 = std::env::var("N").ok().and_then(|s| s.parse().ok()).unwrap_or(3000);
    let mut failures = 0;
    for seed in 1..=n {
        let case = gen_case(seed * 7 + 1, seed % 2 == 0);
        let mut rng = Rng(seed | 1);
        let path: Vec<&str> = case.path.iter().map(|s| s.as_str()).collect();
        let mut filters = Vec::new();
        for k in 0..2 + rng.below(3) {
            let action = ["append_child", "prepend_child", "replace"][rng.below(3)];
            let sel = [None, Some(".hit"), Some(".never"), Some("ins.v0")][rng.below(4)];
            // a prefix of the path (an ancestor) or the target; values mention the path elements so that later filters see them
            let depth = 1 + rng.below(path.len());
            let value = match rng.below(3) {
                0 => format!("<ins class=\"v{}\">V</ins>", k),
                1 => format!("<{} class=\"hit\">n{}</{}>", path[path.len() - 1], k, path[path.len() - 1]),
                _ => format!("text {} &amp; <!-- c --><script>if (a<b) \"</{}>\"</script>", k, path[0]),
            };
            filters.push(f(action, &path[..depth], sel, &value));
        }
        let chained = run(&case.doc, filters.clone());
        let mut seq = case.doc.clone();
        for flt in filters.iter() {
            seq = run(&seq, vec![flt.clone()]);
        }
        if chained != seq {
            failures += 1;
            if failures <= 3 {
                println!("=== seed {} filters {:?}\n doc: {:?}\n chained: {:?}\n seq: {:?}", seed, filters, case.doc, chained, seq);
            }
        }
    }
    println!("failures: {}", failures);
    assert_eq!(failures, 0);
}

#[test]
fn borderline_probes() {
    let v = "<i>V</i>";
    // comment closed by --!-->
    show("bang dash comment", "<div><!-- a --!--><p>k</p><!-- b --></div>", vec![f("replace", &["div", "p"], None, v)], "<div><!-- a --!--><i>V</i><!-- b --></div>");
    // optional end tags in a buffered target
    show("optional end tags, selector", "<html><body><ul><li>a<li>b</ul></body></html>", vec![f("append_child", &["html", "body", "ul"], Some(".never"), v)], "<html><body><ul><li>a<li>b<i>V</i></ul></body></html>");
    show("optional end tags, no selector", "<html><body><ul><li>a<li>b</ul></body></html>", vec![f("append_child", &["html", "body", "ul"], None, v)], "<html><body><ul><li>a<li>b<i>V</i></ul></body></html>");
    // comment cut by a chunk boundary
    let chunks = ["<html><body><!-- old: ", "<p>x</p> --><p>k</p></body></html>"];
    let out = run_chunks(&chunks, vec![f("replace", &["html", "body", "p"], None, v)]);
    println!("comment chunked: {}", out);
    // children of noscript are raw text for the tokenizer
    show("noscript path", "<html><body><noscript><p>a</p></noscript></body></html>", vec![f("replace", &["html", "body", "noscript", "p"], None, v)], "<html><body><noscript><i>V</i></noscript></body></html>");
    // CDATA outside foreign content is a bogus comment which ends at the first '>' for a browser
    show("cdata in html content", "<div><![CDATA[ a > <p>k</p> ]]></div>", vec![f("replace", &["div", "p"], None, v)], "<div><![CDATA[ a > <i>V</i> ]]></div>");
    // upper case path
    show("upper case path", "<html><body><p>k</p></body></html>", vec![f("replace", &["HTML", "BODY", "P"], None, v)], "<html><body><i>V</i></body></html>");
    // svg title with markup
    show("svg title", "<div><svg><title><p>x</p></title></svg></div>", vec![f("replace", &["div", "svg", "title", "p"], None, v)], "<div><svg><title><i>V</i></title></svg></div>");
    // keygen / frame: void for the parser, not in the list
    show("frame void", "<html><frameset><frame src=a><frame src=b></frameset></html>", vec![f("append_child", &["html", "frameset"], Some(".never"), v)], "<html><frameset><frame src=a><frame src=b><i>V</i></frameset></html>");
}

// FINDING 1: in a debug build (cargo test) the process aborts with a stack overflow; a release build passes.
// cargo test --offline -j2 --test zz_audit finding1 -- --ignored            (SCRIPT_BYTES / STACK_MB to vary)
#[test]
#[ignore]
fn finding1_big_inline_script_overflows_the_stack() {
    let size: usize = std::env::var("SCRIPT_BYTES").ok().and_then(|s| s.parse().ok()).unwrap_or(200_000);
    let stack: usize = std::env::var("STACK_MB").ok().and_then(|s| s.parse().ok()).unwrap_or(8);
    let handle = std::thread::Builder::new()
        .stack_size(stack << 20)
        .spawn(move || {
            let doc = format!(
                "<html><head><script type=\"application/json\">{{\"k\":\"{}\"}}</script></head><body><p>a</p></body></html>",
                "a".repeat(size)
            );
            let out = run(&doc, vec![f("replace", &["html", "body", "p"], None, "<i>V</i>")]);
            assert!(out.ends_with("<body><i>V</i></body></html>"));
        })
        .unwrap();
    handle.join().unwrap();
}


// FINDING 2: append_child + css selector does nothing when the target contains elements whose end tag is omitted
#[test]
fn finding2_append_with_selector_and_omitted_end_tags() {
    let v = "<i>V</i>";
    let doc = "<html><body><ul><li>a<li>b</ul><p>one<p>two</body></html>";
    let exp = "<html><body><ul><li>a<li>b</ul><p>one<p>two<i>V</i></body></html>";
    // without a selector the value is inserted
    assert_eq!(run(doc, vec![f("append_child", &["html", "body"], None, v)]), exp);
    // prepend with a non matching selector inserts too
    assert_eq!(
        run(doc, vec![f("prepend_child", &["html", "body"], Some("i.absent"), v)]),
        "<html><body><i>V</i><ul><li>a<li>b</ul><p>one<p>two</body></html>"
    );
    // with a selector that matches nothing the value must be inserted as well, it is not
    assert_eq!(run(doc, vec![f("append_child", &["html", "body"], Some("i.absent"), v)]), exp);
}
