use redirectionio::html::{TokenType, Tokenizer};

/// Runs the tokenizer to the first ErrorToken, checks the C16 invariants, returns a description of the first violation.
fn check(input: &[u8], ctx: &str, allow_cdata: bool) -> Result<usize, String> {
    let mut t = Tokenizer::new_fragment(input.to_vec(), ctx.to_string());
    t.allow_cdata(allow_cdata);
    let mut acc: Vec<u8> = Vec::new();
    let mut n = 0usize;
    let utf8 = std::str::from_utf8(input).is_ok();

    loop {
        let tt = match t.next() {
            Ok(tt) => tt,
            Err(e) => return Err(format!("next() returned Err {e}")),
        };
        n += 1;
        if n > input.len() + 1 {
            return Err(format!("more than |b|+1 tokens ({n})"));
        }
        let raw = t.raw();
        let buffered = t.buffered();
        acc.extend_from_slice(&raw);
        // prefix invariant at every token
        let mut whole = acc.clone();
        whole.extend_from_slice(&buffered);
        if whole != input {
            return Err(format!(
                "token #{n} {:?}: concat(raw)+buffered = {:?} != input {:?}",
                tt,
                String::from_utf8_lossy(&whole),
                String::from_utf8_lossy(input)
            ));
        }
        if tt != TokenType::ErrorToken && raw.is_empty() {
            return Err(format!("token #{n} {:?} has empty raw", tt));
        }
        let raw_utf8 = std::str::from_utf8(&raw).is_ok();
        match tt {
            TokenType::ErrorToken => break,
            TokenType::StartTagToken | TokenType::EndTagToken | TokenType::SelfClosingTagToken => {
                match t.tag_name() {
                    Ok((Some(name), mut more)) => {
                        if name.is_empty() {
                            return Err(format!("token #{n}: empty tag name"));
                        }
                        let mut guard = 0;
                        while more {
                            guard += 1;
                            if guard > input.len() + 2 {
                                return Err("attr loop".to_string());
                            }
                            match t.tag_attr() {
                                Ok((Some(_k), Some(_v), m)) => more = m,
                                Ok(other) => return Err(format!("token #{n}: tag_attr gave {:?} while more", other)),
                                Err(e) => {
                                    if utf8 || raw_utf8 {
                                        return Err(format!("token #{n}: tag_attr Err {e} on utf8 bytes"));
                                    }
                                    // keep going
                                    more = false;
                                }
                            }
                        }
                    }
                    Ok((None, _)) => return Err(format!("token #{n} {:?}: tag_name gave None, raw={:?}", tt, String::from_utf8_lossy(&raw))),
                    Err(e) => {
                        if utf8 || raw_utf8 {
                            return Err(format!("token #{n}: tag_name Err {e} on utf8 bytes"));
                        }
                    }
                }
            }
            TokenType::TextToken | TokenType::CommentToken | TokenType::DoctypeToken => match t.text() {
                Ok(Some(_)) => {}
                Ok(None) => return Err(format!("token #{n}: text None")),
                Err(e) => {
                    if utf8 || raw_utf8 {
                        return Err(format!("token #{n} {:?}: text Err {e} on utf8 bytes raw={:?}", tt, String::from_utf8_lossy(&raw)));
                    }
                }
            },
            TokenType::NoneToken => return Err("NoneToken".to_string()),
        }
    }
    if acc != input {
        return Err(format!(
            "at error token concat(raw) = {:?}, remainder {:?}",
            String::from_utf8_lossy(&acc),
            String::from_utf8_lossy(&t.buffered())
        ));
    }
    Ok(n)
}

/// Same but using token() instead of the accessors.
fn check_token(input: &[u8], ctx: &str) -> Result<(), String> {
    let mut t = Tokenizer::new_fragment(input.to_vec(), ctx.to_string());
    let utf8 = std::str::from_utf8(input).is_ok();
    let mut n = 0;
    loop {
        let tt = t.next().map_err(|e| format!("{e}"))?;
        n += 1;
        if n > input.len() + 1 {
            return Err("too many".into());
        }
        if tt == TokenType::ErrorToken {
            break;
        }
        match t.token() {
            Ok(tok) => {
                let _ = tok.to_string();
            }
            Err(e) => {
                if utf8 {
                    return Err(format!("token() Err {e}"));
                }
            }
        }
    }
    Ok(())
}

fn exhaustive(alpha: &[u8], max_len: usize, prefix: &[u8], suffix: &[u8], ctx: &str, cdata: bool, fails: &mut Vec<String>) {
    let mut idx = vec![0usize; max_len];
    for len in 0..=max_len {
        for i in idx.iter_mut() {
            *i = 0;
        }
        loop {
            let mut input = prefix.to_vec();
            for &i in &idx[..len] {
                input.push(alpha[i]);
            }
            input.extend_from_slice(suffix);
            let r = std::panic::catch_unwind(|| check(&input, ctx, cdata));
            match r {
                Ok(Ok(_)) => {}
                Ok(Err(e)) => {
                    if fails.len() < 40 {
                        fails.push(format!("ctx={ctx:?} cdata={cdata} input={:?}: {e}", String::from_utf8_lossy(&input)));
                    }
                }
                Err(_) => {
                    if fails.len() < 40 {
                        fails.push(format!("ctx={ctx:?} cdata={cdata} input={:?}: PANIC", String::from_utf8_lossy(&input)));
                    }
                }
            }
            let r2 = std::panic::catch_unwind(|| check_token(&input, ctx));
            match r2 {
                Ok(Ok(_)) => {}
                Ok(Err(e)) => {
                    if fails.len() < 40 {
                        fails.push(format!("TOKEN ctx={ctx:?} input={:?}: {e}", String::from_utf8_lossy(&input)));
                    }
                }
                Err(_) => {
                    if fails.len() < 40 {
                        fails.push(format!("TOKEN ctx={ctx:?} input={:?}: PANIC", String::from_utf8_lossy(&input)));
                    }
                }
            }
            // increment
            let mut k = 0;
            loop {
                if k == len {
                    break;
                }
                idx[k] += 1;
                if idx[k] < alpha.len() {
                    break;
                }
                idx[k] = 0;
                k += 1;
            }
            if k == len {
                break;
            }
        }
    }
}

#[test]
fn exhaustive_markup() {
    let mut fails = Vec::new();
    exhaustive(b"<>/!-= \"a", 6, b"", b"", "", true, &mut fails);
    exhaustive(b"<>/!-='a\xc3\xa9", 6, b"", b"", "", true, &mut fails);
    exhaustive(b"<>/a =\"\xff", 6, b"", b"", "", true, &mut fails);
    exhaustive(b"<!-> a", 8, b"", b"", "", true, &mut fails);
    exhaustive(b"<![CDAT]>", 0, b"", b"", "", true, &mut fails);
    exhaustive(b"]>a<\xc3\xa9", 5, b"<![CDATA[", b"", "", true, &mut fails);
    exhaustive(b"]>a<\xc3\xa9", 5, b"<![CDATA[", b"", "", false, &mut fails);
    exhaustive(b"<![CDAT]>", 5, b"<![C", b"", "", true, &mut fails);
    exhaustive(b"DOCTYPEdoctype >!<", 0, b"", b"", "", true, &mut fails);
    exhaustive(b"Pe >!<x\xc3\xa9", 5, b"<!DOCTY", b"", "", true, &mut fails);
    for f in &fails {
        println!("{f}");
    }
    assert!(fails.is_empty(), "{} failures", fails.len());
}

#[test]
fn exhaustive_script() {
    let mut fails = Vec::new();
    exhaustive(b"<>/!-s ", 7, b"<script>", b"", "", true, &mut fails);
    exhaustive(b"<>/!-x", 7, b"", b"", "script", true, &mut fails);
    exhaustive(b"<>/!- ", 6, b"<script><!--<script>", b"", "", true, &mut fails);
    exhaustive(b"<>/!- ", 6, b"<script><!--<script>", b"</script>", "", true, &mut fails);
    exhaustive(b"<>/!- ", 5, b"<script><!--", b"</script>-->", "", true, &mut fails);
    exhaustive(b"<>/!- x", 5, b"<script><!--<script ", b"</scriPT x>y</script><a>", "", true, &mut fails);
    exhaustive(b"<scriptSCRIPT/> -!", 0, b"", b"", "", true, &mut fails);
    exhaustive(b"<sc/> -!", 5, b"<script><!--<", b"ript>", "", true, &mut fails);
    exhaustive(b"<pt/> -!", 5, b"<script><!--<scri", b"", "", true, &mut fails);
    exhaustive(b"<pt/> -!", 5, b"<script><!--<script></scri", b"", "", true, &mut fails);
    exhaustive(b"<pt/> -!", 5, b"<script></scri", b"", "", true, &mut fails);
    for f in &fails {
        println!("{f}");
    }
    assert!(fails.is_empty(), "{} failures", fails.len());
}

#[test]
fn exhaustive_rawtext() {
    let mut fails = Vec::new();
    for ctx in ["title", "textarea", "style", "xmp", "iframe", "noembed", "noframes", "noscript", "plaintext", "TITLE", "div", "Script"] {
        let mut alpha: Vec<u8> = b"<>/ !".to_vec();
        let lc = ctx.to_lowercase();
        alpha.push(lc.as_bytes()[0]);
        alpha.push(lc.as_bytes()[0].to_ascii_uppercase());
        exhaustive(&alpha, 6, b"", b"", ctx, true, &mut fails);
        // the whole end tag as suffix
        let suffix = format!("</{lc}>");
        exhaustive(&alpha, 5, b"", suffix.as_bytes(), ctx, true, &mut fails);
        let start = format!("<{lc}>");
        exhaustive(&alpha, 5, start.as_bytes(), suffix.as_bytes(), "", true, &mut fails);
        let start = format!("<{lc}/>");
        exhaustive(&alpha, 4, start.as_bytes(), suffix.as_bytes(), "", true, &mut fails);
        // partial end tags
        for cut in 0..suffix.len() {
            exhaustive(&alpha, 3, start.as_bytes(), &suffix.as_bytes()[..cut], "", true, &mut fails);
        }
    }
    for f in &fails {
        println!("{f}");
    }
    assert!(fails.is_empty(), "{} failures", fails.len());
}

#[test]
fn exhaustive_attrs() {
    let mut fails = Vec::new();
    exhaustive(b"a=/> \"'\xc3\xa9", 6, b"<a", b"", "", true, &mut fails);
    exhaustive(b"a=/> \"'", 6, b"<a b", b"", "", true, &mut fails);
    exhaustive(b"a=/> \"'\t", 6, b"<a b=", b"", "", true, &mut fails);
    exhaustive(b"a=/> \"'", 6, b"x<a b=c/><b ", b"", "", true, &mut fails);
    exhaustive(b"a=/> \"'<", 6, b"</a", b"", "", true, &mut fails);
    exhaustive(b"a=/> \"'", 5, b"<a b='c'", b">", "", true, &mut fails);
    for f in &fails {
        println!("{f}");
    }
    assert!(fails.is_empty(), "{} failures", fails.len());
}

struct Rng(u64);
impl Rng {
    fn next(&mut self) -> u64 {
        self.0 ^= self.0 << 13;
        self.0 ^= self.0 >> 7;
        self.0 ^= self.0 << 17;
        self.0
    }
}

#[test]
fn random_bytes() {
    let mut fails = Vec::new();
    let mut rng = Rng(0x9E3779B97F4A7C15);
    let pieces: Vec<&[u8]> = vec![
        b"<", b">", b"/", b"!", b"-", b"--", b"=", b"\"", b"'", b" ", b"a", b"script", b"SCRIPT", b"<script>", b"</script>", b"<!--", b"-->", b"<title>",
        b"</title>", b"<textarea>", b"</textarea", b"<plaintext>", b"<style>", b"</style>", b"<![CDATA[", b"]]>", b"]", b"<!DOCTYPE", b"\xc3\xa9", b"\xff",
        b"\x00", b"\xe2\x82", b"?", b"<?", b"\t", b"\n", b"\x0c", b"<xmp>", b"</xmp>", b"<iframe>", b"<noscript>", b"</noscript>", b"<a href=", b"<b/>",
        b"--!>", b"<noembed>", b"<noframes>",
    ];
    let ctxs = ["", "", "", "script", "title", "style", "plaintext", "textarea"];
    for _ in 0..300000 {
        let n = (rng.next() % 14) as usize;
        let mut input = Vec::new();
        for _ in 0..n {
            if rng.next() % 8 == 0 {
                input.push((rng.next() & 0xff) as u8);
            } else {
                input.extend_from_slice(pieces[(rng.next() % pieces.len() as u64) as usize]);
            }
        }
        let ctx = ctxs[(rng.next() % ctxs.len() as u64) as usize];
        let cdata = rng.next() % 4 != 0;
        let r = std::panic::catch_unwind(|| check(&input, ctx, cdata));
        match r {
            Ok(Ok(_)) => {}
            Ok(Err(e)) => fails.push(format!("ctx={ctx:?} cdata={cdata} input={:?}: {e}", String::from_utf8_lossy(&input))),
            Err(_) => fails.push(format!("ctx={ctx:?} input={:?}: PANIC", input)),
        }
        if fails.len() > 20 {
            break;
        }
    }
    for f in &fails {
        println!("{f}");
    }
    assert!(fails.is_empty(), "{} failures", fails.len());
}

#[test]
fn random_long() {
    let mut fails = Vec::new();
    let mut rng = Rng(0xDEADBEEFCAFEF00D);
    let pieces: Vec<&[u8]> = vec![
        b"<", b">", b"/", b"!", b"-", b"--", b"=", b"\"", b"'", b" ", b"a", b"script", b"SCRIPT", b"<script>", b"</script>", b"<!--", b"-->", b"<title>",
        b"</title>", b"<textarea>", b"</textarea", b"<style>", b"</style>", b"<![CDATA[", b"]]>", b"]", b"<!DOCTYPE", b"\xc3\xa9", b"\xff",
        b"\x00", b"\xe2\x82", b"?", b"<?", b"\t", b"\n", b"\x0c", b"<xmp>", b"</xmp>", b"<iframe>", b"<noscript>", b"</noscript>", b"<a href=", b"<b/>",
        b"--!>", b"<noembed>", b"<noframes>", b"text text", b"<p class='x'>", b"</p>", b"<div id=\"y\">", b"</div>",
    ];
    for _ in 0..3000 {
        let n = (rng.next() % 400) as usize;
        let mut input = Vec::new();
        for _ in 0..n {
            if rng.next() % 10 == 0 {
                input.push((rng.next() & 0xff) as u8);
            } else {
                input.extend_from_slice(pieces[(rng.next() % pieces.len() as u64) as usize]);
            }
        }
        let cdata = rng.next() % 4 != 0;
        let r = std::panic::catch_unwind(|| check(&input, "", cdata));
        match r {
            Ok(Ok(_)) => {}
            Ok(Err(e)) => fails.push(format!("cdata={cdata} input={:?}: {e}", String::from_utf8_lossy(&input))),
            Err(_) => fails.push(format!("input={:?}: PANIC", input)),
        }
        if fails.len() > 5 {
            break;
        }
    }
    for f in &fails {
        println!("{f}");
    }
    assert!(fails.is_empty(), "{} failures", fails.len());
}

/// big inputs outside script: no recursion, linear time
#[test]
fn big_non_script() {
    let n = 2_000_000;
    let mut cases: Vec<(Vec<u8>, &str)> = Vec::new();
    cases.push((vec![b'<'; n], ""));
    cases.push((b"</".repeat(n / 2), "title"));
    cases.push((b"</titl".repeat(n / 6), "title"));
    let mut c = b"<!--".to_vec();
    c.extend(b"-!".repeat(n / 2));
    cases.push((c, ""));
    let mut c = b"<![CDATA[".to_vec();
    c.extend(b"]>".repeat(n / 2));
    cases.push((c, ""));
    let mut c = b"<a".to_vec();
    c.extend(b" b=c/".repeat(n / 5));
    c.push(b'>');
    cases.push((c, ""));
    cases.push((b"<a>".repeat(20_000), "")); // the harness copies buffered() per token: keep this one small
    cases.push((b"<!DOCTYP".repeat(n / 8), ""));
    cases.push((b"x".repeat(n), "plaintext"));
    for (input, ctx) in cases {
        let start = std::time::Instant::now();
        let r = check(&input, ctx, true);
        println!("len {} ctx {:?} first bytes {:?}: {:?} in {:?}", input.len(), ctx, String::from_utf8_lossy(&input[..12]), r.as_ref().map(|n| *n), start.elapsed());
        assert!(r.is_ok());
    }
}

/// Borderline behaviours (printed, not asserted as defects)
#[test]
fn borderline_prints() {
    // 1. incomplete tag at EOF: the bytes are in the ErrorToken's raw(), not in buffered()
    let mut t = Tokenizer::new(b"x<a hre".to_vec());
    assert_eq!(t.next().unwrap(), TokenType::TextToken);
    assert_eq!(t.next().unwrap(), TokenType::ErrorToken);
    println!("1. error token raw={:?} buffered={:?}", t.raw_as_string().unwrap(), t.buffered_as_string().unwrap());
    assert_eq!(t.raw(), b"<a hre");
    assert!(t.buffered().is_empty());

    // 2. accessors consume: second tag_name() is None, token() after tag_name() has neither name nor attributes
    let mut t = Tokenizer::new(b"<a b=c>".to_vec());
    t.next().unwrap();
    println!("2. first tag_name {:?}", t.tag_name().unwrap());
    println!("   second tag_name {:?}", t.tag_name().unwrap());
    println!("   token() afterwards {:?}", t.token().unwrap());

    // 3. token() fails as a whole when one attribute value is not UTF-8 although the name and the other attribute are
    let mut t = Tokenizer::new(b"<a b=\xff c=d>".to_vec());
    t.next().unwrap();
    println!("3. token() = {:?}", t.token().map(|t| t.to_string()).map_err(|e| e.to_string()));
    let mut t = Tokenizer::new(b"<a b=\xff c=d>".to_vec());
    t.next().unwrap();
    println!("   tag_name {:?}", t.tag_name().unwrap());
    println!("   tag_attr #1 {:?}", t.tag_attr().map_err(|e| e.to_string()));
    println!("   tag_attr #2 {:?}", t.tag_attr().map_err(|e| e.to_string()));
}
