// Side observations: inputs for which the UNCHANGED library does not report exactly the rules whose triggers are
// satisfied (property C01). Every test in this file FAILS on the unchanged tree. See NOTES.md next to this file.

extern crate redirectionio;

use redirectionio::RouterConfig;
use redirectionio::api::Rule;
use redirectionio::http::{PathAndQueryWithSkipped, Request};
use redirectionio::router::Router;

fn config(ignore_host_case: bool, ignore_header_case: bool) -> RouterConfig {
    let mut config = RouterConfig::default();
    config.ignore_host_case = ignore_host_case;
    config.ignore_header_case = ignore_header_case;

    config
}

fn router(config: RouterConfig, rules: &[&str]) -> Router<Rule> {
    let mut router = Router::<Rule>::from_config(config);

    for rule in rules {
        router.insert(serde_json::from_str::<Rule>(rule).expect("cannot deserialize rule"));
    }

    router
}

fn matched_ids(router: &Router<Rule>, host: Option<&str>, ip: Option<&str>, headers: &[(&str, &str)]) -> Vec<String> {
    let mut request = Request::new(
        PathAndQueryWithSkipped::from_config(&RouterConfig::default(), "/foo"),
        "/foo".to_string(),
        host.map(|host| host.to_string()),
        Some("https".to_string()),
        Some("GET".to_string()),
        ip.map(|ip| ip.parse().expect("cannot parse ip")),
        None,
    );

    for (name, value) in headers {
        request.add_header(name.to_string(), value.to_string(), false);
    }

    let request = Request::rebuild_with_config(&router.config, &request);
    let mut ids: Vec<String> = router.match_request(&request).iter().map(|route| route.id().to_string()).collect();

    ids.sort();
    ids
}

/// S1 - a `match_regex` header condition whose value uses no marker is silently dropped (src/api/rule.rs,
/// `Rule::headers`: `MarkerString::new` returns None when no marker occurs in the value -> `continue`).
/// The rule is then stored as if it had no such condition and is reported for requests which do not carry the
/// header at all, or carry it with a value which does not match: a SPURIOUS rule.
#[test]
fn s1_match_regex_header_condition_without_marker_is_dropped() {
    let rules = [
        // no marker declared at all
        r#"{"id":"no-marker","rank":0,"source":{"path":"/foo","headers":[{"name":"X-Variant","type":"match_regex","value":"beta"}]},"status_code":302,"target":"/bar"}"#,
        // a marker is declared (and used by the host), but the header value does not use it
        r#"{"id":"marker-elsewhere","rank":0,"source":{"host":"@sub.example.org","path":"/foo","headers":[{"name":"X-Variant","type":"match_regex","value":"beta"}]},"markers":[{"name":"sub","regex":"[a-z]+"}],"status_code":302,"target":"/bar"}"#,
    ];
    let router = router(config(false, false), &rules);

    // sanity: with the header set to the expected value both rules match
    assert_eq!(
        matched_ids(&router, Some("www.example.org"), None, &[("X-Variant", "beta")]),
        vec!["marker-elsewhere", "no-marker"]
    );
    // the header condition is not satisfied: no rule may be reported (observed: both are)
    assert_eq!(matched_ids(&router, Some("www.example.org"), None, &[("X-Variant", "stable")]), Vec::<String>::new());
    assert_eq!(matched_ids(&router, Some("www.example.org"), None, &[]), Vec::<String>::new());
}

/// S2 - ignore_host_case = true, rule host with a marker and a letter whose `to_lowercase()` is not its simple
/// case folding (U+0130 LATIN CAPITAL LETTER I WITH DOT ABOVE lowercases to "i" + U+0307): the request host is
/// lowercased with `str::to_lowercase`, the rule host is compiled as a case-insensitive regex (simple folding),
/// and the two do not meet. A request whose host is character for character the host of the rule is MISSED when
/// case is ignored, although it is matched when case is significant.
#[test]
fn s2_host_with_marker_and_dotted_capital_i_is_missed_when_host_case_is_ignored() {
    let rule = r#"{"id":"istanbul","rank":0,"source":{"host":"İstanbul.@tld","path":"/foo"},"markers":[{"name":"tld","regex":"[a-z]+"}],"status_code":302,"target":"/bar"}"#;

    // case sensitive: matched (this assertion holds)
    assert_eq!(matched_ids(&router(config(false, false), &[rule]), Some("İstanbul.example"), None, &[]), vec!["istanbul"]);
    // case insensitive must accept at least what case sensitive accepts (observed: [])
    assert_eq!(matched_ids(&router(config(true, false), &[rule]), Some("İstanbul.example"), None, &[]), vec!["istanbul"]);
}

/// S3 - ignore_header_case = true and the context sensitive lowercasing of the Greek capital sigma: the rule value
/// "Σ" lowercases to "σ", the request value "ΟΔΟΣ" lowercases to "οδος" (final sigma "ς"), so `contains` /
/// `ends_with` conditions which hold on the original strings do not hold on the lowercased ones: the rule is MISSED
/// when case is ignored although it is matched when case is significant.
#[test]
fn s3_header_contains_capital_sigma_is_missed_when_header_case_is_ignored() {
    let contains = r#"{"id":"contains","rank":0,"source":{"path":"/foo","headers":[{"name":"X-City","type":"contains","value":"Σ"}]},"status_code":302,"target":"/bar"}"#;
    let ends_with = r#"{"id":"ends-with","rank":0,"source":{"path":"/foo","headers":[{"name":"X-City","type":"ends_with","value":"Σ"}]},"status_code":302,"target":"/bar"}"#;

    // case sensitive: matched (this assertion holds)
    assert_eq!(
        matched_ids(&router(config(false, false), &[contains, ends_with]), None, None, &[("X-City", "ΟΔΟΣ")]),
        vec!["contains", "ends-with"]
    );
    // case insensitive (observed: [])
    assert_eq!(
        matched_ids(&router(config(false, true), &[contains, ends_with]), None, None, &[("X-City", "ΟΔΟΣ")]),
        vec!["contains", "ends-with"]
    );
}

/// S4 (borderline, depends on whether such a range is inside the domain) - an ip constraint written with host bits
/// set, like "192.168.0.1/24", is not a valid `AnyIpCidr`; `Rule::route_ips` drops it and, when nothing is left,
/// the rule has NO ip trigger any more: it is reported for every client, including those outside 192.168.0.0/24.
#[test]
fn s4_ip_range_with_host_bits_is_dropped_and_the_rule_matches_every_client() {
    let rule = r#"{"id":"lan","rank":0,"source":{"path":"/foo","ips":[{"in_range":"192.168.0.1/24"}]},"status_code":302,"target":"/bar"}"#;
    let router = router(config(false, false), &[rule]);

    assert_eq!(matched_ids(&router, None, Some("203.0.113.7"), &[]), Vec::<String>::new());
}
