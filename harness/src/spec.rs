//! Harness-side wire model: rules, configs, requests as the JSON the library receives.
//! The oracles are computed from these structs; the library only ever sees their JSON.
use chrono::{DateTime, Utc};
use redirectionio::api::Rule;
use redirectionio::http::{PathAndQueryWithSkipped, Request};
use redirectionio::RouterConfig;
use serde::{Deserialize, Serialize};
use serde_json::Value;

#[derive(Serialize, Deserialize, Clone, Debug, PartialEq, Eq, Hash)]
pub struct ConfigSpec {
    pub ignore_host_case: bool,
    pub ignore_header_case: bool,
    pub ignore_path_and_query_case: bool,
    pub ignore_marketing_query_params: bool,
    pub marketing_query_params: Vec<String>,
    pub pass_marketing_query_params_to_target: bool,
    pub always_match_any_host: bool,
}

impl Default for ConfigSpec {
    fn default() -> Self {
        ConfigSpec {
            ignore_host_case: false,
            ignore_header_case: false,
            ignore_path_and_query_case: false,
            ignore_marketing_query_params: true,
            marketing_query_params: default_marketing(),
            pass_marketing_query_params_to_target: true,
            always_match_any_host: true,
        }
    }
}

pub fn default_marketing() -> Vec<String> {
    ["utm_source", "utm_medium", "utm_campaign", "utm_term", "utm_content"].iter().map(|s| s.to_string()).collect()
}

impl ConfigSpec {
    pub fn to_lib(&self) -> RouterConfig {
        serde_json::from_value(serde_json::to_value(self).unwrap()).expect("router config json")
    }
    pub fn from_bits(bits: u8, marketing: Vec<String>) -> ConfigSpec {
        ConfigSpec {
            ignore_host_case: bits & 1 != 0,
            ignore_header_case: bits & 2 != 0,
            ignore_path_and_query_case: bits & 4 != 0,
            ignore_marketing_query_params: bits & 8 != 0,
            pass_marketing_query_params_to_target: bits & 16 != 0,
            always_match_any_host: bits & 32 != 0,
            marketing_query_params: marketing,
        }
    }
}

#[derive(Serialize, Deserialize, Clone, Debug, PartialEq, Eq, Hash)]
#[serde(rename_all = "snake_case")]
pub enum IpSpec {
    InRange(String),
    NotInRange(String),
}

#[derive(Serialize, Deserialize, Clone, Debug, PartialEq, Eq, Hash)]
pub struct HeaderCondSpec {
    #[serde(rename = "type")]
    pub kind: String,
    pub name: String,
    pub value: Option<String>,
}

pub type RangeSpec = (Option<String>, Option<String>);

#[derive(Serialize, Deserialize, Clone, Debug, PartialEq, Eq, Hash, Default)]
pub struct SourceSpec {
    pub scheme: Option<String>,
    pub host: Option<String>,
    pub ips: Option<Vec<IpSpec>>,
    #[serde(skip_serializing_if = "Option::is_none", default)]
    pub datetime: Option<Vec<RangeSpec>>,
    #[serde(skip_serializing_if = "Option::is_none", default)]
    pub time: Option<Vec<RangeSpec>>,
    pub path: String,
    pub query: Option<String>,
    pub headers: Option<Vec<HeaderCondSpec>>,
    pub methods: Option<Vec<String>>,
    pub exclude_methods: Option<bool>,
    pub response_status_codes: Option<Vec<u16>>,
    pub exclude_response_status_codes: Option<bool>,
    pub sampling: Option<u32>,
    #[serde(skip_serializing_if = "Option::is_none", default)]
    pub weekdays: Option<Vec<String>>,
}

#[derive(Serialize, Deserialize, Clone, Debug, PartialEq, Eq, Hash)]
pub struct TransformerSpec {
    #[serde(rename = "type")]
    pub kind: Option<String>,
    pub options: Option<std::collections::BTreeMap<String, String>>,
}

#[derive(Serialize, Deserialize, Clone, Debug, PartialEq, Eq, Hash)]
pub struct MarkerSpec {
    pub name: String,
    pub regex: String,
    #[serde(default, skip_serializing_if = "Vec::is_empty")]
    pub transformers: Vec<TransformerSpec>,
}

#[derive(Serialize, Deserialize, Clone, Debug, PartialEq, Eq, Hash)]
pub struct HeaderFilterSpec {
    pub action: String,
    pub header: String,
    pub value: String,
    pub id: Option<String>,
    pub target_hash: Option<String>,
}

#[derive(Serialize, Deserialize, Clone, Debug, PartialEq, Eq, Hash)]
pub struct ExampleHeaderSpec {
    pub name: String,
    pub value: String,
}

#[derive(Serialize, Deserialize, Clone, Debug, PartialEq, Eq, Hash, Default)]
pub struct ExampleSpec {
    pub url: String,
    pub method: Option<String>,
    pub headers: Option<Vec<ExampleHeaderSpec>>,
    #[serde(skip_serializing_if = "Option::is_none", default)]
    pub datetime: Option<String>,
    pub ip_address: Option<String>,
    pub response_status_code: Option<u16>,
    pub must_match: bool,
    pub unit_ids_applied: Option<Vec<String>>,
}

#[derive(Serialize, Deserialize, Clone, Debug, PartialEq, Default)]
pub struct RuleSpec {
    pub id: String,
    pub source: SourceSpec,
    pub target: Option<String>,
    pub status_code: Option<u16>,
    pub rank: u16,
    #[serde(default, skip_serializing_if = "Vec::is_empty")]
    pub markers: Vec<MarkerSpec>,
    /// variables are kept as raw JSON (several shapes)
    #[serde(default, skip_serializing_if = "Vec::is_empty")]
    pub variables: Vec<Value>,
    /// body filters kept as raw JSON (text / html union)
    pub body_filters: Option<Vec<Value>>,
    pub header_filters: Option<Vec<HeaderFilterSpec>>,
    pub log_override: Option<bool>,
    pub reset: Option<bool>,
    pub stop: Option<bool>,
    pub examples: Option<Vec<ExampleSpec>>,
    pub redirect_unit_id: Option<String>,
    pub configuration_log_unit_id: Option<String>,
    pub configuration_reset_unit_id: Option<String>,
    pub target_hash: Option<String>,
}

impl RuleSpec {
    pub fn json(&self) -> String {
        serde_json::to_string(self).unwrap()
    }
    /// Enter the library through the wire format, as the agent does.
    pub fn to_lib(&self) -> Rule {
        serde_json::from_str::<Rule>(&self.json()).expect("generated rule must deserialise")
    }
    pub fn simple(id: &str, path: &str) -> RuleSpec {
        RuleSpec { id: id.to_string(), source: SourceSpec { path: path.to_string(), ..Default::default() }, ..Default::default() }
    }
}

#[derive(Serialize, Deserialize, Clone, Debug, PartialEq, Eq, Hash, Default)]
pub struct RequestSpec {
    pub uri: String,
    pub host: Option<String>,
    pub scheme: Option<String>,
    pub method: Option<String>,
    pub ip: Option<String>,
    pub headers: Vec<(String, String)>,
    /// RFC 3339 instant; None = request carries no creation time
    pub created_at: Option<String>,
    pub sampling_override: Option<bool>,
}

pub fn parse_instant(s: &str) -> Option<DateTime<Utc>> {
    s.parse::<DateTime<Utc>>().ok()
}

impl RequestSpec {
    /// Build the request the way the proxies and the generated tests do it, un-normalised.
    pub fn raw(&self) -> Request {
        let default = RouterConfig::default();
        let mut r = Request::new(
            PathAndQueryWithSkipped::from_config(&default, &self.uri),
            self.uri.clone(),
            self.host.clone(),
            self.scheme.clone(),
            self.method.clone(),
            self.ip.as_ref().and_then(|s| s.parse().ok()),
            self.sampling_override,
        );
        for (n, v) in &self.headers {
            r.add_header(n.clone(), v.clone(), false);
        }
        r.created_at = self.created_at.as_ref().and_then(|s| parse_instant(s));
        r
    }
    /// ... then normalised with the router's own configuration (implicit precondition of match_request).
    pub fn build(&self, cfg: &RouterConfig) -> Request {
        Request::rebuild_with_config(cfg, &self.raw())
    }
}

pub fn ids_sorted<T>(routes: &[std::sync::Arc<redirectionio::router::Route<T>>]) -> Vec<String> {
    let mut v: Vec<String> = routes.iter().map(|r| r.id().to_string()).collect();
    v.sort();
    v
}

pub fn build_router(cfg: &ConfigSpec, rules: &[RuleSpec]) -> redirectionio::router::Router<Rule> {
    let mut router = redirectionio::router::Router::<Rule>::from_config(cfg.to_lib());
    for r in rules {
        router.insert(r.to_lib());
    }
    router
}
