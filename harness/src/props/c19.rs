//! C19 — project-level analyses agree with the live pipeline and with full rebuilds.
use crate::engine::*;
use crate::gen::{body_filter_json, config_strategy};
use crate::props::c05::shuffled;
use crate::spec::*;
use proptest::prelude::*;
use redirectionio::action::Action;
use redirectionio::api::{
    Example, ExplainRequestInput, ExplainRequestOutput, ExplainRequestProjectInput, ImpactInput, ImpactOutput, ImpactProjectInput, Rule, TestExamplesInput, TestExamplesOutput, TestExamplesProjectInput, UnitIdsInput, UnitIdsOutput,
    UnitIdsProjectInput,
};
use redirectionio::http::Request;
use redirectionio::router::Router;
use serde::{Deserialize, Serialize};
use serde_json::{json, Value};
use std::collections::{BTreeMap, BTreeSet};
use std::sync::Arc;

#[derive(Serialize, Deserialize, Clone, Debug, PartialEq)]
pub struct Case {
    pub config: ConfigSpec,
    pub base: Vec<RuleSpec>,
    pub added: Vec<RuleSpec>,
    /// new versions of base rules (same ids)
    pub updated: Vec<RuleSpec>,
    pub deleted: Vec<String>,
    pub max_hops: u8,
    pub domains: Vec<String>,
    pub shuffle: Vec<u16>,
    /// index (into the final rule list) of the rule whose first example is explained / whose impact is computed
    pub focus: u16,
    pub impact_action: String,
    pub with_loop: bool,
    /// when set: the rule whose impact is computed is a further edit (same id, other content) of the focus rule,
    /// carrying the examples of both versions (a draft edited again)
    #[serde(default, skip_serializing_if = "Option::is_none")]
    pub edit: Option<RuleSpec>,
}

/// the last path carries a marker and an upper-case letter (a single pattern in its regex tree, case flag matters)
const PATHS: &[&str] = &["/a", "/b", "/c", "/d", "/e", "/Shop/@slug"];

fn url_of_path(path: &str) -> String {
    crate::gen::instantiate(path, 0, false)
}

pub fn final_rules(case: &Case) -> Vec<RuleSpec> {
    let mut m: BTreeMap<String, RuleSpec> = case.base.iter().map(|r| (r.id.clone(), r.clone())).collect();
    for d in &case.deleted {
        m.remove(d);
    }
    for u in &case.updated {
        m.insert(u.id.clone(), u.clone());
    }
    for a in &case.added {
        m.insert(a.id.clone(), a.clone());
    }
    m.into_values().collect()
}

fn change_set_json(case: &Case) -> Value {
    json!({"added": case.added, "updated": case.updated, "deleted": case.deleted})
}

/// recursively drop keys and normalise set-like arrays
fn normalise(v: &Value) -> Value {
    match v {
        Value::Object(o) => {
            let mut m = serde_json::Map::new();
            for (k, val) in o {
                if k == "match_traces" {
                    continue; // their shape legitimately depends on history
                }
                if k == "unit_ids_seen" {
                    // order comes from a hash map
                    let mut items: Vec<String> = val.as_array().map(|a| a.iter().map(|x| x.to_string()).collect()).unwrap_or_default();
                    items.sort();
                    m.insert(k.clone(), Value::from(items));
                    continue;
                }
                m.insert(k.clone(), normalise(val));
            }
            Value::Object(m)
        }
        Value::Array(a) => Value::Array(a.iter().map(normalise).collect()),
        other => other.clone(),
    }
}

fn cmp(label: &str, project: &Value, standalone: &Value) -> Option<String> {
    let (a, b) = (normalise(project), normalise(standalone));
    if a != b {
        // find the first differing top-level key for a readable message
        let keys: BTreeSet<String> = a.as_object().into_iter().flat_map(|o| o.keys().cloned()).chain(b.as_object().into_iter().flat_map(|o| o.keys().cloned())).collect();
        for k in keys {
            if a.get(&k) != b.get(&k) {
                return Some(format!("{label}: project variant and stand-alone variant differ in '{k}': {} vs {}", a.get(&k).unwrap_or(&Value::Null), b.get(&k).unwrap_or(&Value::Null)));
            }
        }
        return Some(format!("{label}: project variant {a} vs stand-alone {b}"));
    }
    None
}

/// The live pipeline for one example on a router: (final status, backend status, headers, body, should log)
pub fn pipeline(router: &Router<Rule>, example: &Example) -> Option<(u16, u16, Vec<(String, String)>, String, bool)> {
    // the request as a proxy would build it (not through Request::from_example, which the analyses use): raw parts of the
    // example, normalised by the router's configuration
    Request::from_example(&router.config, example).ok()?; // examples the analyses reject are not compared
    let ev = serde_json::to_value(example).ok()?;
    let url = ev["url"].as_str().unwrap_or("");
    let (scheme, host, uri) = match url.split_once("://") {
        Some((sch, rest)) => {
            let (h, p) = match rest.find('/') {
                Some(i) => (&rest[..i], &rest[i..]),
                None => (rest, "/"),
            };
            (Some(sch.to_string()), Some(h.to_string()), p.to_string())
        }
        None => (None, None, url.to_string()),
    };
    let spec = RequestSpec {
        uri,
        host,
        scheme,
        // a live request always has a method; an example without one stands for a GET
        method: Some(ev["method"].as_str().unwrap_or("GET").to_string()),
        ip: ev["ip_address"].as_str().map(|s| s.to_string()),
        headers: ev["headers"].as_array().map(|a| a.iter().map(|h| (h["name"].as_str().unwrap_or("").to_string(), h["value"].as_str().unwrap_or("").to_string())).collect()).unwrap_or_default(),
        created_at: ev["datetime"].as_str().map(|s| s.to_string()),
        sampling_override: None,
    };
    let req = spec.build(&router.config);
    let routes = router.match_request(&req);
    let mut action = Action::from_routes_rule(routes, &req, None);
    let s0 = action.get_status_code(0, None);
    let (fin, backend) = if s0 != 0 {
        (s0, s0)
    } else {
        let b = example.response_status_code.unwrap_or(200);
        (action.get_status_code(b, None), b)
    };
    let headers = action.filter_headers(Vec::new(), backend, false, None);
    let mut body = "<!DOCTYPE html>\n<html>\n    <head>\n    </head>\n    <body>\n    </body>\n</html>".as_bytes().to_vec();
    if let Some(mut f) = action.create_filter_body(backend, &[]) {
        let mut o = f.filter(body.clone(), None);
        o.extend(f.end(None));
        body = o;
    }
    // a proxy asks with the status the client receives: the backend's when no rule changed it
    let log = action.should_log_request(true, if fin != 0 { fin } else { backend }, None);
    Some((fin, backend, headers.into_iter().map(|h| (h.name, h.value)).collect(), String::from_utf8_lossy(&body).to_string(), log))
}

/// Independent walk of the redirect chain.
pub fn walk(router: &Router<Rule>, example: &Example, max_hops: u8, domains: &[String]) -> (Vec<(String, u16, String)>, Option<&'static str>) {
    let mut url = example.url.clone();
    let mut method = example.method.clone().unwrap_or_else(|| "GET".to_string());
    let mut hops = vec![(url.clone(), 0u16, method.clone())];
    let mut error = None;
    for i in 1..=max_hops {
        let e = example.with_url(url.clone()).with_method(Some(method.clone()));
        let Some((fin, _backend, headers, _, _)) = pipeline(router, &e) else { break };
        // the statuses a client follows to the Location: 303 (See Other) is one of them and, like 301 / 302 in practice, turns the
        // next request into a GET (round 4, D51: the analysis had left it out)
        if ![301u16, 302, 303, 307, 308].contains(&fin) {
            break;
        }
        let Some((_, loc)) = headers.iter().find(|(n, _)| n.eq_ignore_ascii_case("location")) else { break };
        url = match url::Url::parse(&url).ok().and_then(|b| b.join(loc).ok()) {
            Some(u) => u.to_string(),
            None => loc.clone(),
        };
        // a client keeps the fragment of a Location for itself
        if let Some(i) = url.find('#') {
            url.truncate(i);
        }
        if i > 1 {
            error = Some("AtLeastOneHop");
        }
        if fin == 301 || fin == 302 || fin == 303 {
            method = "GET".to_string();
        }
        if hops.iter().any(|(u, _, m)| *u == url && *m == method) {
            hops.push((url.clone(), fin, method.clone()));
            error = Some("Loop");
            break;
        }
        hops.push((url.clone(), fin, method.clone()));
        if let Ok(u) = url::Url::parse(&url) {
            if !domains.is_empty() && !domains.iter().any(|d| Some(d.as_str()) == u.host_str()) {
                break;
            }
        }
        if i >= max_hops {
            error = Some("TooManyHops");
            break;
        }
    }
    (hops, error)
}

fn check_loop(label: &str, v: &Value, router: &Router<Rule>, example: &Example, max_hops: u8, domains: &[String]) -> Option<String> {
    if v.is_null() {
        return None;
    }
    let (hops, error) = walk(router, example, max_hops, domains);
    let got_hops: Vec<(String, u16, String)> = v["hops"].as_array().map(|a| a.iter().map(|h| (h["url"].as_str().unwrap_or("").to_string(), h["status_code"].as_u64().unwrap_or(0) as u16, h["method"].as_str().unwrap_or("").to_string())).collect()).unwrap_or_default();
    let got_err = v["error"].as_str();
    if got_hops != hops || got_err != error {
        return Some(format!("{label}: redirect chain {:?} error {:?}; an independent walk gives {:?} error {:?}", got_hops, got_err, hops, error));
    }
    if got_hops.len() > max_hops as usize + 1 {
        return Some(format!("{label}: {} hops reported with a limit of {}", got_hops.len(), max_hops));
    }
    let last = got_hops.last().unwrap();
    let repeats = got_hops[..got_hops.len() - 1].iter().any(|h| h.0 == last.0 && h.2 == last.2);
    if (got_err == Some("Loop")) != repeats {
        return Some(format!("{label}: error {:?} but the last hop {} an earlier (url, method)", got_err, if repeats { "repeats" } else { "does not repeat" }));
    }
    None
}

pub fn check(case: &Case) -> Outcome {
    let mut out = Outcome::new();
    out.evals = 0;
    let cfg_json = serde_json::to_value(&case.config).unwrap();
    let finals = final_rules(case);
    let shuffled_rules = shuffled(&finals, &case.shuffle);
    let existing: Arc<Router<Rule>> = Arc::new(build_router(&case.config, &case.base));
    let before: Vec<String> = {
        let mut v: Vec<String> = existing.routes().keys().cloned().collect();
        v.sort();
        v
    };
    let reference = build_router(&case.config, &finals);
    let cs = change_set_json(case);

    // ---- test examples ----
    out.evals += 1;
    let p: TestExamplesProjectInput = serde_json::from_value(json!({"change_set": cs, "max_hops": case.max_hops, "project_domains": case.domains})).expect("project input");
    let s: TestExamplesInput = serde_json::from_value(json!({"router_config": cfg_json, "rules": shuffled_rules, "max_hops": case.max_hops, "project_domains": case.domains})).expect("standalone input");
    let (pv, sv) = (serde_json::to_value(TestExamplesOutput::from_project(p, existing.clone())).unwrap(), serde_json::to_value(TestExamplesOutput::create_result_without_project(s)).unwrap());
    for k in ["example_count", "failure_count", "error_count"] {
        if pv[k] != sv[k] {
            out.fail(format!("test examples: {k} is {} from the project, {} from scratch", pv[k], sv[k]));
            return out;
        }
    }
    let few = |v: &Value, k: &str| v[k].as_object().map(|o| o.len()).unwrap_or(0) <= 10;
    for k in ["first_ten_failures", "first_ten_errors"] {
        if few(&pv, k) && few(&sv, k) {
            if let Some(m) = cmp(&format!("test examples {k}"), &pv[k], &sv[k]) {
                out.fail(m);
                return out;
            }
        } else {
            out.class("first-ten-cut-off(not compared)");
        }
    }
    if pv["failure_count"].as_u64().unwrap_or(0) > 0 {
        out.class("failing-examples");
    }
    // redirect chains reported for failed examples must be the independent walk
    if let Some(fails) = sv["first_ten_failures"].as_object() {
        for (_, fr) in fails {
            for fe in fr["failed_examples"].as_array().unwrap_or(&Vec::new()) {
                if !fe["redirection_loop"].is_null() {
                    let ex: Example = serde_json::from_value(fe["example"].clone()).unwrap();
                    if let Some(m) = check_loop("test examples", &fe["redirection_loop"], &reference, &ex, case.max_hops, &case.domains) {
                        out.fail(m);
                        return out;
                    }
                    out.class("redirect-loop-reported");
                }
            }
        }
    }

    // ---- unit ids ----
    out.evals += 1;
    let p: UnitIdsProjectInput = serde_json::from_value(json!({"change_set": cs})).unwrap();
    let s: UnitIdsInput = serde_json::from_value(json!({"router_config": cfg_json, "rules": shuffled_rules})).unwrap();
    let (pv, sv) = (serde_json::to_value(UnitIdsOutput::create_result_from_project(p, existing.clone())).unwrap(), serde_json::to_value(UnitIdsOutput::create_result_without_project(s)).unwrap());
    if let Some(m) = cmp("unit ids", &pv, &sv) {
        out.fail(m);
        return out;
    }

    // ---- explain + impact on a focus rule ----
    if !finals.is_empty() {
        let focus = &finals[(case.focus as usize) % finals.len()];
        if let Some(ex_spec) = focus.examples.as_ref().and_then(|e| e.first()) {
            out.evals += 1;
            let ex_json = serde_json::to_value(ex_spec).unwrap();
            let p: ExplainRequestProjectInput = serde_json::from_value(json!({"example": ex_json, "change_set": cs, "max_hops": case.max_hops, "project_domains": case.domains})).unwrap();
            let s: ExplainRequestInput = serde_json::from_value(json!({"router_config": cfg_json, "example": ex_json, "rules": shuffled_rules, "max_hops": case.max_hops, "project_domains": case.domains})).unwrap();
            match (ExplainRequestOutput::create_result_from_project(p, existing.clone()), ExplainRequestOutput::create_result_without_project(s)) {
                (Ok(po), Ok(so)) => {
                    let (pv, sv) = (serde_json::to_value(po).unwrap(), serde_json::to_value(so).unwrap());
                    if let Some(m) = cmp("explain", &pv, &sv) {
                        out.fail(m);
                        return out;
                    }
                    // the reported response is the one of the live pipeline
                    let ex: Example = serde_json::from_value(ex_json.clone()).unwrap();
                    if let Some((fin, backend, headers, body, log)) = pipeline(&reference, &ex) {
                        let got_headers: Vec<(String, String)> = sv["response"]["headers"].as_array().map(|a| a.iter().map(|h| (h["name"].as_str().unwrap_or("").to_string(), h["value"].as_str().unwrap_or("").to_string())).collect()).unwrap_or_default();
                        // (the backend status field itself is not part of the statement: 0 is reported when no backend is called)
                        let _ = backend;
                        let got = (sv["response"]["status_code"].as_u64().unwrap_or(9999) as u16, got_headers, sv["response"]["body"].as_str().unwrap_or("").to_string(), sv["should_log_request"].as_bool().unwrap_or(false));
                        let exp = (fin, headers, body, log);
                        if got != exp {
                            out.fail(format!("explain for example {ex_json}: reports (status, headers, body, log) = {:?}; the live pipeline gives {:?}", got, exp));
                            return out;
                        }
                    }
                    if let Some(m) = check_loop("explain", &sv["redirection_loop"], &reference, &ex, case.max_hops, &case.domains) {
                        out.fail(m);
                        return out;
                    }
                    if sv["redirection_loop"]["hops"].as_array().map(|a| a.len()).unwrap_or(0) >= 3 {
                        out.class("chain>=2-redirects");
                    }
                    match sv["redirection_loop"]["error"].as_str() {
                        Some("Loop") => out.class("loop"),
                        Some("TooManyHops") => out.class("too-many-hops"),
                        _ => {}
                    }
                }
                (Err(_), Err(_)) => out.class("explain-rejected-example"),
                (a, b) => {
                    out.fail(format!("explain: project variant ok={} but stand-alone ok={}", a.is_ok(), b.is_ok()));
                    return out;
                }
            }
        }
        // impact of adding / updating / deleting the focus rule
        out.evals += 1;
        let edited: RuleSpec;
        let focus = match &case.edit {
            Some(e) => {
                let mut e = e.clone();
                e.id = focus.id.clone();
                e.target_hash = Some(format!("{}-v3", focus.id));
                let mut exs = e.examples.clone().unwrap_or_default();
                exs.extend(focus.examples.clone().unwrap_or_default());
                e.examples = Some(exs);
                edited = e;
                out.class("impact-of-an-edited-version");
                &edited
            }
            None => focus,
        };
        let rule_json = serde_json::to_value(focus).unwrap();
        let p: ImpactProjectInput = serde_json::from_value(json!({"max_hops": case.max_hops, "with_redirection_loop": case.with_loop, "domains": case.domains, "rule": rule_json, "action": case.impact_action, "change_set": cs})).unwrap();
        let s: ImpactInput = serde_json::from_value(json!({"router_config": cfg_json, "max_hops": case.max_hops, "with_redirection_loop": case.with_loop, "domains": case.domains, "rule": rule_json, "action": case.impact_action, "rules": shuffled_rules})).unwrap();
        let (pv, sv) = (serde_json::to_value(ImpactOutput::from_impact_project(p, existing.clone())).unwrap(), serde_json::to_value(ImpactOutput::create_result(s)).unwrap());
        if let Some(m) = cmp("impact", &pv, &sv) {
            out.fail(m);
            return out;
        }
        // the impact router is the final rule set with the focus rule present (add/update) or absent (delete)
        let mut impact_rules: Vec<RuleSpec> = finals.iter().filter(|r| r.id != focus.id).cloned().collect();
        if case.impact_action == "add" || case.impact_action == "update" {
            impact_rules.push(focus.clone());
        }
        let impact_router = build_router(&case.config, &impact_rules);
        for imp in sv["impacts"].as_array().unwrap_or(&Vec::new()) {
            if !imp["error"].is_null() {
                continue;
            }
            let ex: Example = serde_json::from_value(imp["example"].clone()).unwrap();
            if let Some((fin, backend, headers, body, log)) = pipeline(&impact_router, &ex) {
                let got_headers: Vec<(String, String)> = imp["response"]["headers"].as_array().map(|a| a.iter().map(|h| (h["name"].as_str().unwrap_or("").to_string(), h["value"].as_str().unwrap_or("").to_string())).collect()).unwrap_or_default();
                let _ = backend;
                let got = (imp["response"]["status_code"].as_u64().unwrap_or(9999) as u16, got_headers, imp["response"]["body"].as_str().unwrap_or("").to_string(), imp["should_log_request"].as_bool().unwrap_or(false));
                let exp = (fin, headers, body, log);
                if got != exp {
                    out.fail(format!("impact ({}) for example {}: reports {:?}; the live pipeline gives {:?}", case.impact_action, imp["example"], got, exp));
                    return out;
                }
            }
            if let Some(m) = check_loop("impact", &imp["redirection_loop"], &impact_router, &ex, case.max_hops, &case.domains) {
                out.fail(m);
                return out;
            }
        }
    }

    // the shared router must not have been touched by any project variant
    let after: Vec<String> = {
        let mut v: Vec<String> = existing.routes().keys().cloned().collect();
        v.sort();
        v
    };
    if after != before || existing.len() != case.base.len() {
        out.fail(format!("the shared existing router changed: rule ids {:?} -> {:?}", before, after));
        return out;
    }
    for r in &case.base {
        let got = existing.get_route_by_id(&r.id).and_then(|x| x.handler().target_hash.clone());
        if got != r.target_hash {
            out.fail(format!("the shared existing router now holds another version of rule {}", r.id));
            return out;
        }
    }

    // non-trivial: the change-set updates or deletes a live rule on which an example of ANOTHER rule depends (same path)
    let touched: Vec<&RuleSpec> = case.base.iter().filter(|r| case.deleted.contains(&r.id) || case.updated.iter().any(|u| u.id == r.id)).collect();
    let mut dep = false;
    for t in &touched {
        for r in &finals {
            if r.id == t.id {
                continue;
            }
            for e in r.examples.as_deref().unwrap_or(&[]) {
                let path = url::Url::parse(&e.url).map(|u| u.path().to_string()).unwrap_or_else(|_| e.url.split('?').next().unwrap_or("").to_string());
                if path == t.source.path {
                    dep = true;
                }
            }
        }
    }
    if !case.updated.is_empty() {
        out.class("change-set:updated");
    }
    if !case.deleted.is_empty() {
        out.class("change-set:deleted");
    }
    if !case.added.is_empty() {
        out.class("change-set:added");
    }
    out.nontrivial = dep;
    out
}

// ---------------------------------------------------------------------------------------------
#[derive(Clone, Debug)]
struct Body {
    path: usize,
    host: bool,
    status: Option<u16>,
    target: Option<String>,
    codes: Option<(Vec<u16>, bool)>,
    rank: u16,
    methods: Option<Vec<String>>,
    hf: Option<u8>,
    bf: u8,
    log: Option<bool>,
    reset: bool,
    stop: bool,
    examples: Vec<(u8, Option<String>, Option<u16>, bool, u8)>,
    /// bits 0-1 == 1: header condition `X-Tag is_equals Bar`, examples send X-Tag in a generated letter case;
    /// bits 2-3 == 3: the rule carries no example list at all (`examples: null`)
    extra: u8,
}

fn body_strategy() -> BoxedStrategy<Body> {
    let target = pickw(vec![
        (3u32, None),
        (2, Some("/a".to_string())),
        (2, Some("/b".to_string())),
        (2, Some("/c".to_string())),
        (1, Some("/d".to_string())),
        (1, Some("/e".to_string())),
        (1, Some("http://example.com/b".to_string())),
        (1, Some("https://other.test/x".to_string())),
        (1, Some("c".to_string())),
        (1, Some("?x=1".to_string())),
        (1, Some("http://example.org/a".to_string())),
        (1, Some("/b#frag".to_string())),
        (1, Some("/a#x".to_string())),
        (1, Some("/to/@rm".to_string())),
    ]);
    let example = (0u8..4, pickw(vec![(3u32, None), (2, Some("GET".to_string())), (2, Some("POST".to_string()))]), pickw(vec![(3u32, None), (1, Some(200u16)), (2, Some(404))]), prop::bool::weighted(0.8), 0u8..5);
    (
        (0..PATHS.len(), prop::bool::weighted(0.15), pickw(vec![(2u32, None), (3, Some(301u16)), (2, Some(302)), (1, Some(303)), (1, Some(307)), (2, Some(308)), (1, Some(404))]), target),
        (pickw(vec![(6u32, None), (2, Some((vec![404u16], false))), (1, Some((vec![200], false))), (1, Some((vec![404], true)))]), 0u16..4, pickw(vec![(5u32, None), (1, Some(vec!["GET".to_string()])), (1, Some(vec!["POST".to_string()])), (2, Some(vec!["GET".to_string(), "POST".to_string()]))])),
        (prop::option::weighted(0.4, 0u8..5), 0u8..6, pickw(vec![(4u32, None), (1, Some(true)), (1, Some(false))]), prop::bool::weighted(0.08), prop::bool::weighted(0.08), 0u8..16),
        prop::collection::vec(example, 1..=2),
    )
        .prop_map(|((path, host, status, target), (codes, rank, methods), (hf, bf, log, reset, stop, extra), examples)| Body { path, host, status, target, codes, rank, methods, hf, bf, log, reset, stop, examples, extra })
        .boxed()
}

fn make_rule(id: &str, version: &str, b: &Body) -> RuleSpec {
    let path = PATHS[b.path];
    let mut r = RuleSpec::simple(id, path);
    r.markers = crate::gen::template_markers(path).into_iter().map(crate::gen::marker_spec).collect();
    let tagged = b.extra & 3 == 1;
    if tagged {
        r.source.headers = Some(vec![HeaderCondSpec { kind: "is_equals".into(), name: "X-Tag".into(), value: Some("Bar".into()) }]);
    }
    r.source.host = if b.host { Some("example.com".to_string()) } else { None };
    r.source.methods = b.methods.clone();
    if let Some((c, ex)) = &b.codes {
        r.source.response_status_codes = Some(c.clone());
        r.source.exclude_response_status_codes = if *ex { Some(true) } else { None };
    }
    r.rank = b.rank;
    r.status_code = b.status;
    r.target = b.target.clone();
    if b.target.as_deref().is_some_and(|t| t.contains("@rm")) {
        r.variables = vec![json!({"name": "rm", "type": "request_method"})];
    }
    r.target_hash = Some(format!("{id}-{version}"));
    if b.status.is_some() {
        r.redirect_unit_id = Some(format!("redirect-{id}"));
    }
    if let Some(k) = b.hf {
        r.header_filters = Some(vec![HeaderFilterSpec {
            action: crate::gen::HF_ACTIONS[k as usize % 5].to_string(),
            header: if k % 2 == 0 { "X-Shared".to_string() } else { format!("X-{id}") },
            value: format!("v-{id}"),
            id: Some(format!("hf-{id}")),
            target_hash: Some(if k % 2 == 0 { "hdr-shared".to_string() } else { format!("hdr-{id}") }),
        }]);
    }
    r.body_filters = body_filter_json(b.bf, id).map(|f| vec![f]);
    r.log_override = b.log;
    if b.log.is_some() {
        r.configuration_log_unit_id = Some(format!("log-{id}"));
    }
    if b.reset {
        r.reset = Some(true);
    }
    if b.stop {
        r.stop = Some(true);
    }
    if b.reset || b.stop {
        r.configuration_reset_unit_id = Some(format!("conf-{id}"));
    }
    r.examples = Some(
        b.examples
            .iter()
            .map(|(u, m, c, must, ids)| {
                let url = match u {
                    0 | 1 => url_of_path(path),
                    2 => format!("http://example.com{}", url_of_path(path)),
                    _ => url_of_path(PATHS[(b.path + 1) % PATHS.len()]),
                };
                let headers = if tagged { Some(vec![ExampleHeaderSpec { name: "X-Tag".into(), value: ["Bar", "bar", "BAR", "Baz"][(*u as usize + *ids as usize) % 4].into() }]) } else { None };
                let unit_ids_applied = match ids {
                    0 => None,
                    1 => Some(vec![]),
                    2 | 3 => Some(r.redirect_unit_id.iter().cloned().collect()),
                    _ => Some(vec!["bogus-unit".to_string()]),
                };
                ExampleSpec { url, method: m.clone(), headers, datetime: None, ip_address: None, response_status_code: *c, must_match: *must, unit_ids_applied }
            })
            .collect(),
    );
    if (b.extra >> 2) & 3 == 3 {
        r.examples = None;
    }
    r
}

pub fn strategy() -> BoxedStrategy<Case> {
    (
        config_strategy(),
        prop::collection::vec(body_strategy(), 3..=10),
        prop::collection::vec(body_strategy(), 0..=3),
        prop::collection::vec((any::<u16>(), body_strategy()), 0..=3),
        prop::collection::vec(any::<u16>(), 0..=3),
        (0u8..7, pick(vec![vec![], vec!["example.com".to_string()], vec!["example.com".to_string(), "example.org".to_string()]]), prop::collection::vec(any::<u16>(), 14), any::<u16>(), pick(vec!["add", "update", "delete"]), any::<bool>(), prop::option::weighted(0.4, body_strategy())),
    )
        .prop_map(|(config, base, added, updated, deleted, (max_hops, domains, shuffle, focus, impact_action, with_loop, edit))| {
            let edit = edit.map(|b| make_rule("edited", "v3", &b));
            let base: Vec<RuleSpec> = base.iter().enumerate().map(|(i, b)| make_rule(&format!("b{i}"), "v1", b)).collect();
            let added: Vec<RuleSpec> = added.iter().enumerate().map(|(i, b)| make_rule(&format!("n{i}"), "v1", b)).collect();
            let mut seen = BTreeSet::new();
            let updated: Vec<RuleSpec> = updated
                .iter()
                .filter_map(|(k, b)| {
                    let i = (*k as usize) % base.len();
                    if seen.insert(i) { Some(make_rule(&format!("b{i}"), "v2", b)) } else { None }
                })
                .collect();
            let mut deleted: Vec<String> = deleted.iter().map(|k| if *k % 7 == 0 { "no-such-rule".to_string() } else { format!("b{}", (*k as usize) % base.len()) }).collect();
            deleted.sort();
            deleted.dedup();
            // a rule is either updated or deleted (consistent change-sets)
            deleted.retain(|d| !updated.iter().any(|u| u.id == *d));
            Case { config, base, added, updated, deleted, max_hops, domains, shuffle, focus, impact_action: impact_action.to_string(), with_loop, edit }
        })
        .boxed()
}

pub fn run(ctx: &Ctx) -> Report {
    let mut rep = Report::new(
        "C19",
        "case = base rule set B (3..10 rules over 5 paths forming redirect graphs with chains, cycles, method-changing codes, off-project and relative targets, conditional status rules, unit ids on every filter / redirect / log / reset, 1..2 examples each with expected unit ids) + consistent change-set D (added new, updated live, deleted any) + config + hop limit 0..6 + project domains; \
         oracle: for test-examples, unit-ids, explain, impact: *_from_project(Arc(router(B)), D) == *_without_project(shuffle(apply(B,D))) on normalised JSON (match traces excluded, unit_ids_seen as a set, first-ten maps only when nothing was cut off); the response reported by explain / impact (status, backend status, headers, body, log decision) == the proxy call order run natively on router(apply(B,D)); \
         every reported redirect chain == an independent walk (<= max_hops+1 hops, Loop iff a (URL, method) repeats, TooManyHops iff the limit is hit first); the shared router is unchanged afterwards; non-trivial = D updates or deletes a live rule on whose path an example of another rule sits; distinct by case hash",
    );
    rep.assume("examples use valid URLs / methods / response codes (garbage examples are C07's subject); sampling is not used");
    rep.add(run_part(ctx, "projects", ctx.cases(60_000, 2_000_000), strategy, check, &[]));
    rep
}

pub fn replay(_part: &str, case: &Value) -> Result<Outcome, String> {
    replay_case::<Case, _>(case, check)
}
