use crate::engine::{Ctx, Outcome, Report};
use serde_json::Value;

pub mod c01;
pub mod c02;
pub mod c03;
pub mod c04;
pub mod c05;
pub mod c06;
pub mod c07;
pub mod c08;
pub mod c09;
pub mod c10;
pub mod c11;
pub mod c12;
pub mod c13;
pub mod c14;
pub mod c15;
pub mod c16;
pub mod c17;
pub mod c18;
pub mod c19;

pub struct Prop {
    pub id: &'static str,
    pub run: fn(&Ctx) -> Report,
    pub replay: fn(&str, &Value) -> Result<Outcome, String>,
}

pub fn all() -> Vec<Prop> {
    vec![
        Prop { id: "C01", run: c01::run, replay: c01::replay },
        Prop { id: "C02", run: c02::run, replay: c02::replay },
        Prop { id: "C03", run: c03::run, replay: c03::replay },
        Prop { id: "C04", run: c04::run, replay: c04::replay },
        Prop { id: "C05", run: c05::run, replay: c05::replay },
        Prop { id: "C06", run: c06::run, replay: c06::replay },
        Prop { id: "C07", run: c07::run, replay: c07::replay },
        Prop { id: "C08", run: c08::run, replay: c08::replay },
        Prop { id: "C09", run: c09::run, replay: c09::replay },
        Prop { id: "C10", run: c10::run, replay: c10::replay },
        Prop { id: "C11", run: c11::run, replay: c11::replay },
        Prop { id: "C12", run: c12::run, replay: c12::replay },
        Prop { id: "C13", run: c13::run, replay: c13::replay },
        Prop { id: "C14", run: c14::run, replay: c14::replay },
        Prop { id: "C15", run: c15::run, replay: c15::replay },
        Prop { id: "C16", run: c16::run, replay: c16::replay },
        Prop { id: "C17", run: c17::run, replay: c17::replay },
        Prop { id: "C18", run: c18::run, replay: c18::replay },
        Prop { id: "C19", run: c19::run, replay: c19::replay },
    ]
}
