//! C11 — rule application is deterministic under any match or insertion order.
use crate::engine::*;
use crate::gen::*;
use crate::mfold;
use crate::props::c05::{compare_effects, shuffled};
use crate::spec::*;
use proptest::prelude::*;
use redirectionio::action::Action;
use redirectionio::api::Rule;
use redirectionio::router::Route;
use serde::{Deserialize, Serialize};
use serde_json::Value;
use std::collections::HashMap;
use std::sync::Arc;

#[derive(Serialize, Deserialize, Clone, Debug, PartialEq)]
pub struct Case {
    pub router: RouterCase,
    pub perm_seed: u64,
}

fn nth_permutation(n: usize, mut k: u64) -> Vec<usize> {
    let mut items: Vec<usize> = (0..n).collect();
    let mut out = Vec::with_capacity(n);
    for i in (1..=n).rev() {
        let j = (k % i as u64) as usize;
        k /= i as u64;
        out.push(items.remove(j));
    }
    out
}

fn factorial(n: usize) -> u64 {
    (1..=n as u64).product()
}

pub fn check(case: &Case) -> Outcome {
    let mut out = Outcome::new();
    out.evals = 0;
    let rc = &case.router;
    let router = build_router(&rc.config, &rc.rules);
    // routers rebuilt with other insertion orders (each rebuild re-seeds every internal hash map)
    let mut sm = Sm(case.perm_seed);
    let mut others = Vec::new();
    for _ in 0..3 {
        let keys: Vec<u16> = (0..rc.rules.len()).map(|_| sm.next() as u16).collect();
        others.push(build_router(&rc.config, &shuffled(&rc.rules, &keys)));
    }
    // round 4: one more insertion order with a cache warm-up between two insertions (rules loaded, warm-up, rule update)
    {
        let keys: Vec<u16> = (0..rc.rules.len()).map(|_| sm.next() as u16).collect();
        let order = shuffled(&rc.rules, &keys);
        let at = (sm.next() as usize) % (order.len() + 1);
        let limit = [None, Some(1u64), Some(3), Some(1000)][(sm.next() % 4) as usize];
        let mut r = redirectionio::router::Router::<redirectionio::api::Rule>::from_config(rc.config.to_lib());
        for (i, rule) in order.iter().enumerate() {
            if i == at {
                r.cache(limit);
            }
            r.insert(rule.to_lib());
        }
        if at == order.len() {
            r.cache(limit);
        }
        others.push(r);
    }
    let by_id: HashMap<&str, &RuleSpec> = rc.rules.iter().map(|r| (r.id.as_str(), r)).collect();
    for q in &rc.requests {
        let req = q.build(&router.config);
        let matched = router.match_request(&req);
        let n = matched.len();
        let base_action = Action::from_routes_rule(matched.clone(), &req, None);
        let base = serde_json::to_string(&base_action).unwrap();
        // permutations of the matched routes
        let perms: Vec<Vec<usize>> = if n <= 4 {
            (0..factorial(n)).map(|k| nth_permutation(n, k)).collect()
        } else {
            (0..30).map(|_| nth_permutation(n, sm.next() % factorial(n.min(20)))).collect()
        };
        for p in &perms {
            out.evals += 1;
            let routes: Vec<Arc<Route<Rule>>> = p.iter().map(|&i| matched[i].clone()).collect();
            let s = serde_json::to_string(&Action::from_routes_rule(routes, &req, None)).unwrap();
            if s != base {
                out.fail(format!("request {:?}: permutation {:?} of the matched routes {:?} gives action {} instead of {}", q, p, ids_sorted(&matched), s, base));
                return out;
            }
        }
        for (k, other) in others.iter().enumerate() {
            out.evals += 1;
            let m2 = other.match_request(&req);
            let s = serde_json::to_string(&Action::from_routes_rule(m2, &req, None)).unwrap();
            if s != base {
                out.fail(format!("request {:?}: router rebuilt with insertion order #{k} gives action {} instead of {}", q, s, base));
                return out;
            }
        }
        // the order is (rank desc, id desc): effects equal the reference fold
        let specs: Vec<RuleSpec> = matched.iter().map(|r| (*by_id[r.id()]).clone()).collect();
        let e = mfold::effective(&specs, None);
        let targets: HashMap<String, Option<String>> = matched.iter().map(|r| (r.id().to_string(), Action::get_target(r, &req))).collect();
        for c in [0u16, 200, 404] {
            if let Some(m) = compare_effects(&base_action, &e, c, &|r: &RuleSpec| targets.get(&r.id).cloned().flatten()) {
                out.fail(format!("request {:?}: action differs from the fold in (rank desc, id desc) order: {m}", q));
                return out;
            }
        }
        // classification: >=2 matched rules of equal rank with different effects
        let mut tie_conflict = false;
        for i in 0..specs.len() {
            for j in i + 1..specs.len() {
                let (a, b) = (&specs[i], &specs[j]);
                if a.rank == b.rank && (a.status_code != b.status_code || a.header_filters != b.header_filters || a.target != b.target || a.log_override != b.log_override) {
                    tie_conflict = true;
                }
            }
        }
        if tie_conflict {
            out.nontrivial = true;
            out.class("equal-rank-conflict");
        }
        if n >= 5 {
            out.class("matched>=5(sampled permutations)");
        } else if n >= 2 {
            out.class("matched 2..4 (all permutations)");
        }
    }
    if out.evals == 0 {
        out.evals = 1;
    }
    out
}

fn strategy() -> BoxedStrategy<Case> {
    (router_case_strategy(RuleOpts::TIES, 10, 4, 6), any::<u64>(), prop::option::weighted(0.5, 0usize..4))
        .prop_map(|(mut router, perm_seed, tricky)| {
            // half of the cases use ids that are integers written in several ways mixed with text ids
            if let Some(off) = tricky {
                rename_tricky(&mut router.rules, off);
            }
            Case { router, perm_seed }
        })
        .boxed()
}

pub fn run(ctx: &Ctx) -> Report {
    let mut rep = Report::new(
        "C11",
        "case = router over the C01 pools with ranks in {0,1} (heavy ties) and conflicting effects, 4..6 requests, a permutation seed; oracle = serde_json(Action::from_routes_rule(pi(match), q)) is one constant string for all permutations pi of the matched routes \
         (all n! for n<=4, 30 seeded ones above) and for 4 routers rebuilt with shuffled insertion orders (one of them with a cache warm-up between two insertions), and its effects equal the reference fold in (rank desc, id desc) order; \
         non-trivial = a request matched >=2 rules of equal rank with different effects; distinct by case hash",
    );
    rep.assume("sampling disabled (the statement excludes it); hash-map iteration order cannot be driven directly: it is re-seeded by every router rebuild and the match order is permuted explicitly");
    rep.add(run_part(ctx, "orders", ctx.cases(40_000, 1_500_000), strategy, check, &[]));
    rep
}

pub fn replay(_part: &str, case: &Value) -> Result<Outcome, String> {
    replay_case::<Case, _>(case, check)
}
