//! C02 — incremental rule updates are equivalent to rebuilding; clones are isolated.
use crate::engine::*;
use crate::hist::*;
use crate::mflat::expected_matches;
use crate::spec::*;
use serde_json::Value;
use std::collections::BTreeSet;

pub fn check(case: &HistCase) -> Outcome {
    let mut out = Outcome::new();
    out.evals = 0;
    let mut m = Machine::new(&case.config);
    let cfg = case.config.to_lib();
    let probes: Vec<_> = case.probes.iter().map(|q| q.build(&cfg)).collect();
    let mut witness_answers: Vec<Vec<Vec<String>>> = Vec::new();
    let mut removed_dyn_then_insert = false;
    let mut seen_removed_dyn = false;
    let mut updated_live = false;

    for (step, op) in case.ops.iter().enumerate() {
        let nw = m.witnesses.len();
        let info = m.apply(case, op, true);
        if let Some(e) = info.error {
            out.fail(format!("step {step} ({op:?}): {e}"));
            return out;
        }
        if info.skipped {
            out.class("skipped-op(precondition)");
            continue;
        }
        if info.removed_live_dynamic {
            seen_removed_dyn = true;
        }
        if info.inserted && seen_removed_dyn {
            removed_dyn_then_insert = true;
        }
        updated_live |= info.updated_live;
        if info.cloned {
            out.class("clone-then-mutate");
            // a witness was frozen: record its answers now (witness list is capped at 2, oldest dropped)
            if m.witnesses.len() == nw && !witness_answers.is_empty() {
                witness_answers.remove(0);
            }
            let (w, wm) = m.witnesses.last().unwrap();
            let answers: Vec<Vec<String>> = probes.iter().map(|p| ids_sorted(&w.match_request(p))).collect();
            // ... and they must be those of the rule set the witness stands for
            let wrules = case.model_rules(wm);
            for (q, a) in case.probes.iter().zip(&answers) {
                let (exp, _) = expected_matches(&case.config, &wrules, q);
                if *a != exp {
                    out.fail(format!("step {step} ({op:?}): the copy set aside answers {:?} for {:?}, its rule set gives {:?}", a, q, exp));
                    return out;
                }
            }
            witness_answers.push(answers);
        }
        // ---- oracle on the continuing router ----
        let live = case.model_rules(&m.model);
        let fresh = build_router(&case.config, &live);
        if m.router.len() != m.model.len() {
            out.fail(format!("step {step} ({op:?}): len() = {}, {} rules are live", m.router.len(), m.model.len()));
            return out;
        }
        let keys: BTreeSet<String> = m.router.routes().keys().cloned().collect();
        let exp_keys: BTreeSet<String> = m.model.keys().map(|s| slot_id(*s)).collect();
        if keys != exp_keys {
            out.fail(format!("step {step} ({op:?}): routes() holds {:?}, live ids are {:?}", keys, exp_keys));
            return out;
        }
        for s in 0..SLOTS {
            let got = m.router.get_route_by_id(&slot_id(s)).map(|r| r.handler().target_hash.clone().unwrap_or_default());
            let exp = m.model.get(&s).map(|v| format!("ver{v}"));
            if got != exp {
                out.fail(format!("step {step} ({op:?}): get_route_by_id({}) holds {:?}, model says {:?}", slot_id(s), got, exp));
                return out;
            }
        }
        // probes of this step: those instantiating a version of a touched rule id, a rotating window of 8 others,
        // and the complete set at the last step (lazy regex compilation makes every lookup expensive)
        let touched: Vec<u8> = match op {
            HOp::Insert { slot, .. } | HOp::Remove { slot } => vec![slot % SLOTS],
            HOp::BatchRemove { slots } => slots.iter().map(|s| s % SLOTS).collect(),
            HOp::ChangeSet { added, updated, deleted, .. } => added.iter().chain(updated.iter()).map(|(s, _)| s % SLOTS).chain(deleted.iter().map(|s| s % SLOTS)).collect(),
            HOp::Cache { .. } => Vec::new(),
        };
        let last = step + 1 == case.ops.len();
        let np = probes.len();
        let selected = |k: usize| -> bool {
            last || (k < (SLOTS as usize * VERSIONS as usize) && touched.contains(&((k / VERSIONS as usize) as u8))) || (0..8).any(|j| (step * 8 + j) % np == k)
        };
        for (k, (q, p)) in case.probes.iter().zip(&probes).enumerate() {
            if !selected(k) {
                continue;
            }
            out.evals += 1;
            let got = ids_sorted(&m.router.match_request(p));
            let rebuilt = ids_sorted(&fresh.match_request(p));
            if got != rebuilt {
                out.fail(format!("step {step} ({op:?}): probe {:?}: updated router matches {:?}, a router rebuilt from the live rules matches {:?}", q, got, rebuilt));
                return out;
            }
            let (exp, _) = expected_matches(&case.config, &live, q);
            if got != exp {
                out.fail(format!("step {step} ({op:?}): probe {:?}: router matches {:?}, flat predicate gives {:?}", q, got, exp));
                return out;
            }
        }
        // ---- frozen witnesses still answer as they did ----
        for ((w, _), answers) in m.witnesses.iter().zip(&witness_answers) {
            for (k, p) in probes.iter().enumerate() {
                if !selected(k) {
                    continue;
                }
                let now = ids_sorted(&w.match_request(p));
                if now != answers[k] {
                    out.fail(format!("step {step} ({op:?}): a router set aside earlier now answers {:?} for probe {:?}, it answered {:?} when frozen", now, case.probes[k], answers[k]));
                    return out;
                }
            }
        }
    }
    if out.evals == 0 {
        out.evals = 1;
    }
    if removed_dyn_then_insert {
        out.class("removed-live-dynamic-then-inserted");
    }
    if updated_live {
        out.class("change-set-updated-live-rule");
    }
    out.nontrivial = removed_dyn_then_insert || updated_live;
    out
}

pub fn run(ctx: &Ctx) -> Report {
    let mut rep = Report::new(
        "C02",
        "case = history of 1..40 operations {insert, remove, batch_remove, apply_change_set in place, RuleChangeSet::update_existing_router(Arc) continuing with either copy, cache(n)} over 10 rule ids x 3 content versions (rules biased to marker paths/hosts sharing prefixes), \
         interpreted against the router and a model map with ids kept unique; oracle after every step on ~40 probes derived from all 30 rule versions: ids(match(router)) == ids(match(router rebuilt from the live rules)) == flat predicate, len(), routes() keys and get_route_by_id agree with the model, \
         remove(id) returns the route iff it was live, every copy set aside still answers all probes as when frozen; non-trivial = the history removes a live rule with a marker path/host and later inserts again, or a change-set updates a live rule; distinct by case hash",
    );
    rep.assume("operations that would break id uniqueness among live rules are skipped by the interpreter (stated precondition); per-layer count fields are not observable through the named API and are not asserted (O4)");
    rep.add(run_part(ctx, "histories", ctx.cases(2_500, 100_000), || hist_case_strategy(40), check, &[]));
    rep
}

pub fn replay(_part: &str, case: &Value) -> Result<Outcome, String> {
    replay_case::<HistCase, _>(case, check)
}
