// Throw-away audit tests for property C05 (action = fold of the matched rules in priority order)
extern crate redirectionio;

use redirectionio::RouterConfig;
use redirectionio::action::{Action, UnitTrace};
use redirectionio::api::Rule;
use redirectionio::http::{Header, Request};
use redirectionio::router::Router;

fn action_for(rules: &[&str], sampling_override: Option<bool>) -> Action {
    let config = RouterConfig::default();
    let mut router = Router::<Rule>::from_config(config.clone());

    for rule in rules {
        let rule: Rule = serde_json::from_str(rule).expect("cannot deserialize rule");
        router.insert(rule);
    }

    let request = Request::from_config(&config, "/x".to_string(), None, None, None, None, sampling_override);
    let matched = router.match_request(&request);

    Action::from_routes_rule(matched, &request, None)
}

fn action_for_traced(rules: &[&str], unit_trace: &mut UnitTrace) -> Action {
    let config = RouterConfig::default();
    let mut router = Router::<Rule>::from_config(config.clone());

    for rule in rules {
        let rule: Rule = serde_json::from_str(rule).expect("cannot deserialize rule");
        router.insert(rule);
    }

    let request = Request::from_config(&config, "/x".to_string(), None, None, None, None, None);
    let matched = router.match_request(&request);

    Action::from_routes_rule(matched, &request, Some(unit_trace))
}

fn header(headers: &[Header], name: &str) -> Option<String> {
    headers.iter().find(|h| h.name.eq_ignore_ascii_case(name)).map(|h| h.value.clone())
}

// ---------------------------------------------------------------------------------------------
// F1: a rule whose condition is "every response code but 404" is decided at request time
// ---------------------------------------------------------------------------------------------
#[test]
fn f1_exclude_rule_is_decided_before_the_backend_answers() {
    let rule = r#"{"id":"not-on-404","rank":1,"source":{"path":"/x","response_status_codes":[404],"exclude_response_status_codes":true},"status_code":301,"target":"/moved"}"#;

    // What a proxy does: ask at request time (0), and only call the backend when the answer is 0
    let mut action = action_for(&[rule], None);
    let at_request_time = action.get_status_code(0, None);
    println!("F1 get_status_code(0) = {at_request_time} (expected 0: the rule has a response-status condition)");

    // and the helper of the crate that chains both steps, with a backend answering 404
    let mut action = action_for(&[rule], None);
    let mut unit_trace = UnitTrace::default();
    let (final_code, _) = action.get_final_status_code_with_fallback(404, 200, &mut unit_trace);
    println!("F1 get_final_status_code_with_fallback(404) = {final_code} (expected 0/404: the condition does not admit 404)");

    // same for the logging override
    let log_rule = r#"{"id":"nolog-but-404","rank":1,"source":{"path":"/x","response_status_codes":[404],"exclude_response_status_codes":true},"log_override":false}"#;
    let mut action = action_for(&[log_rule], None);
    println!("F1 should_log_request(true, 0) = {}", action.should_log_request(true, 0, None));

    // with an unconditional rule below it: that one can never serve as fallback, the backend is not consulted
    let always = r#"{"id":"always","rank":2,"source":{"path":"/x"},"status_code":308,"target":"/a"}"#;
    let mut action = action_for(&[always, rule], None);
    let mut unit_trace = UnitTrace::default();
    let with_fallback = action.get_final_status_code_with_fallback(404, 200, &mut unit_trace);
    println!("F1 always(308) + not-on-404(301), backend 404: {with_fallback:?} (expected 308 from the fallback rule)");
    assert_eq!(with_fallback.0, 301); // documents the observed behaviour

    // control: the same rule written as an inclusion is not decided at request time
    let include = r#"{"id":"on-500","rank":1,"source":{"path":"/x","response_status_codes":[500]},"status_code":301,"target":"/moved"}"#;
    let mut action = action_for(&[include], None);
    assert_eq!(action.get_status_code(0, None), 0);

    assert_eq!(at_request_time, 0, "exclude rule decided at request time");
    assert_ne!(final_code, 301, "redirect served although the backend answered the excluded code");
}

// ---------------------------------------------------------------------------------------------
// F2: two conditional status rules: the lower one loses its status code but keeps its Location
// ---------------------------------------------------------------------------------------------
#[test]
fn f2_two_conditional_status_rules() {
    let on_404 = r#"{"id":"on-404","rank":2,"source":{"path":"/x","response_status_codes":[404]},"status_code":301,"target":"/from-404"}"#;
    let on_500 = r#"{"id":"on-500","rank":1,"source":{"path":"/x","response_status_codes":[500]},"status_code":302,"target":"/from-500"}"#;

    let mut action = action_for(&[on_404, on_500], None);
    let status = action.get_status_code(404, None);
    let headers = action.filter_headers(Vec::new(), 404, true, None);

    println!(
        "F2 status(404) = {status}, Location = {:?}, rule ids = {:?}",
        header(&headers, "Location"),
        header(&headers, "X-RedirectionIo-RuleIds")
    );

    // alone, the rule does redirect
    let mut alone = action_for(&[on_404], None);
    assert_eq!(alone.get_status_code(404, None), 301);

    assert_eq!(header(&headers, "Location").as_deref(), Some("/from-404"));
    assert_eq!(status, 301, "status code of the only status rule admitting 404 is lost");
}

// ---------------------------------------------------------------------------------------------
// F3: logging override: fallback lost below two conditional overrides (sibling of the known status defect),
//     and a conditional override hides a lower conditional override admitting the code
// ---------------------------------------------------------------------------------------------
#[test]
fn f3_log_override_merge() {
    let never = r#"{"id":"never-log","rank":3,"source":{"path":"/x"},"log_override":false}"#;
    let log_404 = r#"{"id":"log-404","rank":2,"source":{"path":"/x","response_status_codes":[404]},"log_override":true}"#;
    let log_500 = r#"{"id":"log-500","rank":1,"source":{"path":"/x","response_status_codes":[500]},"log_override":true}"#;

    // one conditional override above the unconditional one: fine
    let mut action = action_for(&[never, log_404], None);
    assert_eq!(action.should_log_request(true, 200, None), false);
    assert_eq!(action.should_log_request(true, 404, None), true);

    let mut action = action_for(&[never, log_404, log_500], None);
    let at_200 = action.should_log_request(true, 200, None);
    let at_404 = action.should_log_request(false, 404, None);
    let at_500 = action.should_log_request(true, 500, None);
    println!("F3 never+log404+log500: log(200) = {at_200} (expected false), log(404, config=false) = {at_404} (expected true), log(500) = {at_500}");

    let mut action = action_for(&[log_404.replace("true", "false").as_str(), log_500], None);
    let two_cond_at_404 = action.should_log_request(true, 404, None);
    println!("F3 nolog404+log500: log(404) = {two_cond_at_404} (expected false)");

    assert_eq!(at_500, true);
    assert_eq!(at_200, false, "unconditional 'never log' rule lost");
    assert_eq!(two_cond_at_404, false);
}

// ---------------------------------------------------------------------------------------------
// F4: unit ids reported for the status / log decision belong to the wrong rule when a fallback exists
// ---------------------------------------------------------------------------------------------
#[test]
fn f4_unit_ids_of_fallback_decisions() {
    let always = r#"{"id":"always","rank":2,"source":{"path":"/x"},"status_code":301,"target":"/a","redirect_unit_id":"unit-always","log_override":false,"configuration_log_unit_id":"log-unit-always"}"#;
    let on_404 = r#"{"id":"on-404","rank":1,"source":{"path":"/x","response_status_codes":[404]},"status_code":302,"target":"/b","redirect_unit_id":"unit-on-404","log_override":true,"configuration_log_unit_id":"log-unit-on-404"}"#;

    // backend answers 200: the fallback rule "always" decides status and logging
    let mut unit_trace = UnitTrace::default();
    let mut action = action_for_traced(&[always, on_404], &mut unit_trace);
    let status = action.get_status_code(200, Some(&mut unit_trace));
    let log = action.should_log_request(true, 200, Some(&mut unit_trace));
    let applied_rules: Vec<String> = action.get_applied_rule_ids().iter().cloned().collect();
    unit_trace.squash_with_target_unit_traces();
    let units_200: Vec<String> = unit_trace.get_unit_ids_applied().into_iter().collect();
    println!("F4 c=200 status={status} log={log} rules={applied_rules:?} units={units_200:?}");
    assert_eq!(status, 301);
    assert_eq!(log, false);
    assert_eq!(applied_rules, vec!["always".to_string()]);

    // backend answers 404: the conditional rule decides both
    let mut unit_trace = UnitTrace::default();
    let mut action = action_for_traced(&[always, on_404], &mut unit_trace);
    let status = action.get_status_code(404, Some(&mut unit_trace));
    let log = action.should_log_request(true, 404, Some(&mut unit_trace));
    let applied_rules: Vec<String> = action.get_applied_rule_ids().iter().cloned().collect();
    unit_trace.squash_with_target_unit_traces();
    let units_404: Vec<String> = unit_trace.get_unit_ids_applied().into_iter().collect();
    println!("F4 c=404 status={status} log={log} rules={applied_rules:?} units={units_404:?}");
    assert_eq!(status, 302);
    assert_eq!(log, true);
    assert_eq!(applied_rules, vec!["on-404".to_string()]);

    assert_eq!(units_200, vec!["log-unit-always".to_string(), "unit-always".to_string()], "units at 200");
    assert_eq!(units_404, vec!["log-unit-on-404".to_string(), "unit-on-404".to_string()], "units at 404");
}

// ---------------------------------------------------------------------------------------------
// Differential sweep against a small reference fold (known / reported classes are skipped)
// ---------------------------------------------------------------------------------------------
#[derive(Clone, Debug)]
struct GenRule {
    id: String,
    rank: u16,
    codes: Option<Vec<u16>>,
    exclude: Option<bool>,
    status: Option<u16>,
    target: Option<String>,
    header: Option<(String, String, String)>,
    body: Option<String>,
    log: Option<bool>,
    stop: Option<bool>,
    reset: Option<bool>,
    sampling: Option<u32>,
}

impl GenRule {
    fn conditional(&self) -> bool {
        self.codes.as_ref().map(|c| !c.is_empty()).unwrap_or(false)
    }

    fn admits(&self, c: u16) -> bool {
        match &self.codes {
            None => true,
            Some(codes) if codes.is_empty() => true,
            Some(codes) => {
                if self.exclude.unwrap_or(false) {
                    !codes.contains(&c)
                } else {
                    codes.contains(&c)
                }
            }
        }
    }

    fn json(&self) -> String {
        let mut source = serde_json::json!({"path": "/x"});
        if let Some(codes) = &self.codes {
            source["response_status_codes"] = serde_json::json!(codes);
        }
        if let Some(exclude) = self.exclude {
            source["exclude_response_status_codes"] = serde_json::json!(exclude);
        }
        if let Some(sampling) = self.sampling {
            source["sampling"] = serde_json::json!(sampling);
        }
        let mut rule = serde_json::json!({"id": self.id, "rank": self.rank, "source": source});
        if let Some(status) = self.status {
            rule["status_code"] = serde_json::json!(status);
        }
        if let Some(target) = &self.target {
            rule["target"] = serde_json::json!(target);
        }
        if let Some((action, name, value)) = &self.header {
            rule["header_filters"] = serde_json::json!([{"action": action, "header": name, "value": value}]);
        }
        if let Some(body) = &self.body {
            rule["body_filters"] = serde_json::json!([{"action": "append_text", "content": body}]);
        }
        if let Some(log) = self.log {
            rule["log_override"] = serde_json::json!(log);
        }
        if let Some(stop) = self.stop {
            rule["stop"] = serde_json::json!(stop);
        }
        if let Some(reset) = self.reset {
            rule["reset"] = serde_json::json!(reset);
        }
        rule.to_string()
    }
}

struct Lcg(u64);

impl Lcg {
    fn next(&mut self, n: u64) -> u64 {
        self.0 = self.0.wrapping_mul(6364136223846793005).wrapping_add(1442695040888963407);
        (self.0 >> 33) % n
    }
}

fn gen_rule(rng: &mut Lcg, i: usize) -> GenRule {
    let pool = [200u16, 404, 500];
    let (codes, exclude) = match rng.next(6) {
        0 | 1 => (None, None),
        2 => (Some(Vec::new()), Some(false)),
        3 | 4 => {
            let mut codes = vec![pool[rng.next(3) as usize]];
            if rng.next(2) == 0 {
                codes.push(pool[rng.next(3) as usize]);
            }
            (Some(codes), if rng.next(2) == 0 { None } else { Some(false) })
        }
        _ => (Some(vec![pool[rng.next(3) as usize]]), Some(true)),
    };

    GenRule {
        id: format!("r{i}"),
        rank: rng.next(3) as u16,
        codes,
        exclude,
        status: match rng.next(4) {
            0 => None,
            1 => Some(0),
            2 => Some(301 + i as u16),
            _ => Some(410 + i as u16),
        },
        target: match rng.next(3) {
            0 => None,
            1 => Some(String::new()),
            _ => Some(format!("/t{i}")),
        },
        header: match rng.next(4) {
            0 => None,
            1 => Some(("add".to_string(), format!("X-{i}"), format!("v{i}"))),
            2 => Some(("override".to_string(), "X-Common".to_string(), format!("v{i}"))),
            _ => Some(("default".to_string(), "X-Default".to_string(), format!("v{i}"))),
        },
        body: if rng.next(2) == 0 { None } else { Some(format!("[{i}]")) },
        log: match rng.next(3) {
            0 => None,
            1 => Some(true),
            _ => Some(false),
        },
        stop: match rng.next(8) {
            0 => Some(true),
            1 => Some(false),
            _ => None,
        },
        reset: match rng.next(8) {
            0 => Some(true),
            1 => Some(false),
            _ => None,
        },
        sampling: match rng.next(5) {
            0 => Some(0),
            1 => Some(100),
            2 => Some(1000),
            _ => None,
        },
    }
}

fn reference_list(rules: &[GenRule], sampling_override: Option<bool>) -> Vec<GenRule> {
    let mut sorted = rules.to_vec();
    // rank desc, id desc
    sorted.sort_by(|a, b| b.rank.cmp(&a.rank).then(b.id.cmp(&a.id)));
    let mut list: Vec<GenRule> = Vec::new();

    for rule in sorted {
        if let Some(sampling) = rule.sampling {
            let skipped = match sampling_override {
                Some(false) => true,
                Some(true) => false,
                None => sampling == 0,
            };
            if skipped {
                continue;
            }
        }
        if rule.reset.unwrap_or(false) {
            list.clear();
        }
        let stop = rule.stop.unwrap_or(false);
        list.push(rule);
        if stop {
            break;
        }
    }

    list
}

#[test]
fn sweep_against_reference_fold() {
    let mut rng = Lcg(0xC05);
    let mut mismatches = 0;
    let mut compared_status = 0;
    let mut compared_log = 0;
    let mut cases = 0;

    for _ in 0..20000 {
        let n = 1 + rng.next(5) as usize;
        let rules: Vec<GenRule> = (0..n).map(|i| gen_rule(&mut rng, i)).collect();
        let sampling_override = match rng.next(3) {
            0 => None,
            1 => Some(true),
            _ => Some(false),
        };
        let jsons: Vec<String> = rules.iter().map(|r| r.json()).collect();
        let json_refs: Vec<&str> = jsons.iter().map(|s| s.as_str()).collect();
        let list = reference_list(&rules, sampling_override);

        for c in [0u16, 200, 404, 500, 418] {
            cases += 1;
            let mut action = action_for(&json_refs, sampling_override);
            {
                // what the agent does: the action travels as JSON to the proxy module
                let mut copy: Action = serde_json::from_str(&serde_json::to_string(&action).unwrap()).unwrap();
                let mut orig = action.clone();
                assert_eq!(copy.get_status_code(c, None), orig.get_status_code(c, None));
                let a = copy.filter_headers(Vec::new(), c, true, None);
                let b = orig.filter_headers(Vec::new(), c, true, None);
                assert_eq!(format!("{a:?}"), format!("{b:?}"));
                assert_eq!(copy.should_log_request(true, c, None), orig.should_log_request(true, c, None));
                assert_eq!(format!("{:?}", copy.create_filter_body(c, &[])), format!("{:?}", orig.create_filter_body(c, &[])));
            }
            let status = action.get_status_code(c, None);
            let headers = action.filter_headers(
                vec![Header {
                    name: "X-Common".to_string(),
                    value: "orig".to_string(),
                }],
                c,
                false,
                None,
            );
            let body = match action.create_filter_body(c, &[]) {
                None => b"BODY".to_vec(),
                Some(mut filter) => {
                    let mut out = filter.filter(b"BODY".to_vec(), None);
                    out.extend(filter.end(None));
                    out
                }
            };
            let log_true = action.should_log_request(true, c, None);
            let log_false = action.should_log_request(false, c, None);
            let mut applied: Vec<String> = action.get_applied_rule_ids().iter().cloned().collect();
            applied.sort();

            // expected headers
            let mut exp_headers: Vec<(String, String)> = vec![("X-Common".to_string(), "orig".to_string())];
            let mut exp_body = "BODY".to_string();
            let mut exp_applied: Vec<String> = Vec::new();
            for rule in &list {
                if !rule.admits(c) {
                    continue;
                }
                exp_applied.push(rule.id.clone());
                let mut filters = Vec::new();
                if let Some(target) = &rule.target {
                    if !target.is_empty() {
                        filters.push(("override".to_string(), "Location".to_string(), target.clone()));
                    }
                }
                if let Some(filter) = &rule.header {
                    filters.push(filter.clone());
                }
                for (action, name, value) in filters {
                    let found = exp_headers.iter().any(|(n, _)| n.eq_ignore_ascii_case(&name));
                    match action.as_str() {
                        "add" => exp_headers.push((name, value)),
                        "default" => {
                            if !found {
                                exp_headers.push((name, value))
                            }
                        }
                        _ => {
                            if found {
                                for h in exp_headers.iter_mut() {
                                    if h.0.eq_ignore_ascii_case(&name) {
                                        h.1 = value.clone();
                                    }
                                }
                            } else {
                                exp_headers.push((name, value));
                            }
                        }
                    }
                }
                if let Some(content) = &rule.body {
                    exp_body.push_str(content);
                }
            }
            exp_applied.sort();

            let got_headers: Vec<(String, String)> = headers.iter().map(|h| (h.name.clone(), h.value.clone())).collect();
            let mut problems = Vec::new();
            if got_headers != exp_headers {
                problems.push(format!("headers {got_headers:?} != {exp_headers:?}"));
            }
            if body != exp_body.as_bytes() {
                problems.push(format!("body {:?} != {exp_body:?}", String::from_utf8_lossy(&body)));
            }
            if applied != exp_applied {
                problems.push(format!("applied {applied:?} != {exp_applied:?}"));
            }

            // status: only when at most one conditional status carrier (other classes known / reported as F2)
            let carriers: Vec<&GenRule> = list.iter().filter(|r| r.status.unwrap_or(0) != 0).collect();
            if carriers.iter().filter(|r| r.conditional()).count() <= 1 {
                let expected = match carriers.last() {
                    None => Some(0),
                    Some(h) if !h.conditional() => Some(if c == 0 { h.status.unwrap() } else { 0 }),
                    Some(h) => {
                        if c == 0 {
                            if h.exclude.unwrap_or(false) { None } else { Some(0) } // F1 skipped
                        } else if h.admits(c) {
                            h.status
                        } else if carriers.len() >= 2 {
                            carriers[carriers.len() - 2].status
                        } else {
                            Some(0)
                        }
                    }
                };
                if let Some(expected) = expected {
                    compared_status += 1;
                    if expected != status {
                        problems.push(format!("status {status} != {expected}"));
                    }
                }
            }

            let loggers: Vec<&GenRule> = list.iter().filter(|r| r.log.is_some()).collect();
            if loggers.iter().filter(|r| r.conditional()).count() <= 1 {
                let expected = match loggers.last() {
                    None => None,
                    Some(h) if h.admits(c) => h.log,
                    Some(_) => {
                        if loggers.len() >= 2 {
                            loggers[loggers.len() - 2].log
                        } else {
                            None
                        }
                    }
                };
                compared_log += 1;
                if log_true != expected.unwrap_or(true) || log_false != expected.unwrap_or(false) {
                    problems.push(format!("log ({log_true},{log_false}) != {expected:?}"));
                }
            }

            if !problems.is_empty() {
                mismatches += 1;
                if mismatches <= 10 {
                    println!("MISMATCH c={c} override={sampling_override:?}\n  rules={jsons:#?}\n  {problems:#?}");
                }
            }
        }
    }

    println!("sweep: {cases} cases, status compared {compared_status}, log compared {compared_log}, mismatches {mismatches}");
    assert_eq!(mismatches, 0);
}

// ---------------------------------------------------------------------------------------------
// F5: TraceAction (rule-by-rule view of the same fold) orders rules of equal rank differently
// ---------------------------------------------------------------------------------------------
#[test]
fn f5_trace_action_tie_order() {
    use redirectionio::action::TraceAction;

    let mut differing = Vec::new();

    // the order TraceAction gives to equal ranks is the iteration order of the router's hash maps: it varies from
    // router to router, so try a few
    for (first, second) in [("a", "b"), ("b", "a")].into_iter().cycle().take(16) {
        let config = RouterConfig::default();
        let mut router = Router::<Rule>::from_config(config.clone());
        for id in [first, second] {
            let rule = format!(
                r#"{{"id":"{id}","rank":1,"source":{{"path":"/x"}},"status_code":301,"target":"/to-{id}","header_filters":[{{"action":"add","header":"X-Seen","value":"{id}"}}]}}"#
            );
            router.insert(serde_json::from_str::<Rule>(&rule).unwrap());
        }

        let request = Request::from_config(&config, "/x".to_string(), None, None, None, None, None);
        let mut action = Action::from_routes_rule(router.match_request(&request), &request, None);
        let headers = action.filter_headers(Vec::new(), 0, false, None);
        let location = header(&headers, "Location").unwrap();

        let traces = router.trace_request(&request);
        let trace_actions = TraceAction::from_trace_rules(&traces, &request);
        let json = serde_json::to_value(&trace_actions).unwrap();
        let order: Vec<String> = json.as_array().unwrap().iter().map(|t| t["rule"]["id"].as_str().unwrap().to_string()).collect();
        let mut last: Action = serde_json::from_value(json.as_array().unwrap().last().unwrap()["action"].clone()).unwrap();
        let trace_headers = last.filter_headers(Vec::new(), 0, false, None);
        let trace_location = header(&trace_headers, "Location").unwrap();

        println!("F5 inserted {first},{second}: action Location={location} headers={headers:?}; trace order={order:?} Location={trace_location}");

        if location != trace_location {
            differing.push((first, second));
        }
        assert_eq!(location, "/to-a", "from_routes_rule: rank desc, id desc => 'a' is applied last");
    }

    // with a stop on one of the tied rules the two folds do not even keep the same rules
    {
        let config = RouterConfig::default();
        let mut router = Router::<Rule>::from_config(config.clone());
        router.insert(serde_json::from_str::<Rule>(r#"{"id":"a","rank":1,"source":{"path":"/x"},"header_filters":[{"action":"add","header":"X-Seen","value":"a"}]}"#).unwrap());
        router.insert(serde_json::from_str::<Rule>(r#"{"id":"b","rank":1,"source":{"path":"/x"},"stop":true,"header_filters":[{"action":"add","header":"X-Seen","value":"b"}]}"#).unwrap());
        let request = Request::from_config(&config, "/x".to_string(), None, None, None, None, None);
        let mut action = Action::from_routes_rule(router.match_request(&request), &request, None);
        let headers = action.filter_headers(Vec::new(), 200, true, None);
        let trace_actions = TraceAction::from_trace_rules(&router.trace_request(&request), &request);
        let json = serde_json::to_value(&trace_actions).unwrap();
        let mut last: Action = serde_json::from_value(json.as_array().unwrap().last().unwrap()["action"].clone()).unwrap();
        let trace_headers = last.filter_headers(Vec::new(), 200, true, None);
        println!("F5 stop on b: action {:?} / trace {:?}", header(&headers, "X-RedirectionIo-RuleIds"), header(&trace_headers, "X-RedirectionIo-RuleIds"));
        assert_eq!(header(&headers, "X-RedirectionIo-RuleIds").as_deref(), Some("b"));
        if header(&trace_headers, "X-RedirectionIo-RuleIds").as_deref() != Some("b") {
            differing.push(("stop", "stop"));
        }
    }

    assert!(differing.is_empty(), "TraceAction disagrees with Action::from_routes_rule for insertion orders {differing:?}");
}

// ---------------------------------------------------------------------------------------------
// Borderline observations (printed, not asserted as defects)
// ---------------------------------------------------------------------------------------------
#[test]
fn borderline_observations() {
    // conditional reset resets for every code
    let low = r#"{"id":"low","rank":2,"source":{"path":"/x"},"header_filters":[{"action":"add","header":"X-Low","value":"1"}]}"#;
    let reset_404 = r#"{"id":"reset-404","rank":1,"source":{"path":"/x","response_status_codes":[404]},"reset":true,"header_filters":[{"action":"add","header":"X-Reset","value":"1"}]}"#;
    let mut action = action_for(&[low, reset_404], None);
    let headers = action.filter_headers(Vec::new(), 200, true, None);
    println!("B conditional reset at 200: {headers:?}");
    assert_eq!(headers.len(), 1);
    assert_eq!(headers[0].value, "");

    // two stacked resets: unit of the discarded reset rule stays in the trace
    let r1 = r#"{"id":"r1","rank":2,"source":{"path":"/x"},"reset":true,"configuration_reset_unit_id":"reset-unit-1"}"#;
    let r2 = r#"{"id":"r2","rank":1,"source":{"path":"/x"},"reset":true,"configuration_reset_unit_id":"reset-unit-2"}"#;
    let mut unit_trace = UnitTrace::default();
    let mut action = action_for_traced(&[r1, r2], &mut unit_trace);
    let headers = action.filter_headers(Vec::new(), 200, true, Some(&mut unit_trace));
    unit_trace.squash_with_target_unit_traces();
    println!("B stacked resets: rules {:?} units {:?}", header(&headers, "X-RedirectionIo-RuleIds"), unit_trace.get_unit_ids_applied());
    assert_eq!(header(&headers, "X-RedirectionIo-RuleIds").as_deref(), Some("r2"));
    assert!(unit_trace.get_unit_ids_applied().contains("reset-unit-1"));

    // unknown header action: nothing done, rule reported as applied all the same (also true of any rule without effect)
    let unknown = r#"{"id":"unknown","rank":1,"source":{"path":"/x"},"header_filters":[{"action":"frobnicate","header":"X-A","value":"1"}]}"#;
    let mut action = action_for(&[unknown], None);
    let headers = action.filter_headers(Vec::new(), 200, true, None);
    println!("B unknown header action: {headers:?}");
    assert_eq!(headers.len(), 1);
    assert_eq!(headers[0].value, "unknown");

    // unconditional status rule asked with a non-zero code only
    let always = r#"{"id":"always","rank":1,"source":{"path":"/x"},"status_code":301,"target":"/a"}"#;
    let mut action = action_for(&[always], None);
    assert_eq!(action.get_status_code(200, None), 0);
    assert_eq!(action.get_status_code(0, None), 301);

    // 'default' header action: the lower-priority rule wins
    let d_low = r#"{"id":"d-low","rank":2,"source":{"path":"/x"},"header_filters":[{"action":"default","header":"X-D","value":"low"}]}"#;
    let d_high = r#"{"id":"d-high","rank":1,"source":{"path":"/x"},"header_filters":[{"action":"default","header":"X-D","value":"high"}]}"#;
    let mut action = action_for(&[d_low, d_high], None);
    let headers = action.filter_headers(Vec::new(), 200, false, None);
    println!("B default/default: {headers:?}");
    assert_eq!(header(&headers, "X-D").as_deref(), Some("low"));
}
