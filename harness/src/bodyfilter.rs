//! Helpers shared by the body-filter checks (C03, C04, C14): running a filter chain over a chunk schedule,
//! classifying cut positions with the real tokenizer, the zones of known finding D7.
use crate::dom::{chunks, Schedule};
use redirectionio::api::BodyFilter;
use redirectionio::filter::FilterBodyAction;
use redirectionio::html::{TokenType, Tokenizer};
use redirectionio::http::Header;

pub struct RunResult {
    pub out: Vec<u8>,
    pub in_error: bool,
    pub created_empty: bool,
}

pub fn run_schedule(filters: &[serde_json::Value], headers: &[Header], body: &[u8], s: &Schedule) -> RunResult {
    let libf: Vec<BodyFilter> = filters.iter().filter_map(|f| serde_json::from_value(f.clone()).ok()).collect();
    let mut f = FilterBodyAction::new(libf, headers);
    let created_empty = f.is_empty();
    let mut out = Vec::new();
    for c in chunks(body, s) {
        out.extend(f.filter(c.to_vec(), None));
    }
    out.extend(f.end(None));
    RunResult { out, in_error: f.verif_in_error(), created_empty }
}

const RAW_TAGS: [&str; 10] = ["iframe", "noembed", "noframes", "noscript", "plaintext", "script", "style", "title", "textarea", "xmp"];

#[derive(Debug, Clone, PartialEq)]
pub enum Kind {
    Text,
    Tag,
    Comment,
    RawText,
    Cdata,
    /// the unread remainder of the body (an incomplete trailing token)
    Incomplete,
}

#[derive(Debug, Clone)]
pub struct Span {
    pub kind: Kind,
    pub start: usize,
    pub end: usize,
}

/// Token spans of the whole body according to the library's tokenizer (classification only).
pub fn spans(body: &[u8]) -> Vec<Span> {
    let mut tok = Tokenizer::new(body.to_vec());
    let mut out = Vec::new();
    let mut pos = 0usize;
    let mut raw_pending = false;
    for _ in 0..body.len() + 2 {
        let Ok(tt) = tok.next() else { break };
        let len = tok.raw().len();
        if tt == TokenType::ErrorToken {
            if len > 0 {
                out.push(Span { kind: Kind::Incomplete, start: pos, end: pos + len });
            }
            break;
        }
        let raw = tok.raw();
        let kind = match tt {
            TokenType::TextToken => {
                if raw_pending {
                    Kind::RawText
                } else if raw.starts_with(b"<![CDATA[") {
                    Kind::Cdata
                } else {
                    Kind::Text
                }
            }
            TokenType::CommentToken | TokenType::DoctypeToken => Kind::Comment,
            _ => Kind::Tag,
        };
        raw_pending = false;
        // (the tokenizer also enters raw-text mode after `<script/>`: the self-closing form counts)
        if tt == TokenType::StartTagToken || tt == TokenType::SelfClosingTagToken {
            if let Ok((Some(name), _)) = tok.tag_name() {
                if RAW_TAGS.contains(&name.as_str()) {
                    raw_pending = true;
                }
            }
        }
        out.push(Span { kind, start: pos, end: pos + len });
        pos += len;
    }
    out
}

/// Cut positions affected by known finding D7: strictly inside a comment / doctype / CDATA token, or anywhere from the
/// end of a raw-text start tag up to (excluding) the end of the end tag that closes it - provided the comment / raw text
/// contains something that reads as markup once the context is lost (otherwise the loss is harmless and the cut is tested).
/// Does re-reading these bytes as ordinary markup differ from reading them as comment / raw text?
/// Only when they contain a '<' that can open a tag, an end tag, a declaration or a processing instruction.
fn tag_like(content: &[u8]) -> bool {
    content.windows(2).any(|w| w[0] == b'<' && (w[1].is_ascii_alphabetic() || w[1] == b'/' || w[1] == b'!' || w[1] == b'?'))
}

/// The texts of the D7 zones of a stream (comments / CDATA / raw text that contain something tag-like), sorted.
pub fn d7_zone_texts(body: &[u8]) -> Vec<Vec<u8>> {
    let mut v: Vec<Vec<u8>> = spans(body)
        .iter()
        .filter(|s| match s.kind {
            Kind::Comment | Kind::Cdata => tag_like(&body[(s.start + 1).min(s.end)..s.end]),
            Kind::RawText => tag_like(&body[s.start..s.end]),
            _ => false,
        })
        .map(|s| body[s.start..s.end].to_vec())
        .collect();
    v.sort();
    v
}

/// D7 also bites in the later stages of a filter chain: stage k tokenises the output of the stages before it chunk by
/// chunk. When an earlier filter puts markup inside a comment or raw-text element (a value with tags appended to
/// `<title>`), the input of stage k has a D7 zone that the body does not have, at boundaries no schedule can steer.
/// True when some stage input (computed on the whole body) has a zone that the body lacks.
pub fn d7_zone_created_by_chain(filters: &[serde_json::Value], headers: &[Header], body: &[u8]) -> bool {
    if filters.len() < 2 {
        return false;
    }
    let base = d7_zone_texts(body);
    (1..filters.len()).any(|k| {
        let inter = run_schedule(&filters[..k], headers, body, &Schedule::Whole).out;
        let mut left = base.clone();
        d7_zone_texts(&inter).into_iter().any(|z| match left.iter().position(|b| *b == z) {
            Some(i) => {
                left.swap_remove(i);
                false
            }
            None => true,
        })
    })
}

pub fn d7_zone(body: &[u8]) -> Vec<bool> {
    let sp = spans(body);
    let mut z = vec![false; body.len() + 1];
    for (i, s) in sp.iter().enumerate() {
        match s.kind {
            Kind::Comment | Kind::Cdata => {
                // the finding needs markup inside the comment: losing the context of `<!-- plain -->` changes nothing
                if !tag_like(&body[(s.start + 1).min(s.end)..s.end]) {
                    continue;
                }
                for c in s.start + 1..s.end {
                    z[c] = true;
                }
            }
            Kind::RawText => {
                if !tag_like(&body[s.start..s.end]) {
                    continue;
                }
                // from the end of the start tag (= start of this token) ...
                let from = s.start;
                // ... to the end of the following end tag, or the end of the body
                // (when the end tag is missing or incomplete the zone reaches the very end: an empty chunk after the
                // whole body re-tokenises the held-back raw text without its context)
                let to = match sp.get(i + 1) {
                    Some(n) if n.kind != Kind::Incomplete => n.end,
                    _ => body.len() + 1,
                };
                for c in from..to.min(body.len() + 1) {
                    z[c] = true;
                }
            }
            _ => {}
        }
    }
    // (cuts directly after a raw-text start tag are covered above: the zone starts at the start of the raw text)
    if true {
        return z;
    }
    let mut pos = 0;
    let mut tok = Tokenizer::new(body.to_vec());
    for _ in 0..body.len() + 2 {
        let Ok(tt) = tok.next() else { break };
        if tt == TokenType::ErrorToken {
            break;
        }
        pos += tok.raw().len();
        if tt == TokenType::StartTagToken || tt == TokenType::SelfClosingTagToken {
            if let Ok((Some(name), _)) = tok.tag_name() {
                if RAW_TAGS.contains(&name.as_str()) && pos <= body.len() {
                    z[pos] = true;
                }
            }
        }
    }
    z
}

/// class of a cut position: where does it fall?
pub fn cut_class(body: &[u8], sp: &[Span], c: usize) -> &'static str {
    if c == 0 || c >= body.len() {
        return "edge";
    }
    if std::str::from_utf8(&body[..c]).is_err() && (body[c] & 0xC0) == 0x80 {
        return "inside-multibyte-char";
    }
    for s in sp {
        if c > s.start && c < s.end {
            return match s.kind {
                Kind::Tag => {
                    // inside an attribute value?
                    let t = &body[s.start..c];
                    let dq = t.iter().filter(|b| **b == b'"').count();
                    let sq = t.iter().filter(|b| **b == b'\'').count();
                    if dq % 2 == 1 || sq % 2 == 1 {
                        "inside-attribute-value"
                    } else {
                        "inside-tag"
                    }
                }
                Kind::Text => "inside-text",
                Kind::Comment => "inside-comment",
                Kind::RawText => "inside-raw-text",
                Kind::Cdata => "inside-cdata",
                Kind::Incomplete => "inside-tag",
            };
        }
    }
    "token-boundary"
}

pub fn text_html() -> Vec<Header> {
    vec![Header { name: "Content-Type".into(), value: "text/html; charset=utf-8".into() }]
}
