//! C07 — no input makes the library panic (a panic aborts the host web server).
use crate::engine::*;
use crate::ffi;
use crate::gen::*;
use proptest::prelude::*;
use redirectionio::action::{Action, TraceAction};
use redirectionio::api::{
    ExplainRequestInput, ExplainRequestOutput, ExplainRequestProjectInput, ImpactInput, ImpactOutput, ImpactProjectInput, Log, Rule, TestExamplesInput, TestExamplesOutput, TestExamplesProjectInput, UnitIdsInput,
    UnitIdsOutput, UnitIdsProjectInput,
};
use redirectionio::http::{Addr, Header, Request};
use redirectionio::router::Router;
use redirectionio::RouterConfig;
use serde::{Deserialize, Serialize};
use serde_json::{json, Value};
use std::sync::Arc;

// ---------------------------------------------------------------------------------------------
// adversarial values
pub const BAD_REGEX: &[&str] = &[
    "", "(", ")", "[a-z", "(?P<x>a)", "a{1000}{1000}{1000}", "(a|b", "\\", "(?:(?:(?:(?:(?:a)))))", ".*", ".+", "(\\?.*)?$", "^(ES|FR)$", "[\\p{Ll}]+", "\\p{Zz}", "(?i)a", "a**", "(?<n>x)", "[[:alpha:]]+", "\\d+", "é+", "🤘", "(a)(b)(c)",
    "x{2,1}", "\u{0}", "a|", "|", "(?:)", "[^/]+", "(%[0-9A-Z]{2})+?",
    // groups (named or not) that a match may skip; parentheses inside character classes
    "(?:(?P<year>[0-9]{4})-)?[a-z]+", "(?P<opt>x)?[a-z0-9]+", "(a)?(?P<b>b)?[a-z]*", "[)a-z]+", "[(a-z]+", "(?P<n>[0-9]+)|[a-z]+",
];
/// instants that parse but sit at the edges of what the date formats can print
pub const EXTREME_INSTANTS: &[&str] = &[
    "+12000-01-01T00:00:00Z", "-0001-12-31T23:59:59Z", "+262142-12-31T23:59:59Z", "0000-01-01T00:00:00Z", "9999-12-31T23:59:59+00:00", "-262143-01-01T00:00:00Z", "2016-12-31T23:59:60Z", "1969-12-31T23:59:59.999999999-23:59", "2024-03-10T12:00:00Z",
];
/// Forwarded header values around the quoting rules
pub const FORWARDED: &[&str] = &[
    "for=\"", "by=x; FOR = \",198.51.100.17\"", "for=\"\"1.2.3.4\"\"", "for=;for;=;\"", "for=\"[", "for=\"[::1", "for=[::1]:x", "for=\"\"", "for=\"_x\";proto=\"", "=", ";", ",", "for", "FOR=\"[::1]:80\"", "for=1.2.3.4;for=\"", "proto=https;by=\";for=\"",
];
pub const BAD_OPTS: &[(&str, &str)] = &[("from", "5"), ("to", "2"), ("from", "-1"), ("to", "x"), ("from", "99999999999999999999"), ("to", "0"), ("from", "0"), ("to", "1"), ("something", ""), ("with", "é"), ("something", "a"), ("with", "@x"), ("from", "1"), ("to", "18446744073709551615")];
pub const BAD_STR: &[&str] = &[
    "", " ", "garbage", "not-an-ip", "999.1.1.1", "10.0.0.0/33", "::1/129", "2024-13-45T99:99:99Z", "24:00:00", "Funday", "GET ", "é", "\u{0}", "%", "%zz", "%e9", "a\u{202e}b", "/../..", "//", "http://", "mailto:a@b.c", "javascript:alert(1)",
    "ftp://x/y", "//host/path", "http://[::1]:99999/", "http://a b/", "?", "#", "/a#b", "http://example.com:8080/x?y#z", "data:text/html,<p>", "/@", "@", "@@", "@marker", "/\u{7f}",
];

#[derive(Serialize, Deserialize, Clone, Debug, PartialEq)]
pub struct Mutation {
    /// which node of the JSON tree (index into the pre-order list of pointers), scaled
    pub at: u16,
    /// 0 delete, 1 null, 2 number, 3 string, 4 array, 5 object, 6 big number, 7 bool, 8 negative number, 9 float
    pub kind: u8,
    pub pick: u16,
}

#[derive(Serialize, Deserialize, Clone, Debug, PartialEq)]
pub struct Case {
    pub base: RouterCase,
    /// adversarial substitutions applied to the rules JSON before deserialisation
    pub subst: Vec<(u16, u16, u16)>,
    pub mutations: Vec<Mutation>,
    /// extra raw requests: (uri, host, header name, header value)
    pub raw_requests: Vec<(String, Option<String>, String, String)>,
    pub body: crate::props::c16::Case,
    pub response_code: u16,
    pub cache: Option<u64>,
    #[serde(default)]
    pub hops: u8,
    #[serde(default)]
    pub domains: bool,
    /// picks the instant of the extra requests and their Forwarded value
    #[serde(default)]
    pub extreme: u16,
}

fn pointers(v: &Value, prefix: String, out: &mut Vec<String>) {
    match v {
        Value::Object(m) => {
            for (k, c) in m {
                let p = format!("{prefix}/{}", k.replace('~', "~0").replace('/', "~1"));
                out.push(p.clone());
                pointers(c, p, out);
            }
        }
        Value::Array(a) => {
            for (i, c) in a.iter().enumerate() {
                let p = format!("{prefix}/{i}");
                out.push(p.clone());
                pointers(c, p, out);
            }
        }
        _ => {}
    }
}

fn remove_pointer(root: &mut Value, ptr: &str) {
    if let Some((parent, last)) = ptr.rsplit_once('/') {
        if let Some(p) = root.pointer_mut(parent) {
            match p {
                Value::Object(m) => {
                    m.remove(&last.replace("~1", "/").replace("~0", "~"));
                }
                Value::Array(a) => {
                    if let Ok(i) = last.parse::<usize>() {
                        if i < a.len() {
                            a.remove(i);
                        }
                    }
                }
                _ => {}
            }
        }
    }
}

pub fn mutate_json(root: &mut Value, m: &Mutation) {
    let mut ps = Vec::new();
    pointers(root, String::new(), &mut ps);
    if ps.is_empty() {
        return;
    }
    let ptr = ps[(m.at as usize * ps.len()) >> 16].clone();
    let s = BAD_STR[(m.pick as usize) % BAD_STR.len()];
    let new = match m.kind % 10 {
        0 => {
            remove_pointer(root, &ptr);
            return;
        }
        1 => Value::Null,
        2 => json!(m.pick),
        3 => json!(s),
        4 => json!([s, m.pick, null]),
        5 => json!({"type": s, "name": s, "value": m.pick, "regex": s}),
        6 => json!(18446744073709551615u64),
        7 => json!(m.pick % 2 == 0),
        8 => json!(-(m.pick as i64) - 1),
        _ => json!(1.5e300),
    };
    if let Some(t) = root.pointer_mut(&ptr) {
        *t = new;
    }
}

/// adversarial substitutions inside otherwise well-formed rules
pub fn substitute_adversarial(rules: &mut [Value], subst: &[(u16, u16, u16)]) {
    if rules.is_empty() {
        return;
    }
    for (r, what, p) in subst {
        let rule = &mut rules[(*r as usize) % rules.len()];
        let s = BAD_STR[(*p as usize) % BAD_STR.len()];
        let re = BAD_REGEX[(*p as usize) % BAD_REGEX.len()];
        match what % 17 {
            0 => {
                // every marker gets an adversarial expression
                if let Some(ms) = rule["markers"].as_array_mut() {
                    for m in ms {
                        m["regex"] = json!(re);
                    }
                } else {
                    rule["markers"] = json!([{"name": "id", "regex": re}]);
                    rule["source"]["path"] = json!("/foo/@id");
                    rule["target"] = json!("/t/@id");
                    rule["examples"] = json!([{"url": "/foo/abc", "must_match": true, "unit_ids_applied": null}, {"url": "/foo/2024-abc", "must_match": true, "unit_ids_applied": null}, {"url": "/foo/42", "must_match": true, "unit_ids_applied": null}]);
                }
            }
            1 => {
                let (k1, v1) = BAD_OPTS[(*p as usize) % BAD_OPTS.len()];
                let (k2, v2) = BAD_OPTS[(*p as usize / 3 + 1) % BAD_OPTS.len()];
                let kind = ["slice", "replace", "camelize", "dasherize", "underscorize", "uppercase", "lowercase", "nope"][(*p as usize) % 8];
                let t = json!([{"type": kind, "options": {k1: v1, k2: v2}}, {"type": "slice", "options": {"from": v1, "to": v2}}]);
                if let Some(ms) = rule["markers"].as_array_mut() {
                    for m in ms {
                        m["transformers"] = t.clone();
                    }
                } else {
                    rule["markers"] = json!([{"name": "any", "regex": "(?:.+?)", "transformers": t}]);
                    rule["source"]["path"] = json!("/@any");
                    rule["target"] = json!("/t/@any");
                }
            }
            2 => rule["source"]["ips"] = json!([{"in_range": s}, {"not_in_range": s}, {"in_range": "10.0.0.0/8"}]),
            3 => rule["source"]["datetime"] = json!([[s, null], [null, s], [s, s]]),
            4 => rule["source"]["time"] = json!([[s, "12:00:00"], ["25:61:61", s]]),
            5 => rule["source"]["weekdays"] = json!([s, "Mon", s]),
            6 => rule["source"]["methods"] = json!([s, "GET", ""]),
            7 => rule["source"]["headers"] = json!([{"type": s, "name": s, "value": s}, {"type": "match_regex", "name": "X-A", "value": format!("{s}@id")}, {"type": "contains", "name": "", "value": null}]),
            8 => rule["target"] = json!(s),
            9 => rule["source"]["host"] = json!(format!("{s}@sub")),
            10 => rule["source"]["path"] = json!(format!("/{s}@id{s}")),
            11 => rule["source"]["query"] = json!(format!("{s}=@id&{s}&&==&a=%zz&%=%")),
            12 => {
                let sampling = [0u64, 1, 50, 99, 100, 101, 4294967295u64][(*p as usize) % 7];
                let rank = [0u64, 1, 65535][(*p as usize) % 3];
                rule["source"]["sampling"] = json!(sampling);
                rule["rank"] = json!(rank);
            }
            13 => {
                rule["variables"] = json!([
                    {"name": "v", "type": {"marker": s}, "transformers": [{"type": "slice", "options": {"from": "3", "to": "1"}}]},
                    {"name": "", "type": "request_host"},
                    {"name": "h", "type": {"request_header": {"name": s, "default": null}}},
                    {"name": "t", "type": "request_time", "transformers": [{"type": "slice", "options": {"from": "2", "to": "900"}}, {"type": "camelize", "options": null}]},
                    {"name": "p", "type": "request_path", "transformers": [{"type": "replace", "options": {"something": "/", "with": "@p"}}]},
                    {"name": "a", "type": "request_remote_address"}, {"name": "m", "type": "request_method"}, {"name": "s", "type": "request_scheme"}
                ]);
                rule["target"] = json!("/@v/@/@h@t/@p@p/@a@m@s");
                if p % 2 == 0 {
                    // the rule matches /foo and carries an example at an instant the date formats may not print
                    rule["source"] = json!({"path": "/foo"});
                    rule["status_code"] = json!(302);
                    rule["examples"] = json!([{"url": "/foo", "must_match": true, "unit_ids_applied": null, "datetime": EXTREME_INSTANTS[(*p as usize / 2) % EXTREME_INSTANTS.len()]}]);
                }
            }
            14 => {
                let sel = [":::", "[", "a[b='", "\\", ":not(", "*|*", ":nth-child(99999999999999999999)", "é", "a > > b", ""][(*p as usize) % 10];
                rule["body_filters"] = json!([
                    {"action": "append_child", "value": s, "inner_value": null, "element_tree": ["html", "body"], "css_selector": sel, "id": s, "target_hash": null},
                    {"action": s, "value": s, "element_tree": [], "css_selector": null},
                    {"action": "replace", "value": "<html>", "element_tree": [s, "", "html"], "css_selector": "html"},
                    {"action": "prepend_text", "content": s},
                    {"action": "append_child", "value": s, "inner_value": null, "element_tree": [""], "css_selector": null},
                    {"action": "prepend_child", "value": s, "inner_value": null, "element_tree": [" ", ""], "css_selector": sel},
                    {"action": "replace", "value": s, "inner_value": null, "element_tree": ["\t"], "css_selector": null},
                ]);
            }
            15 => {
                // a redirect chain scenario: the examples match the rule, the target is followed by the loop analysis
                let targets = ["mailto:a@b.c", "/foo", "/bar", "http://example.com/foo", "//example.org/x", "javascript:alert(1)", "data:text/html,x", "http://[::1]/", "ftp://x/y", "?q=1", "#frag", "http://other.test/foo", "http://example.com:99999/", "http://a b/", "/@id", ""];
                rule["source"] = json!({"path": "/foo"});
                rule["status_code"] = json!([301, 302, 307, 308][(*p as usize) % 4]);
                rule["target"] = json!(targets[(*p as usize / 4) % targets.len()]);
                rule["examples"] = json!([
                    {"url": "/foo", "method": "POST", "must_match": true, "unit_ids_applied": []},
                    {"url": "http://example.com/foo", "must_match": true, "unit_ids_applied": [], "response_status_code": 404},
                    {"url": "https://other.test/foo?a=1", "must_match": false, "unit_ids_applied": null},
                ]);
            }
            _ => {
                rule["examples"] = json!([
                    {"url": s, "method": s, "headers": [{"name": s, "value": s}], "datetime": s, "ip_address": s, "response_status_code": p, "must_match": true, "unit_ids_applied": [s]},
                    {"url": format!("http://example.com/{s}"), "method": null, "headers": null, "ip_address": null, "response_status_code": null, "must_match": false, "unit_ids_applied": []},
                    {"url": "/foo", "must_match": true, "unit_ids_applied": null, "ip_address": "10.1.2.3", "datetime": EXTREME_INSTANTS[(*p as usize) % EXTREME_INSTANTS.len()]},
                    {"url": "/foo/abc", "must_match": true, "unit_ids_applied": null},
                ]);
            }
        }
    }
}

macro_rules! guard {
    ($out:expr, $label:expr, $e:expr) => {
        match catch(|| $e) {
            Ok(v) => Some(v),
            Err(p) => {
                $out.fail(format!("{} panicked: {}", $label, p));
                None
            }
        }
    };
}

/// The whole pipeline on one rule set / request / response, every public call guarded.
pub fn pipeline(out: &mut Outcome, cfg: &RouterConfig, rules: &[Rule], requests: &[Request], body: &[u8], code: u16, cache: Option<u64>) {
    let Some(mut router) = guard!(out, "Router::insert", {
        let mut r = Router::<Rule>::from_config(cfg.clone());
        for rule in rules {
            r.insert(rule.clone());
        }
        r
    }) else {
        return;
    };
    // round 4: in half of the cases a second router is derived from the first (as `RuleChangeSet::update_existing_router` does
    // with a live router) and both are warmed up while the other is alive
    let derived = if code % 2 == 0 { Some(router.clone()) } else { None };
    if guard!(out, "Router::cache", router.cache(cache)).is_none() {
        return;
    }
    if let Some(mut derived) = derived {
        if guard!(out, "Router::cache (router derived from a live one)", derived.cache(cache)).is_none() {
            return;
        }
        if let Some(raw) = requests.first() {
            if guard!(out, "Router::match_request (derived router)", derived.match_request(&derived.rebuild_request(raw)).len()).is_none() {
                return;
            }
        }
    }
    for raw in requests {
        let Some(req) = guard!(out, "Router::rebuild_request", router.rebuild_request(raw)) else { return };
        let Some(matched) = guard!(out, "Router::match_request", router.match_request(&req)) else { return };
        let Some(traces) = guard!(out, "Router::trace_request", router.trace_request(&req)) else { return };
        if guard!(out, "Router::get_trace (serialised)", serde_json::to_string(&router.get_trace(&req)).map(|s| s.len()).unwrap_or(0)).is_none() {
            return;
        }
        if guard!(out, "Router::get_route", router.get_route(&req).map(|r| r.priority())).is_none() {
            return;
        }
        if guard!(out, "TraceAction::from_trace_rules", TraceAction::from_trace_rules(&traces, &req).len()).is_none() {
            return;
        }
        for r in &matched {
            if guard!(out, "Action::get_target", Action::get_target(r, &req)).is_none() {
                return;
            }
            if guard!(out, "Route::capture", r.capture(&req)).is_none() {
                return;
            }
        }
        let n_matched = matched.len();
        let Some(mut action) = guard!(out, "Action::from_routes_rule", Action::from_routes_rule(matched, &req, None)) else { return };
        if n_matched > 0 {
            out.nontrivial = true;
            out.class("matched+applied");
        }
        let ok = guard!(out, "proxy call order on the action", {
            let s0 = action.get_status_code(0, None);
            let backend = if s0 != 0 { s0 } else { code };
            let fin = if s0 != 0 { s0 } else { action.get_status_code(code, None) };
            let headers = action.filter_headers(vec![Header { name: "Content-Type".into(), value: "text/html".into() }, Header { name: "Location".into(), value: "/x".into() }], backend, true, None);
            if let Some(mut f) = action.create_filter_body(backend, &headers) {
                let mid = body.len() / 2;
                let mut o = f.filter(body[..mid].to_vec(), None);
                o.extend(f.filter(body[mid..].to_vec(), None));
                o.extend(f.end(None));
            }
            let log = action.should_log_request(true, fin, None);
            let l = Log::from_proxy(&req, fin, &headers, Some(&action), "proxy", 0, "10.1.2.3, garbage");
            // round 4 (source coverage showed these two public entry points unexecuted): the legacy log record built from the raw
            // request parts, and the header map built from the raw request headers (names that are no header names included)
            let legacy: Option<redirectionio::api::LegacyLog> = serde_json::from_value(serde_json::json!({
                "status_code": fin, "host": raw.host, "method": raw.method, "request_uri": raw.path_and_query_skipped.original, "user_agent": raw.headers.first().map(|h| h.value.clone()),
                "referer": raw.headers.last().map(|h| h.name.clone()), "scheme": raw.scheme, "use_json": true, "target": raw.headers.first().map(|h| h.value.clone()), "rule_id": null,
            })).ok();
            let ll = legacy.map(|x| serde_json::to_string(&Log::from_legacy(x, "proxy".to_string())).map(|s| s.len()).unwrap_or(0)).unwrap_or(0);
            let hm = Header::create_header_map(raw.headers.iter().map(|h| Header { name: h.name.clone(), value: h.value.clone() }).collect()).len();
            (log, serde_json::to_string(&l).map(|s| s.len()).unwrap_or(0) + ll + hm, serde_json::to_string(&action).map(|s| s.len()).unwrap_or(0))
        });
        if ok.is_none() {
            return;
        }
    }
}

pub fn analyses(out: &mut Outcome, cfg: &Value, rules: &[Value], hops: u8, domains: &[String]) {
    // stand-alone variants: from JSON, as the API server receives them
    let te = json!({"router_config": cfg, "rules": rules, "max_hops": hops, "project_domains": domains});
    if let Ok(input) = serde_json::from_value::<TestExamplesInput>(te) {
        out.class("test-examples");
        if guard!(out, "TestExamplesOutput::create_result_without_project", serde_json::to_string(&TestExamplesOutput::create_result_without_project(input)).map(|s| s.len()).unwrap_or(0)).is_none() {
            return;
        }
    }
    let ui = json!({"router_config": cfg, "rules": rules});
    if let Ok(input) = serde_json::from_value::<UnitIdsInput>(ui) {
        if guard!(out, "UnitIdsOutput::create_result_without_project", serde_json::to_string(&UnitIdsOutput::create_result_without_project(input)).map(|s| s.len()).unwrap_or(0)).is_none() {
            return;
        }
    }
    let examples: Vec<Value> = rules.iter().filter_map(|r| r["examples"].as_array().cloned()).flatten().collect();
    for ex in examples.iter().take(4) {
        let er = json!({"router_config": cfg, "example": ex, "rules": rules, "max_hops": hops, "project_domains": domains});
        if let Ok(input) = serde_json::from_value::<ExplainRequestInput>(er) {
            out.class("explain");
            if guard!(out, "ExplainRequestOutput::create_result_without_project", ExplainRequestOutput::create_result_without_project(input).map(|o| serde_json::to_string(&o).map(|s| s.len()).unwrap_or(0)).unwrap_or(0)).is_none() {
                return;
            }
        }
    }
    if let Some(rule) = rules.first() {
        for action in ["add", "update", "delete", "garbage"] {
            let im = json!({"router_config": cfg, "max_hops": hops, "with_redirection_loop": true, "domains": domains, "rule": rule, "action": action, "rules": rules});
            if let Ok(input) = serde_json::from_value::<ImpactInput>(im) {
                out.class("impact");
                if guard!(out, "ImpactOutput::create_result", serde_json::to_string(&ImpactOutput::create_result(input)).map(|s| s.len()).unwrap_or(0)).is_none() {
                    return;
                }
            }
        }
    }
    // project variants: existing router + change-set
    let Ok(config) = serde_json::from_value::<RouterConfig>(cfg.clone()) else { return };
    let parsed: Vec<Rule> = rules.iter().filter_map(|r| serde_json::from_value::<Rule>(r.clone()).ok()).collect();
    if parsed.is_empty() {
        return;
    }
    let half = parsed.len() / 2;
    let Some(existing) = guard!(out, "Router build (project)", {
        let mut r = Router::<Rule>::from_config(config.clone());
        for rule in &parsed[..half] {
            r.insert(rule.clone());
        }
        Arc::new(r)
    }) else {
        return;
    };
    let change_set = json!({"added": rules[half..], "updated": rules[..half.min(1)], "deleted": [parsed[0].id.clone(), "no-such-id"]});
    if let Ok(input) = serde_json::from_value::<TestExamplesProjectInput>(json!({"change_set": change_set, "max_hops": hops, "project_domains": domains})) {
        if guard!(out, "TestExamplesOutput::from_project", serde_json::to_string(&TestExamplesOutput::from_project(input, existing.clone())).map(|s| s.len()).unwrap_or(0)).is_none() {
            return;
        }
    }
    if let Ok(input) = serde_json::from_value::<UnitIdsProjectInput>(json!({"change_set": change_set})) {
        if guard!(out, "UnitIdsOutput::create_result_from_project", serde_json::to_string(&UnitIdsOutput::create_result_from_project(input, existing.clone())).map(|s| s.len()).unwrap_or(0)).is_none() {
            return;
        }
    }
    for ex in examples.iter().take(3) {
        if let Ok(input) = serde_json::from_value::<ExplainRequestProjectInput>(json!({"example": ex, "change_set": change_set, "max_hops": hops, "project_domains": domains})) {
            if guard!(out, "ExplainRequestOutput::create_result_from_project", ExplainRequestOutput::create_result_from_project(input, existing.clone()).map(|o| serde_json::to_string(&o).map(|s| s.len()).unwrap_or(0)).unwrap_or(0)).is_none() {
                return;
            }
        }
    }
    if let Some(rule) = rules.last() {
        if let Ok(input) = serde_json::from_value::<ImpactProjectInput>(json!({"max_hops": hops, "with_redirection_loop": true, "domains": domains, "rule": rule, "action": "update", "change_set": change_set})) {
            if guard!(out, "ImpactOutput::from_impact_project", serde_json::to_string(&ImpactOutput::from_impact_project(input, existing.clone())).map(|s| s.len()).unwrap_or(0)).is_none() {
                return;
            }
        }
    }
}

pub fn check(case: &Case) -> Outcome {
    let mut out = Outcome::new();
    // ---- wire JSON: well-formed rules, adversarial substitutions, structural mutations ----
    let mut rules: Vec<Value> = case.base.rules.iter().map(|r| serde_json::to_value(r).unwrap()).collect();
    substitute_adversarial(&mut rules, &case.subst);
    let mut cfg_v = serde_json::to_value(&case.base.config).unwrap();
    let mut doc = json!({"rules": rules, "config": cfg_v});
    for m in &case.mutations {
        mutate_json(&mut doc, m);
    }
    let rules: Vec<Value> = doc["rules"].as_array().cloned().unwrap_or_default();
    cfg_v = doc["config"].clone();
    let cfg: RouterConfig = match guard!(out, "RouterConfig deserialise", serde_json::from_value::<RouterConfig>(cfg_v.clone())) {
        Some(Ok(c)) => c,
        Some(Err(_)) => {
            out.class("rejected:config");
            case.base.config.to_lib()
        }
        None => return out,
    };
    let mut parsed: Vec<Rule> = Vec::new();
    for r in &rules {
        let s = r.to_string();
        match guard!(out, "Rule::from_json", Rule::from_json(&s)) {
            Some(Some(rule)) => parsed.push(rule),
            Some(None) => out.class("rejected:rule"),
            None => return out,
        }
    }
    // ---- requests ----
    let mut requests: Vec<Request> = case.base.requests.iter().map(|q| q.raw()).collect();
    for (uri, host, hn, hv) in &case.raw_requests {
        let Some(r) = guard!(out, "Request::new/from_config", {
            let mut r = Request::from_config(&cfg, uri.clone(), host.clone(), Some("https".into()), None, None, None);
            r.add_header(hn.clone(), hv.clone(), false);
            r.add_header("Forwarded".into(), hv.clone(), false);
            r.add_header("X-Forwarded-For".into(), hv.clone(), false);
            r
        }) else {
            return out;
        };
        requests.push(r);
        if guard!(out, "Request::from_str", uri.parse::<Request>().is_ok()).is_none() {
            return out;
        }
        if guard!(out, "Addr::from_str", hv.parse::<Addr>().map(|a| a.to_string()).ok()).is_none() {
            return out;
        }
    }
    // fixed probes of the marker substitutions, at an instant and with a Forwarded value picked by the case
    for (i, uri) in ["/foo/abc", "/foo/2024-abc", "/foo"].iter().enumerate() {
        let mut r = Request::from_config(&cfg, uri.to_string(), None, None, None, None, None);
        r.created_at = crate::spec::parse_instant(EXTREME_INSTANTS[(case.extreme as usize + i) % EXTREME_INSTANTS.len()]);
        r.add_header("Forwarded".into(), FORWARDED[(case.extreme as usize / 8 + i) % FORWARDED.len()].to_string(), false);
        requests.push(r);
    }
    let body = case.body.input();
    pipeline(&mut out, &cfg, &parsed, &requests, &body, case.response_code, case.cache);
    if out.failed() {
        return out;
    }
    let hops = case.hops;
    let domains: Vec<String> = if case.domains { vec!["example.com".into(), "example.org".into()] } else { vec![] };
    analyses(&mut out, &if serde_json::from_value::<RouterConfig>(cfg_v.clone()).is_ok() { cfg_v } else { serde_json::to_value(&case.base.config).unwrap() }, &rules, hops, &domains);
    out
}

pub fn strategy() -> BoxedStrategy<Case> {
    let raw_req = (
        prop_oneof![3 => "/[ -~]{0,24}", 1 => "\\PC{0,16}", 1 => pick(BAD_STR.iter().map(|s| s.to_string()).collect()), 1 => Just("/".repeat(3000)), 1 => "/[a-z%?&=+#;]{0,40}",
            // long runs of multi-byte characters at every alignment, in targets the URL parser accepts or refuses: any cut at
            // a fixed byte offset falls inside a character for some of them
            2 => (pick(vec!["", "/", "`", "http://h/", "/`"]), 0usize..5, pick(vec!["\u{e9}", "\u{65e5}", "\u{1f918}"]), 30usize..300).prop_map(|(pre, k, ch, n)| format!("{pre}{}{}", "a".repeat(k), ch.repeat(n)))],
        prop::option::of(prop_oneof!["[a-zA-Z.:\\[\\]0-9-]{0,20}", "\\PC{0,8}"]),
        prop_oneof![Just("X-A".to_string()), Just("User-Agent".to_string()), Just("X-Forwarded-For".to_string()), Just("Forwarded".to_string()), "[ -~]{0,10}"],
        prop_oneof![3 => "[ -~]{0,30}", 1 => Just("for=\"[::1]:80\";proto=https, for=unknown;by=_hidden,for=1.2.3.4".to_string()), 1 => Just("1.2.3.4, garbage, ::1, [::1]:8080".to_string()), 1 => "\\PC{0,12}", 2 => pick(FORWARDED.iter().map(|s| s.to_string()).collect())],
    );
    let body = prop_oneof![
        2 => crate::dom::soup_strategy(20).prop_map(|s| crate::props::c16::Case::from_bytes(s.into_bytes())),
        1 => prop::collection::vec(any::<u8>(), 0..60).prop_map(crate::props::c16::Case::from_bytes),
        1 => Just(crate::props::c16::Case::from_bytes(b"<html><head><title>t</title></head><body><p>x</p></body></html>".to_vec())),
    ];
    (
        router_case_strategy(RuleOpts::FULL, 6, 2, 4),
        prop::collection::vec((any::<u16>(), any::<u16>(), any::<u16>()), 0..5),
        prop::collection::vec((any::<u16>(), 0u8..10, any::<u16>()).prop_map(|(at, kind, pick)| Mutation { at, kind, pick }), 0..3),
        prop::collection::vec(raw_req, 0..3),
        body,
        pick(vec![0u16, 200, 301, 404, 500, 65535]),
        pick(vec![None, Some(0u64), Some(1), Some(3), Some(1000)]),
        (pick(vec![0u8, 1, 2, 5, 255]), any::<bool>(), any::<u16>()),
    )
        .prop_map(|(base, subst, mutations, raw_requests, body, response_code, cache, (hops, domains, extreme))| Case { base, subst, mutations, raw_requests, body, response_code, cache, hops, domains, extreme })
        .boxed()
}

// ---------------------------------------------------------------------------------------------
// crash-prone parts run in child processes (rio-probe): FFI null matrix, long raw-text elements
#[derive(Serialize, Deserialize, Clone, Debug, PartialEq)]
pub struct ProbeCase {
    /// "ffi-null" | "script" | "nested" | "loginit" | "selector"
    pub kind: String,
    /// ffi-null: index of the combination ; script: variant of the script content
    pub index: u32,
    /// script: length in bytes
    pub len: u64,
    /// "release" (optimised, as the checks) or "unoptimised"
    pub profile: String,
    /// stack limit of the thread running the case, KiB
    pub stack_kib: u64,
}

pub const D12: &str = "d12-script-recursion-stack-overflow-unoptimised";

pub fn probe_path(profile: &str) -> std::path::PathBuf {
    let dir = std::env::var("CARGO_TARGET_DIR").unwrap_or_else(|_| "/verif/work/target".into());
    std::path::Path::new(&dir).join(if profile == "unoptimised" { "probe" } else { "release" }).join("rio-probe")
}

/// Run one probe case in a child process. Ok(()) = returned normally, Err = how it died.
pub fn run_probe(c: &ProbeCase) -> Result<(), String> {
    use std::process::{Command, Stdio};
    let exe = probe_path(&c.profile);
    if !exe.exists() {
        return Err(format!("INFRA: {} is missing (run ./check --setup)", exe.display()));
    }
    let mut child = Command::new(&exe)
        .args([c.kind.as_str(), &c.index.to_string(), &c.len.to_string(), &c.stack_kib.to_string()])
        .stdout(Stdio::piped())
        .stderr(Stdio::piped())
        .spawn()
        .map_err(|e| format!("INFRA: cannot spawn probe: {e}"))?;
    // two-stage watchdog: generous limit, a hang is reported as infrastructure trouble by the caller
    let start = std::time::Instant::now();
    loop {
        match child.try_wait() {
            Ok(Some(status)) => {
                let outp = child.wait_with_output().ok();
                let tail = outp.map(|o| String::from_utf8_lossy(&o.stderr).lines().rev().take(3).collect::<Vec<_>>().join(" | ")).unwrap_or_default();
                return if status.success() {
                    Ok(())
                } else {
                    use std::os::unix::process::ExitStatusExt;
                    Err(format!("child died: code {:?} signal {:?}: {}", status.code(), status.signal(), tail))
                };
            }
            Ok(None) => {
                if start.elapsed().as_secs() > 120 {
                    let _ = child.kill();
                    return Err("INFRA: probe exceeded 120 s".to_string());
                }
                std::thread::sleep(std::time::Duration::from_millis(5));
            }
            Err(e) => return Err(format!("INFRA: wait failed: {e}")),
        }
    }
}

pub fn check_probe(c: &ProbeCase) -> Outcome {
    let mut out = Outcome::new();
    match run_probe(c) {
        Ok(()) => {}
        Err(e) if e.starts_with("INFRA:") => out.fail(e),
        Err(e) => out.fail(format!("{} case #{} (len {}, {} build, {} KiB stack): {e}", c.kind, c.index, c.len, c.profile, c.stack_kib)),
    }
    out.nontrivial = true;
    out.distinct_by_construction = true;
    out
}

pub const D34: &str = "d34-nested-prefix-recursion-stack-overflow-unoptimised";

pub fn is_d34(c: &ProbeCase, msg: &str) -> bool {
    c.kind == "nested" && c.profile == "unoptimised" && c.len > 300 && msg.contains("signal")
}

pub fn is_d12(c: &ProbeCase, msg: &str) -> bool {
    c.kind == "script" && c.profile == "unoptimised" && c.len >= 4096 && msg.contains("signal")
}

pub fn run(ctx: &Ctx) -> Report {
    let mut rep = Report::new(
        "C07",
        "pipelines: case = generated router case (C01 pools, full actions) whose rules JSON gets adversarial substitutions (marker expressions: invalid / huge repetition / nested / empty; transformer options: from>to, beyond length, negative, non-numeric; unknown header kinds; garbage CIDR / date / weekday / method / target with every URL scheme; variables of every kind; weird CSS selectors; garbage examples; limits of sampling and rank) \
         and 0..2 structure-aware mutations (delete / retype a field at a generated JSON pointer), raw requests (arbitrary URI / host / Forwarded headers), a response body (soup or bytes); every public entry point is called under catch_unwind: deserialise, router build, cache, rebuild, match, trace, get_trace, get_route, TraceAction, get_target, capture, action, proxy call order incl. body filtering, Log::from_proxy, Log::from_legacy and Header::create_header_map, \
         then the four analyses in their stand-alone and project variants, Request::from_str, Addr parsing; probes (child processes): every null / non-null argument pattern of the extern C functions (exhaustive), long raw-text elements (1 B .. 8 MiB, 6 script variants) in the optimised and in the unoptimised build under a 2 MiB stack; \
         oracle = every call returns normally (no unwind, child survives, no watchdog); non-trivial = the input deserialised, >=1 rule matched and the action was applied, or a probe ran; distinct by case hash / by construction",
    );
    rep.assume("the NULL matrix leaves out the data argument of redirectionio_log_init_with_callback (a Rust reference); the logger initialisers themselves are probed, twice in every order, in child processes; termination is a bounded observation (120 s watchdog per probe, reported as infrastructure trouble, never as a violation)");
    rep.add(run_part(ctx, "pipelines", ctx.cases(100_000, 3_000_000), strategy, check, &[]));
    if rep.has_violation() {
        return rep;
    }
    // ---- probes in child processes ----
    let mut probes: Vec<ProbeCase> = Vec::new();
    for i in 0..crate::props::c18::null_matrix_len() {
        probes.push(ProbeCase { kind: "ffi-null".into(), index: i, len: 0, profile: "release".into(), stack_kib: 8192 });
    }
    let d12_listed = crate::known::is_listed("C07", D12);
    let sizes: &[u64] = if ctx.tier == Tier::Quick { &[1, 100, 3000, 100_000, 1 << 20] } else { &[1, 10, 100, 1000, 3000, 10_000, 100_000, 1 << 20, 8 << 20] };
    for variant in 0..6u32 {
        for &len in sizes {
            probes.push(ProbeCase { kind: "script".into(), index: variant, len, profile: "release".into(), stack_kib: 2048 });
            // the unoptimised build recurses once per script byte (known finding D12): only short scripts while it is listed
            if !d12_listed || len < 4096 {
                probes.push(ProbeCase { kind: "script".into(), index: variant, len, profile: "unoptimised".into(), stack_kib: 2048 });
            }
        }
    }
    // routers whose patterns are nested prefixes of one another (path / host): one tree level, and one stack frame of
    // insert / find / trace / cache / remove, per rule (known finding D34 in the unoptimised build)
    let d34_listed = crate::known::is_listed("C07", D34);
    let nested: &[u64] = if ctx.tier == Tier::Quick { &[10, 300, 1000] } else { &[10, 300, 1000, 2000] };
    for variant in 0..2u32 {
        for &len in nested {
            probes.push(ProbeCase { kind: "nested".into(), index: variant, len, profile: "release".into(), stack_kib: 2048 });
            if !d34_listed || len <= 300 {
                probes.push(ProbeCase { kind: "nested".into(), index: variant, len, profile: "unoptimised".into(), stack_kib: 2048 });
            }
        }
    }
    // css selectors nested 1 .. 5000 levels deep (the selector parser of the scraper crate recurses once per level)
    for variant in 0..2u32 {
        for len in [1u64, 30, 40, 200, 1500, 5000] {
            for profile in ["release", "unoptimised"] {
                probes.push(ProbeCase { kind: "selector".into(), index: variant, len, profile: profile.into(), stack_kib: 2048 });
            }
        }
    }
    // css selectors that are chains of 1 .. 50000 sibling / descendant combinators over a body matching them link by link (selector
    // matching recurses once per combinator; the descendant variant also nests the body, which the tree builder bounds itself)
    for variant in 2..4u32 {
        for len in [1u64, 100, 128, 2000, 10_000, 50_000] {
            for profile in ["release", "unoptimised"] {
                if variant == 3 && len > 2000 {
                    continue;
                }
                probes.push(ProbeCase { kind: "selector".into(), index: variant, len, profile: profile.into(), stack_kib: 2048 });
            }
        }
    }
    // the logger initialisers called twice, in the four orders
    for variant in 0..4u32 {
        probes.push(ProbeCase { kind: "loginit".into(), index: variant, len: 0, profile: "release".into(), stack_kib: 2048 });
    }
    let n = probes.len() as u64;
    let r = run_enum(ctx, "probes", n, true, &format!("{n} child-process probes: the two logger initialisers twice in their four orders, css selectors nested up to 5000 levels and chains of up to 50000 combinators x {{optimised, unoptimised}}, extern C null matrix (exhaustive), long raw-text elements x 6 variants x sizes {:?} x {{optimised, unoptimised}}, routers of {:?} nested-prefix rules (path, host) x {{optimised, unoptimised}}", sizes, nested), |i| Some(probes[i as usize].clone()), check_probe, &[KnownSig { name: D12, pred: is_d12 }, KnownSig { name: D34, pred: is_d34 }]);
    rep.add(r);
    rep
}

pub fn replay(part: &str, case: &Value) -> Result<Outcome, String> {
    if part == "probes" {
        replay_case::<ProbeCase, _>(case, check_probe)
    } else {
        replay_case::<Case, _>(case, check)
    }
}

#[allow(dead_code)]
fn _unused(_: &dyn Fn() -> *const ffi::CHeaderMap) {}
