#!/usr/bin/env bash
# usage: tools/try_seeded_alt.sh <candidate-dir> <Cxx> [more Cyy ...]
# Like try_seeded.sh, but leaves /repo alone: the change is applied to a scratch worktree (/tmp/alt-wt, outside /repo and
# /verif) and the harness is built against that copy (VERIF_REPO) in a target directory of its own. For use while a long
# run is using /repo. The worktree is kept between calls (re-synchronised to /repo's HEAD) and removed with
#   git -C /repo worktree remove --force /tmp/alt-wt ; rm -rf /verif/work/target-alt
dir="$(realpath "$1")"; shift
cd "$(dirname "$0")/.."
wt=/tmp/alt-wt
if [ ! -d "$wt" ]; then git -C /repo worktree add --detach "$wt" HEAD -q || exit 2; fi
git -C "$wt" checkout -q --detach "$(git -C /repo rev-parse HEAD)" && git -C "$wt" checkout -- . || exit 2
git -C "$wt" apply "$dir/patch.diff" || { echo "patch does not apply"; exit 2; }
for id in "$@"; do
  start=$(date +%s)
  out=$(VERIF_REPO="$wt" VERIF_EVIDENCE_DIR=/tmp/alt-evidence ./check $id --tier quick 2>&1); code=$?
  end=$(date +%s)
  echo "[$id on $(basename $(dirname $(dirname $dir)))/$(basename $dir) (alt)] exit=$code $((end-start))s"
  echo "$out" | grep -E "^(failure|VIOLATION|infrastructure|C[0-9]+ )" | cut -c1-420
done
git -C "$wt" checkout -- .
