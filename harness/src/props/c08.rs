//! C08 — the regex prefix tree answers exactly like a linear scan of its patterns.
use crate::engine::*;
use crate::gen::{instantiate, marker_spec, template_markers};
use crate::mflat::{cached_regex, template_regex};
use proptest::prelude::*;
use redirectionio::regex_radix_tree::{RegexTreeMap, UniqueRegexTreeMap, VerifNode};
use serde::{Deserialize, Serialize};
use serde_json::Value;
use std::collections::BTreeMap;

/// Curated templates: diverge at an escape, inside a group, at a group boundary, at a multi-byte character (also at two
/// characters sharing their first UTF-8 byte), after an unbalanced literal parenthesis, inside a marker whose character class holds a parenthesis, after a prefix with several escaped characters followed by a one-character value,
/// or are prefixes of one another. Patterns are produced from them exactly as rules produce them.
pub const CURATED: &[&str] = &[
    "/", "/a", "/a/b", "/a.b", "/a-b", "/a/@id", "/a/@id/b", "/a/@w", "/a/@lang", "/a/@lang/x", "/é", "/éx", "/é/@id", "/a)/@id/b", "/a)/@id/c", "/èx", "/a/@par/b", "/a/@par/c", "/a-b-c/@id", "/a-b-c/x/@id",
];
/// Wider pool for the random histories.
pub const TEMPLATES: &[&str] = &[
    "/", "/a", "/a/b", "/a.b", "/a-b", "/a/@id", "/a/@id/b", "/a/@a", "/a/@lang", "/a/@lang/x", "/é", "/éx", "/é/@id", "/a(b)", "/A/b", "/a/@slug", "/a/@slug/@id", "/a/@any", "/a/@mix",
    "/a/@up", "/foo/@bad", "/foo/@bad/x", "/a/@pet", "/a+b", "/a[b", "/a\\b", "/a/@id-@b", "/p/@a-@b", "/日本/@id", "/日本", "/a/b/c/d", "/a/b/c/e", "@any", "@lang/x", "/è", "/èx", "/日月", "/ü/@id", "/ö/@id", "/a)/@id/b", "/a)/@id/c", "/a)/@id", "/a)/@a", "/:)/@slug/x", "/:)/@slug/y", "/a(/@id/b", "/a(/@id/c", "/a/@w", "/a/@w/x", "/a/@d", "@w.example", "@d/x", "/a/@par/b", "/a/@par/c", "/a/@par", "/x/@opar/a", "/x/@opar/b", "/a/@nd", "/a/@par/@opar", "/a-b-c/@id", "/a-b-c/x/@id", "/a.b.c.d/@a", "/a.b.c.d/e/@a",
];

/// Arbitrary expressions, not of the rule shape ("raw:" templates are used verbatim). They are outside C08's domain
/// (the linear-scan oracle is only claimed for rule-shaped patterns) and are used by C12, whose twin oracle needs no such restriction.
pub const RAW: &[&str] = &[
    "raw:/ab{2}", "raw:/ab{3}", "raw:/a[0-9]x", "raw:/a[0-5]y", "raw:/a|/b", "raw:/a|/c", "raw:/a(?:b|c)d", "raw:/a+", "raw:/a+b", "raw:/a\\d+", "raw:/a\\D+", "raw:/a.*", "raw:/a.*b", "raw:/a(?P<n>b)?c", "raw:/a(?P<n>b)?d",
];

pub fn pattern_of(template: &str) -> String {
    if let Some(raw) = template.strip_prefix("raw:") {
        return raw.to_string();
    }
    let markers: Vec<_> = template_markers(template).into_iter().map(marker_spec).collect();
    template_regex(template, &markers).unwrap_or_else(|| regex::escape(template))
}

pub fn haystacks_of(template: &str) -> Vec<String> {
    if template.starts_with("raw:") {
        return ["/abb", "/abbb", "/a3x", "/a4y", "/a7y", "/a", "/b", "/c", "/abd", "/acd", "/aa", "/aab", "/a1", "/ax", "/axb", "/abc", "/ac", "/ad"].iter().map(|s| s.to_string()).collect();
    }
    let mut v = vec![instantiate(template, 0, false), instantiate(template, 1, false), instantiate(template, 1, true), instantiate(template, 5, true)];
    let base = v[0].clone();
    v.push(base.to_uppercase());
    v.push(format!("{base}x"));
    v.push(format!("{base}/"));
    if base.chars().count() > 1 {
        v.push(base.chars().take(base.chars().count() - 1).collect());
    }
    v
}

pub fn haystack_pool(templates: &[&str]) -> Vec<String> {
    let mut all: Vec<String> = templates.iter().flat_map(|t| haystacks_of(t)).collect();
    all.extend(["".to_string(), "/zzz".to_string(), "/a/".to_string(), "/A".to_string(), "/a/42/b".to_string(), "/a/en".to_string(), "/a/EN/x".to_string()]);
    all.sort();
    all.dedup();
    all
}

#[derive(Serialize, Deserialize, Clone, Debug, PartialEq)]
pub enum Op {
    /// insert(pattern of template t, id, value)
    Insert { t: usize, id: u8, v: u16 },
    Remove { id: u8 },
    /// retain(id not in set)
    Retain { drop: Vec<u8> },
    Cache { limit: u64, level: Option<u64> },
    /// unique tree only: remove by pattern
    RemovePattern { t: usize },
    /// evaluate the oracle here (used when `every_step` is off)
    Check,
}

#[derive(Serialize, Deserialize, Clone, Debug, PartialEq)]
pub struct Case {
    pub templates: Vec<String>,
    pub ignore_case: bool,
    pub unique: bool,
    pub ops: Vec<Op>,
    /// check the oracle after every op (true) or only at the end
    pub every_step: bool,
}

fn expected_find(live: &BTreeMap<(String, String), String>, s: &str, ci: bool) -> Vec<String> {
    let mut v: Vec<String> = live
        .iter()
        .filter(|((p, _), _)| cached_regex(&format!("^{p}$"), ci).map(|r| r.is_match(s)).unwrap_or(false))
        .map(|(_, v)| v.clone())
        .collect();
    v.sort();
    v
}

fn depth(n: &VerifNode) -> usize {
    1 + n.children.iter().map(depth).max().unwrap_or(0)
}

/// Structural invariant through the hook - the *prefix invariant* the property's anchor names: each node prefix is a
/// string prefix of every pattern stored below it. Other shape facts (one leaf per pattern, no empty leaf, flag kept on
/// empty items) are implementation choices that a behaviour-preserving refactoring may change: they are only recorded
/// in `notes` (class histogram), never raised - their observable consequences are caught by the behavioural oracle.
fn check_shape(n: &VerifNode, ci: bool, prefixes: &mut Vec<String>, leaves: &mut Vec<String>, notes: &mut Vec<&'static str>) -> Option<String> {
    if n.ignore_case != ci {
        notes.push("shape-note:case-flag-differs");
    }
    match n.kind {
        "leaf" => {
            if n.ids.is_empty() {
                notes.push("shape-note:empty-leaf");
            }
            for p in prefixes.iter() {
                if !n.original.starts_with(p.as_str()) {
                    return Some(format!("prefix invariant: leaf '{}' is below node prefix '{}' which is not a prefix of it", n.original, p));
                }
            }
            if leaves.contains(&n.original) {
                notes.push("shape-note:two-leaves-one-pattern");
            }
            leaves.push(n.original.clone());
        }
        "node" => {
            for p in prefixes.iter() {
                if !n.original.starts_with(p.as_str()) {
                    return Some(format!("prefix invariant: node '{}' is below node prefix '{}' which is not a prefix of it", n.original, p));
                }
            }
            prefixes.push(n.original.clone());
            for c in &n.children {
                if let Some(e) = check_shape(c, ci, prefixes, leaves, notes) {
                    return Some(e);
                }
            }
            prefixes.pop();
        }
        _ => {}
    }
    None
}

enum Tree {
    Multi(RegexTreeMap<String>),
    Unique(UniqueRegexTreeMap<String>),
}

impl Tree {
    fn find(&self, s: &str) -> Vec<String> {
        let mut v: Vec<String> = match self {
            Tree::Multi(t) => t.find(s).into_iter().cloned().collect(),
            Tree::Unique(t) => t.find(s).into_iter().cloned().collect(),
        };
        v.sort();
        v
    }
    fn len(&self) -> usize {
        match self {
            Tree::Multi(t) => t.len(),
            Tree::Unique(t) => t.len(),
        }
    }
    fn snapshot(&self) -> VerifNode {
        match self {
            Tree::Multi(t) => t.verif_snapshot(),
            Tree::Unique(t) => t.verif_snapshot(),
        }
    }
}

pub fn check(case: &Case) -> Outcome {
    let mut out = Outcome::new();
    out.evals = 0;
    let ci = case.ignore_case;
    let tpl: Vec<&str> = case.templates.iter().map(|s| s.as_str()).collect();
    let patterns: Vec<String> = tpl.iter().map(|t| pattern_of(t)).collect();
    let hay = haystack_pool(&tpl);
    let mut tree = if case.unique { Tree::Unique(UniqueRegexTreeMap::new(ci)) } else { Tree::Multi(RegexTreeMap::new(ci)) };
    // model: (pattern, id) -> value ; id -> pattern
    let mut live: BTreeMap<(String, String), String> = BTreeMap::new();
    let mut max_depth = 0;
    let mut partial = false;

    for (step, op) in case.ops.iter().enumerate() {
        match op {
            Op::Insert { t, id, v } => {
                let mut p = patterns[*t % patterns.len()].clone();
                let value = format!("v{v}");
                match &mut tree {
                    Tree::Multi(tr) => {
                        let id = format!("i{id}");
                        // ids are unique among live values: an id live under another pattern is re-stored under its own pattern
                        if let Some(((lp, _), _)) = live.iter().find(|((_, lid), _)| *lid == id) {
                            p = lp.clone();
                        }
                        tr.insert(&p, &id, value.clone());
                        live.insert((p, id), value);
                    }
                    Tree::Unique(tr) => {
                        tr.insert(&p, value.clone());
                        live.insert((p.clone(), p), value);
                    }
                }
            }
            Op::Remove { id } => {
                if let Tree::Multi(tr) = &mut tree {
                    let id = format!("i{id}");
                    let key = live.keys().find(|(_, lid)| *lid == id).cloned();
                    let expected = key.as_ref().and_then(|k| live.remove(k));
                    let got = tr.remove(&id);
                    if got != expected {
                        out.fail(format!("step {step}: remove({id}) returned {:?}, model says {:?}", got, expected));
                        return out;
                    }
                }
            }
            Op::RemovePattern { t } => {
                if let Tree::Unique(tr) = &mut tree {
                    let p = patterns[*t % patterns.len()].clone();
                    let expected = live.remove(&(p.clone(), p.clone()));
                    let got = tr.remove(&p);
                    if got != expected {
                        out.fail(format!("step {step}: unique remove({p}) returned {:?}, model says {:?}", got, expected));
                        return out;
                    }
                }
            }
            Op::Retain { drop } => match &mut tree {
                Tree::Multi(tr) => {
                    let ids: Vec<String> = drop.iter().map(|d| format!("i{d}")).collect();
                    tr.retain(&|id: &str, _v: &mut String| !ids.iter().any(|x| x == id));
                    live.retain(|(_, id), _| !ids.contains(id));
                }
                Tree::Unique(tr) => {
                    let ps: Vec<String> = drop.iter().map(|d| patterns[*d as usize % patterns.len()].clone()).collect();
                    tr.retain(&|id: &str, _v: &mut String| !ps.iter().any(|x| x == id));
                    live.retain(|(_, id), _| !ps.contains(id));
                }
            },
            Op::Check => {}
            Op::Cache { limit, level } => {
                match &mut tree {
                    Tree::Multi(tr) => {
                        tr.cache(*limit, *level);
                    }
                    Tree::Unique(tr) => {
                        tr.cache(*limit, *level);
                    }
                }
                out.class("cache-op");
            }
        }
        if !(case.every_step || step + 1 == case.ops.len() || *op == Op::Check) {
            continue;
        }
        // ---- oracle ----
        if tree.len() != live.len() {
            out.fail(format!("step {step} ({op:?}): len() = {}, {} values are live", tree.len(), live.len()));
            return out;
        }
        for s in &hay {
            out.evals += 1;
            let got = tree.find(s);
            let exp = expected_find(&live, s, ci);
            if got != exp {
                out.fail(format!("step {step} ({op:?}): find({s:?}) = {:?}, linear scan of the live patterns gives {:?}", got, exp));
                return out;
            }
            if !exp.is_empty() && exp.len() < live.len() {
                partial = true;
            }
        }
        for p in &patterns {
            let mut exp: Vec<String> = live.iter().filter(|((lp, _), _)| lp == p).map(|(_, v)| v.clone()).collect();
            exp.sort();
            let mut got: Vec<String> = match &tree {
                Tree::Multi(t) => t.get(p).into_iter().cloned().collect(),
                Tree::Unique(t) => t.get(p).into_iter().cloned().collect(),
            };
            got.sort();
            if got != exp {
                out.fail(format!("step {step} ({op:?}): get({p:?}) = {:?}, stored under that pattern: {:?}", got, exp));
                return out;
            }
        }
        let mut all: Vec<String> = match &tree {
            Tree::Multi(t) => t.iter().cloned().collect(),
            Tree::Unique(t) => t.iter().cloned().collect(),
        };
        all.sort();
        let mut exp_all: Vec<String> = live.values().cloned().collect();
        exp_all.sort();
        if all != exp_all {
            out.fail(format!("step {step} ({op:?}): iter() yields {:?}, live values are {:?}", all, exp_all));
            return out;
        }
        let snap = tree.snapshot();
        let mut notes = Vec::new();
        if let Some(e) = check_shape(&snap, ci, &mut Vec::new(), &mut Vec::new(), &mut notes) {
            out.fail(format!("step {step} ({op:?}): {e}"));
            return out;
        }
        for n in notes {
            out.class(n);
        }
        max_depth = max_depth.max(depth(&snap));
    }
    if out.evals == 0 {
        out.evals = 1;
    }
    if max_depth >= 3 {
        out.class("depth>=3");
    }
    out.nontrivial = max_depth >= 2 && partial;
    out
}

// ---- exhaustive small scope: subsets x insertion orders x removal subsets --------------------------------
fn combos(n: usize, k: usize) -> Vec<Vec<usize>> {
    fn rec(start: usize, n: usize, k: usize, cur: &mut Vec<usize>, out: &mut Vec<Vec<usize>>) {
        if cur.len() == k {
            out.push(cur.clone());
            return;
        }
        for i in start..n {
            cur.push(i);
            rec(i + 1, n, k, cur, out);
            cur.pop();
        }
    }
    let mut out = Vec::new();
    rec(0, n, k, &mut Vec::new(), &mut out);
    out
}

pub fn permutations(items: &[usize]) -> Vec<Vec<usize>> {
    if items.len() <= 1 {
        return vec![items.to_vec()];
    }
    let mut out = Vec::new();
    for i in 0..items.len() {
        let mut rest = items.to_vec();
        let x = rest.remove(i);
        for mut p in permutations(&rest) {
            p.insert(0, x);
            out.push(p);
        }
    }
    out
}

fn size4_scope(subset: &[usize]) -> bool {
    const CORE: usize = 16;
    const PAIRS: [(usize, usize); 2] = [(16, 17), (18, 19)];
    if subset.iter().all(|&i| i < CORE) {
        return true;
    }
    PAIRS.iter().any(|&(a, b)| subset.contains(&a) && subset.contains(&b) && subset.iter().filter(|&&i| i != a && i != b).all(|&i| i < 10))
}

/// every (subset, order, removal set, case flag) as a Case
pub fn exhaustive_cases(max_size: usize, every_step: bool) -> Vec<Case> {
    let mut cases = Vec::new();
    for k in 1..=max_size {
        for subset in combos(CURATED.len(), k) {
            // size 4 is enumerated over the first 16 patterns, plus each later pair (added for one specific interaction)
            // with two of the first ten: the full C(20,4) x 24 x 16 x 2 = 3.7 M histories cost CPU-days for little more
            if k == 4 && !size4_scope(&subset) {
                continue;
            }
            for order in permutations(&subset) {
                for removal in 0..(1u32 << k) {
                    for ci in [false, true] {
                        // templates of the case = the subset only (haystacks are derived from them); positions index into it
                        let pos = |t: usize| subset.iter().position(|x| *x == t).unwrap();
                        let mut ops: Vec<Op> = order.iter().map(|&t| Op::Insert { t: pos(t), id: pos(t) as u8, v: t as u16 }).collect();
                        ops.push(Op::Check);
                        for j in 0..k {
                            if removal & (1 << j) != 0 {
                                ops.push(Op::Remove { id: j as u8 });
                            }
                        }
                        if removal != 0 {
                            ops.push(Op::Check);
                        }
                        // re-insert the first removed pattern (re-split after collapse), then replace a live one
                        if let Some(j) = (0..k).find(|j| removal & (1 << j) != 0) {
                            ops.push(Op::Insert { t: j, id: j as u8, v: 100 + j as u16 });
                        }
                        ops.push(Op::Insert { t: pos(order[0]), id: pos(order[0]) as u8, v: 200 });
                        cases.push(Case { templates: subset.iter().map(|&t| CURATED[t].to_string()).collect(), ignore_case: ci, unique: false, ops, every_step });
                    }
                }
            }
        }
    }
    cases
}

fn op_strategy(nt: usize) -> BoxedStrategy<Op> {
    prop_oneof![
        10 => (0..nt, 0u8..8, 0u16..50).prop_map(|(t, id, v)| Op::Insert { t, id, v }),
        3 => (0u8..8).prop_map(|id| Op::Remove { id }),
        2 => (0..nt).prop_map(|t| Op::RemovePattern { t }),
        2 => prop::collection::vec(0u8..8, 0..4).prop_map(|drop| Op::Retain { drop }),
        2 => (0u64..6, prop::option::of(0u64..4)).prop_map(|(limit, level)| Op::Cache { limit, level }),
    ]
    .boxed()
}

fn strategy() -> BoxedStrategy<Case> {
    let n = TEMPLATES.len();
    (prop::collection::vec(0..n, 3..9), any::<bool>(), prop::bool::weighted(0.25), any::<bool>())
        .prop_flat_map(|(ts, ignore_case, unique, every_step)| {
            let templates: Vec<String> = ts.iter().map(|&i| TEMPLATES[i].to_string()).collect();
            let nt = templates.len();
            (Just(templates), Just(ignore_case), Just(unique), Just(every_step), prop::collection::vec(op_strategy(nt), 1..24))
        })
        .prop_map(|(templates, ignore_case, unique, every_step, ops)| Case { templates, ignore_case, unique, ops, every_step })
        .boxed()
}

pub fn run(ctx: &Ctx) -> Report {
    let mut rep = Report::new(
        "C08",
        "case = history over insert(p,id,v) / remove(id) / retain(pred) / cache(limit,level) on RegexTreeMap and UniqueRegexTreeMap in both case modes, patterns produced from templates exactly as rules produce them \
         (escaped literal text interleaved with (?:marker expr), incl. multi-byte text, escaped parentheses and a non-compiling marker); oracle after every step: sorted find(s) == sorted { v | (p,id,v) live and ^p$ matches s } over instantiations / near misses / case swaps, \
         len() == |live|, get(p) == values stored under p, iter() == all live values, remove(id) returns the stored value, and through the read-only hook the prefix invariant: every node prefix is a string prefix of all patterns below it (other shape facts are only recorded); \
         exhaustive part: every subset of size <=3 (quick) of the curated patterns, thorough also those of size 4 over the first 16 patterns and each later pair with two of the first ten, x every insertion order x every removal subset x both case modes, followed by a re-insertion and a replacement; \
         non-trivial = tree depth >= 2 and some haystack matched by some but not all live values; distinct by case hash",
    );
    rep.assume("domain exclusions O1 (empty pattern) and O2 (parenthesis inside a character class); ids are unique among live values, as rule ids are");
    let cases = exhaustive_cases(ctx.tier.pick(3, 4) as usize, ctx.tier == Tier::Thorough);
    let n = cases.len() as u64;
    rep.add(run_enum(
        ctx,
        "exhaustive-small-scope",
        n,
        true,
        &format!("{n} (subset, insertion order, removal subset, case flag) combinations over the {} curated patterns {:?}", CURATED.len(), CURATED),
        |i| Some(cases[i as usize].clone()),
        |c| {
            let mut o = check(c);
            o.distinct_by_construction = true;
            o
        },
        &[],
    ));
    if rep.has_violation() {
        return rep;
    }
    rep.add(run_part(ctx, "random-histories", ctx.cases(6_000, 200_000), strategy, check, &[]));
    rep
}

pub fn replay(_part: &str, case: &Value) -> Result<Outcome, String> {
    replay_case::<Case, _>(case, check)
}
