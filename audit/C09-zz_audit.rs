#![allow(dead_code)]
extern crate redirectionio;

use redirectionio::RouterConfig;
use redirectionio::action::Action;
use redirectionio::api::Rule;
use redirectionio::http::{PathAndQueryWithSkipped, Request};
use redirectionio::router::Router;

fn config(ignore_case: bool, ignore_marketing: bool, pass: bool, marketing: &[&str]) -> RouterConfig {
    let v = serde_json::json!({
        "always_match_any_host": true,
        "ignore_header_case": false,
        "ignore_host_case": false,
        "ignore_marketing_query_params": ignore_marketing,
        "ignore_path_and_query_case": ignore_case,
        "marketing_query_params": marketing,
        "pass_marketing_query_params_to_target": pass,
    });
    serde_json::from_value(v).expect("config")
}

fn split(url: &str) -> (String, Option<String>) {
    match url.find('?') {
        None => (url.to_string(), None),
        Some(i) => (url[..i].to_string(), Some(url[i + 1..].to_string())),
    }
}

fn rule_from(id: &str, url: &str, target: &str) -> Rule {
    let (path, query) = split(url);
    let v = serde_json::json!({
        "id": id,
        "rank": 0,
        "source": {"path": path, "query": query},
        "status_code": 302,
        "target": target,
    });
    serde_json::from_value(v).expect("rule")
}

fn router_with(config: &RouterConfig, urls: &[&str]) -> Router<Rule> {
    let mut router = Router::<Rule>::from_config(config.clone());
    for (i, u) in urls.iter().enumerate() {
        router.insert(rule_from(&format!("r{i}"), u, "/target"));
    }
    router
}

/// the way the web-server modules build requests (ffi: Request::new + rebuild_with_config)
fn req(router: &Router<Rule>, url: &str) -> Request {
    let default_config = RouterConfig::default();
    let request = Request::new(
        PathAndQueryWithSkipped::from_config(&default_config, url),
        url.to_string(),
        None,
        None,
        None,
        None,
        None,
    );
    router.rebuild_request(&request)
}

fn matches(router: &Router<Rule>, url: &str) -> bool {
    let r = req(router, url);
    // the other construction path must agree
    let r2 = Request::from_config(&router.config, url.to_string(), None, None, None, None, None);
    assert_eq!(r.path_and_query(), r2.path_and_query());
    !router.match_request(&r).is_empty()
}

fn location(router: &Router<Rule>, url: &str) -> Option<String> {
    let r = req(router, url);
    let matched = router.match_request(&r);
    if matched.is_empty() {
        return None;
    }
    let mut action = Action::from_routes_rule(matched, &r, None);
    let headers = action.filter_headers(Vec::new(), 0, false, None);
    headers.into_iter().find(|h| h.name == "Location").map(|h| h.value)
}

fn all_configs() -> Vec<RouterConfig> {
    let mut v = Vec::new();
    for bits in 0..8 {
        v.push(config(bits & 1 != 0, bits & 2 != 0, bits & 4 != 0, &["utm_source", "utm_medium"]));
    }
    v
}

fn swap_case(s: &str) -> String {
    s.chars()
        .map(|c| {
            if c.is_ascii_lowercase() {
                c.to_ascii_uppercase()
            } else if c.is_ascii_uppercase() {
                c.to_ascii_lowercase()
            } else {
                c
            }
        })
        .collect()
}

#[test]
fn explore_self_match() {
    let urls = [
        "/p",
        "/p?a=1",
        "/p?b=1&a=2",
        "/p?B=1&a=2",
        "/a`b?b=1&a=2",
        "/a`b",
        "/p?=&a=1",
        "/p?a=1&=",
        "/p?=",
        "/p?=x",
        "/p?a=&b",
        "/p?a=1&a=2",
        "/p?a=%26",
        "/p?a=b+c",
        "/p?a=b%2Bc",
        "/p?a=b%20c",
        "/p?a=b c",
        "/p?a=\"q\"",
        "/p q?a=1",
        "/p%20q?a=1",
        "/caf\u{e9}?cl\u{e9}=\u{e9}",
        "/p?a=%FF",
        "/p?a=%",
        "/p?a=%2",
        "/p?a=%zz",
        "/p?a=1&&b=2",
        "/p?&a=1",
        "/p?a=1&",
        "/p?a==1",
        "/p?a=b=c",
        "/p?a=b?c",
        "/p?a[]=1&a[]=2",
        "/p?a%5B%5D=1",
        "/p?a=<x>",
        "/p?a='x'",
        "/p?a=x;b=y",
        "/p;v=1?a=1",
        "/p?a=%00",
        "/p?a=\u{7f}",
        "/p?a=\t",
        "/p?a=1#frag",
        "/p#frag",
        "/p?a=@b",
        "/p@x",
        "/p?A=1&a=2",
        "/p?a=1&A=2",
        "/{x}|y^z\\w[1]",
        "/p?{x}=|y^z\\w[1]`",
        "//",
        "/p//q/./../r",
        "/p?a=%C3%A9",
        "/p?a=%c3%a9",
        "/p%C3%A9",
        "/p?utm_source=x",
        "/p?a=1&utm_source=x",
        "/P?A=B",
        "/p?\u{212a}=1&k=2",
        "/p?a=\u{1F600}",
        "/p?a=%F0%9F%98%80",
    ];

    let mut failures = Vec::new();
    for (ci, cfg) in all_configs().iter().enumerate() {
        for u in urls {
            let router = router_with(cfg, &[u]);
            if !matches(&router, u) {
                let r = req(&router, u);
                failures.push(format!(
                    "cfg{ci} (case={} mk={} pass={}) url {u:?}: request form {:?}; route {:?}",
                    cfg.ignore_path_and_query_case,
                    cfg.ignore_marketing_query_params,
                    cfg.pass_marketing_query_params_to_target,
                    r.path_and_query(),
                    serde_json::to_string(router.routes().values().next().unwrap().path_and_query()).unwrap()
                ));
            }
        }
    }
    for f in &failures {
        println!("SELF-MATCH FAIL {f}");
    }
    println!("{} self-match failures", failures.len());
}

#[test]
fn explore_equivalences() {
    // (rule url, request url, expected match, note)
    let cases: &[(&str, &str, bool, &str)] = &[
        ("/p?a=1&b=2", "/p?b=2&a=1", true, "permute"),
        ("/p?a=b+c", "/p?a=b%2Bc", false, "space vs plus"),
        ("/p?a=b+c", "/p?a=b%20c", true, "plus vs %20"),
        ("/p?a=1", "/p?a=1&b", false, "extra empty param"),
        ("/p?a", "/p?a=", true, "empty value forms"),
        ("/p?a=%FF", "/p?a=%FE", false, "invalid utf8 bytes differ"),
        ("/p q", "/p%20q", true, "space in path"),
        ("/p+q", "/p q", false, "plus in path"),
        ("/p+q", "/p%2Bq", false, "plus in path enc (path not decoded; arguably equivalent)"),
        ("/caf\u{e9}", "/caf%C3%A9", true, "utf8 path"),
        ("/caf\u{e9}", "/caf%c3%a9", true, "utf8 path lowercase hex"),
        ("/p?a=\u{e9}", "/p?a=%c3%a9", true, "utf8 query lowercase hex"),
        ("/p~q", "/p%7Eq", true, "unreserved enc in path"),
        ("/p?a=~", "/p?a=%7E", true, "unreserved enc in query"),
        ("/p", "/p?", true, "empty query"),
        ("/p?a=1", "/p?a=1&a=1", true, "dup same"),
        ("/p?a=1&a=2", "/p?a=2", false, "dup dedupe (excluded by quantifier)"),
        ("/p?a=1", "/p?a=1#f", true, "fragment"),
        ("/p", "/p#f", true, "fragment in path"),
        ("/p?a=1&b=2", "/p?a=1%26b%3D2", false, "encoded delimiters (excluded)"),
        ("/p?a=%2541", "/p?a=A", false, "double encoding"),
        ("/p?a=%2541", "/p?a=%41", false, "double encoding 2"),
        ("/p?a=1", "/p?a=1&utm_source=x", true, "marketing added"),
        ("/p", "/p?utm_source=x", true, "marketing only"),
        ("/p", "/p?utm_source", true, "marketing no value"),
        ("/p", "/p?utm%5Fsource=x", true, "marketing key encoded"),
        ("/p", "/p?utm_sourcE=x", false, "marketing other case"),
        ("/a`b", "/a`b?utm_source=x", true, "marketing on backtick path"),
    ];

    for (ci, cfg) in all_configs().iter().enumerate() {
        for (rule, request, expected, note) in cases {
            let router = router_with(cfg, &[rule]);
            let m = matches(&router, request);
            let mut exp = *expected;
            if note.starts_with("marketing") && !cfg.ignore_marketing_query_params {
                exp = false;
            }
            if note.contains("other case") {
                exp = cfg.ignore_marketing_query_params && cfg.ignore_path_and_query_case;
            }
            if m != exp {
                let r = req(&router, request);
                println!(
                    "EQUIV cfg{ci} (case={} mk={}) [{note}] rule {rule:?} request {request:?}: match={m} expected={exp}; request form {:?}; route {}",
                    cfg.ignore_path_and_query_case,
                    cfg.ignore_marketing_query_params,
                    r.path_and_query(),
                    serde_json::to_string(router.routes().values().next().unwrap().path_and_query()).unwrap()
                );
            }
        }
    }
}

#[test]
fn explore_case_swap() {
    let urls = [
        "/p?a=1&b=2",
        "/Foo/Bar?Key=Value&other=X",
        "/p?A=1&a=2",
        "/p?a=1&A=2",
        "/p?B=1&a=2&C=3",
        "/p?a=%c3%a9",
        "/caf\u{e9}?x=\u{c9}",
        "/p?a=1&utm_source=x",
        "/p?utm_source=x",
        "/p?Ab=1&aB=2&AB=3&ab=4",
        "/p?a=1&A",
    ];
    for mk in [false, true] {
        let cfg = config(true, mk, true, &["utm_source", "utm_medium"]);
        for u in urls {
            // rule from the URL without its marketing params when those are ignored
            let rule_url = if mk { u.replace("&utm_source=x", "").replace("?utm_source=x", "") } else { u.to_string() };
            let router = router_with(&cfg, &[rule_url.as_str()]);
            let a = matches(&router, u);
            let b = matches(&router, &swap_case(u));
            let c = matches(&router, &u.to_uppercase());
            let d = matches(&router, &u.to_lowercase());
            if !(a && b && c && d) {
                println!(
                    "CASE mk={mk} rule {rule_url:?}: u={a} swap={b} upper={c} lower={d}; forms {:?} {:?} {:?} {:?}; loc {:?} {:?}",
                    req(&router, u).path_and_query(),
                    req(&router, &swap_case(u)).path_and_query(),
                    req(&router, &u.to_uppercase()).path_and_query(),
                    req(&router, &u.to_lowercase()).path_and_query(),
                    location(&router, u),
                    location(&router, &swap_case(u)),
                );
            }
        }
    }
}

#[test]
fn explore_targets() {
    let targets = ["/t", "/t?x=1", "/t#frag", "/t?x=1#frag", "https://example.org", "https://example.org/#/spa/route", "/t?", ""];
    let requests = [
        "/p?utm_source=x",
        "/p?utm_source=x&utm_medium=y",
        "/p?utm_medium=y&utm_source=x",
        "/p?utm_source=a%26b%3Dc",
        "/p?utm_source=100%25",
        "/p?utm_source=%2541",
        "/p?utm_source=a+b",
        "/p?utm_source=a%2Bb",
        "/p?utm_source=%23x",
        "/p?utm_source=a&utm_source=b",
        "/p?utm_source=",
        "/p?utm_source",
        "/p?utm_source=\u{e9}",
        "/p?utm_source=x;y",
    ];
    for pass in [false, true] {
        let cfg = config(false, true, pass, &["utm_source", "utm_medium"]);
        for t in targets {
            let mut router = Router::<Rule>::from_config(cfg.clone());
            router.insert(rule_from("r", "/p", t));
            for rq in requests {
                println!("TARGET pass={pass} target {t:?} request {rq:?} -> {:?}", location(&router, rq));
            }
        }
    }
}

#[test]
fn explore_invalid_utf8() {
    for (ci, cfg) in all_configs().iter().enumerate() {
        let router = router_with(cfg, &["/p?a=%FF"]);
        let r = req(&router, "/p?a=%FE");
        println!(
            "UTF8 cfg{ci}: form {:?} route {} match {}",
            r.path_and_query(),
            serde_json::to_string(router.routes().values().next().unwrap().path_and_query()).unwrap(),
            matches(&router, "/p?a=%FE")
        );
    }
}

struct Lcg(u64);
impl Lcg {
    fn next(&mut self) -> u64 {
        self.0 = self.0.wrapping_mul(6364136223846793005).wrapping_add(1442695040888963407);
        self.0 >> 33
    }
    fn pick<'a>(&mut self, xs: &[&'a str]) -> &'a str {
        xs[(self.next() % xs.len() as u64) as usize]
    }
}

const ATOMS: &[&str] = &[
    "a", "B", "c", "Z", "0", "9", "-", "_", ".", "~", "!", "$", "'", "(", ")", "*", ",", ";", ":", "@", "/", "?", "[", "]", "{", "}", "|", "^",
    "\\", " ", "\"", "<", ">", "+", "%20", "%2B", "%2b", "%41", "%61", "%C3%A9", "%c3%a9", "\u{e9}", "\u{c9}", "\u{1F600}", "%7E", "%22", "%3C",
    "%5B", "%7C", "%E2%82%AC", "\u{20ac}", "%09", "\t", "%27", "%3B", "%40", "%2F", "%3F", "%5C", "%7B", "%25", "%", "%2", "#", "%23", "%00", "%2541", "%7F", "\u{7f}", "\u{80}", "%C2%80", "\u{a0}", "\u{2028}", "%zz",
];

fn gen_token(rng: &mut Lcg, min: usize, max: usize, allow: &dyn Fn(&str) -> bool) -> String {
    let n = min + (rng.next() as usize % (max - min + 1));
    let mut s = String::new();
    while s.chars().count() < n {
        let a = rng.pick(ATOMS);
        if allow(a) {
            s.push_str(a);
        } else if n == 0 {
            break;
        }
    }
    s
}

fn gen_url(rng: &mut Lcg) -> (String, Vec<(String, String)>) {
    let path_ok = |a: &str| a != "?" && a != "`";
    let key_ok = |a: &str| a != "?" || true;
    let val_extra = ["=", "==", "a=b"];
    let mut path = String::from("/");
    path.push_str(&gen_token(rng, 0, 6, &path_ok));
    let nparams = rng.next() % 4;
    let mut params = Vec::new();
    for i in 0..nparams {
        // distinct keys even ignoring case: prefix with an index letter
        let mut key = format!("k{}", (b'a' + i as u8) as char);
        key.push_str(&gen_token(rng, 0, 3, &key_ok));
        let mut value = gen_token(rng, 0, 4, &key_ok);
        if rng.next() % 8 == 0 { value.push_str(rng.pick(&val_extra)); }
        params.push((key, value));
    }
    (path, params)
}

fn render(path: &str, params: &[(String, String)]) -> String {
    if params.is_empty() {
        return path.to_string();
    }
    let q: Vec<String> = params.iter().map(|(k, v)| if v.is_empty() && (k.len() % 2 == 0) { k.clone() } else { format!("{k}={v}") }).collect();
    format!("{path}?{}", q.join("&"))
}

#[test]
fn explore_random() {
    let mut rng = Lcg(0x1234_5678_9abc_def0);
    let cfgs = all_configs();
    let mut fails = 0;
    for iter in 0..4000 {
        let (path, params) = gen_url(&mut rng);
        let u = render(&path, &params);
        // permuted
        let mut perm = params.clone();
        perm.reverse();
        if perm.len() == 3 && rng.next() % 2 == 0 {
            perm.swap(0, 1);
        }
        let up = render(&path, &perm);
        // with marketing
        let mut mk = params.clone();
        mk.insert((rng.next() as usize) % (mk.len() + 1), ("utm_source".to_string(), gen_token(&mut rng, 0, 3, &|_| true)));
        let um = render(&path, &mk);
        // modified value: append an 'x' to one value / path
        let mut modified = params.clone();
        let umod = if modified.is_empty() {
            format!("{path}{}", { let a = rng.pick(ATOMS); if a == "?" || a == "#" { "x" } else { a } })
        } else {
            let i = (rng.next() as usize) % modified.len();
            let extra_atom = rng.pick(ATOMS); modified[i].1.push_str(extra_atom);
            render(&path, &modified)
        };
        // extra param
        let mut extra = params.clone();
        extra.push(("zz".to_string(), "1".to_string()));
        let uextra = render(&path, &extra);

        for (ci, cfg) in cfgs.iter().enumerate() {
            let router = router_with(cfg, &[u.as_str()]);
            let checks: Vec<(&str, String, bool)> = vec![
                ("self", u.clone(), true),
                ("perm", up.clone(), true),
                ("marketing", um.clone(), cfg.ignore_marketing_query_params),
                ("modified", umod.clone(), false),
                ("extra", uextra.clone(), false),
                ("swap", swap_case(&u), cfg.ignore_path_and_query_case || swap_case(&u) == u),
            ];
            for (name, rq, exp) in checks {
                // case swap of %xx hex digits in the path without the flag is not covered by the statement
                if name == "swap" && !cfg.ignore_path_and_query_case {
                    continue;
                }
                let m = matches(&router, &rq);
                if m != exp {
                    fails += 1;
                    if fails < 60 {
                        println!(
                            "RANDOM it{iter} cfg{ci} {name}: rule {u:?} request {rq:?} match={m} expected={exp}; form {:?} route {}",
                            req(&router, &rq).path_and_query(),
                            serde_json::to_string(router.routes().values().next().unwrap().path_and_query()).unwrap()
                        );
                    }
                }
                // idempotence of rebuild
                let r1 = req(&router, &rq);
                let r2 = router.rebuild_request(&r1);
                assert_eq!(serde_json::to_string(&r1).unwrap(), serde_json::to_string(&r2).unwrap());
                let r3: Request = serde_json::from_str(&serde_json::to_string(&r1).unwrap()).unwrap();
                let r4 = router.rebuild_request(&r3);
                assert_eq!(serde_json::to_string(&r1).unwrap(), serde_json::to_string(&r4).unwrap());
            }
        }
    }
    println!("RANDOM total fails {fails}");
}

#[test]
fn explore_64_configs_with_host() {
    let urls = ["/p", "/p?b=1&a=2", "/Caf\u{e9}?X=\u{c9}+1&utm_medium=m", "/p q?a=%2B"];
    let mut n = 0;
    for bits in 0..64u32 {
        let v = serde_json::json!({
            "always_match_any_host": bits & 1 != 0,
            "ignore_header_case": bits & 2 != 0,
            "ignore_host_case": bits & 4 != 0,
            "ignore_marketing_query_params": bits & 8 != 0,
            "ignore_path_and_query_case": bits & 16 != 0,
            "marketing_query_params": ["utm_source"],
            "pass_marketing_query_params_to_target": bits & 32 != 0,
        });
        let cfg: RouterConfig = serde_json::from_value(v).unwrap();
        for u in urls {
            let router = router_with(&cfg, &[u]);
            let mut request = Request::from_config(&cfg, u.to_string(), Some("Example.COM".to_string()), Some("https".to_string()), Some("GET".to_string()), None, None);
            request.add_header("X-Test".to_string(), "VaLuE".to_string(), cfg.ignore_header_case);
            let m = !router.match_request(&request).is_empty();
            let rebuilt = router.rebuild_request(&request);
            let m2 = !router.match_request(&rebuilt).is_empty();
            if !m || !m2 {
                n += 1;
                println!("CFG64 bits={bits:06b} url {u:?}: match={m} rebuilt={m2}");
            }
        }
    }
    println!("CFG64 fails {n}");
}

// ---------------------------------------------------------------------------------------------
// FINDINGS: each test asserts what the property demands and FAILS on the unchanged tree
// ---------------------------------------------------------------------------------------------

/// F1: a path with a character http::uri::PathAndQuery rejects ('`') turns the request side
/// normalisation off: the query is neither sorted nor freed from marketing params
#[test]
fn finding_1_backtick_in_path_disables_request_normalisation() {
    let cfg = config(false, true, true, &["utm_source"]);

    // the rule is the literal URL of the request
    let router = router_with(&cfg, &["/a`b?b=1&a=2"]);
    let self_match = matches(&router, "/a`b?b=1&a=2");
    println!("F1 self match: {self_match} (request form {:?})", req(&router, "/a`b?b=1&a=2").path_and_query());

    // marketing params are not ignored either
    let router2 = router_with(&cfg, &["/a`b"]);
    let plain = matches(&router2, "/a`b");
    let with_marketing = matches(&router2, "/a`b?utm_source=x");
    println!("F1 plain {plain} with marketing {with_marketing}, location {:?}", location(&router2, "/a`b?utm_source=x"));

    assert!(self_match, "rule from the literal URL must match the URL");
    assert!(plain && with_marketing, "marketing params must be ignored");
    assert_eq!(location(&router2, "/a`b?utm_source=x").as_deref(), Some("/target?utm_source=x"));
}

/// F2: marketing keys are compared case-sensitively even under ignore_path_and_query_case
#[test]
fn finding_2_marketing_params_vs_case_flag() {
    let cfg = config(true, true, true, &["utm_source"]);
    let router = router_with(&cfg, &["/p"]);
    let u = "/p?utm_source=x";
    let a = matches(&router, u);
    let b = matches(&router, &swap_case(u)); // /P?UTM_SOURCE=X
    let c = matches(&router, "/p?Utm_Source=x");
    println!(
        "F2 u={a} swapped={b} mixed={c}; forms {:?} {:?}; locations {:?} {:?}",
        req(&router, u).path_and_query(),
        req(&router, &swap_case(u)).path_and_query(),
        location(&router, u),
        location(&router, &swap_case(u))
    );
    assert!(a);
    assert_eq!(a, b, "matching must not depend on ASCII letter case under the case flag");
    assert_eq!(a, c, "matching must not depend on ASCII letter case under the case flag");
}

/// F3: a rule whose own query holds a marketing param never matches once these are ignored
#[test]
fn finding_3_rule_with_marketing_param_is_dead() {
    for u in ["/p?utm_source=x", "/p?a=1&utm_source=x"] {
        let off = config(false, false, false, &["utm_source"]);
        let on = config(false, true, true, &["utm_source"]);
        let m_off = matches(&router_with(&off, &[u]), u);
        let router = router_with(&on, &[u]);
        let m_on = matches(&router, u);
        println!(
            "F3 {u:?}: ignore off -> {m_off}, ignore on -> {m_on} (request form {:?}, route {})",
            req(&router, u).path_and_query(),
            serde_json::to_string(router.routes().values().next().unwrap().path_and_query()).unwrap()
        );
        assert!(m_off);
        assert!(m_on, "under every configuration a rule from the literal URL matches that URL");
    }
}

/// F4: the request side drops a `=` param (empty key, empty value) that the rule side keeps as `&`
#[test]
fn finding_4_empty_key_empty_value_param() {
    for cfg in all_configs() {
        for u in ["/p?=&a=1", "/p?a=1&=", "/p?b=2&=&a=1"] {
            let router = router_with(&cfg, &[u]);
            let m = matches(&router, u);
            if !m {
                println!(
                    "F4 {u:?}: no self match, request form {:?}, route {}",
                    req(&router, u).path_and_query(),
                    serde_json::to_string(router.routes().values().next().unwrap().path_and_query()).unwrap()
                );
            }
            assert!(m, "rule from the literal URL must match the URL");
        }
    }
}

/// F5: skipped marketing params are appended behind the fragment of the target
#[test]
fn finding_5_skipped_params_after_fragment() {
    let cfg = config(false, true, true, &["utm_source"]);
    let mut failures = Vec::new();
    for (target, expected) in [
        ("/t#frag", "/t?utm_source=x#frag"),
        ("/t?x=1#frag", "/t?x=1&utm_source=x#frag"),
        ("https://example.org/#/spa/route?tab=1", "https://example.org/?utm_source=x#/spa/route?tab=1"),
    ] {
        let mut router = Router::<Rule>::from_config(cfg.clone());
        router.insert(rule_from("r", "/p", target));
        let got = location(&router, "/p?utm_source=x");
        println!("F5 target {target:?}: Location {got:?}, expected {expected:?}");
        if got.as_deref() != Some(expected) {
            failures.push(target);
        }
        // Action::get_target shares the code
        let r = req(&router, "/p?utm_source=x");
        let route = router.match_request(&r).pop().unwrap();
        assert_eq!(Action::get_target(&route, &r), got);
    }
    assert!(failures.is_empty(), "the target must carry the skipped params as query params: {failures:?}");
}

fn decoded_params(url: &str) -> Vec<(String, String)> {
    // what the application behind the target decodes (query only, fragment cut)
    let url = url.split('#').next().unwrap();
    let query = match url.find('?') {
        None => return Vec::new(),
        Some(i) => &url[i + 1..],
    };
    // minimal application/x-www-form-urlencoded decoder, bytes kept as latin-1 escapes when invalid
    let mut out = Vec::new();
    for piece in query.split('&').filter(|p| !p.is_empty()) {
        let (k, v) = match piece.find('=') {
            None => (piece, ""),
            Some(i) => (&piece[..i], &piece[i + 1..]),
        };
        out.push((pct_decode(k), pct_decode(v)));
    }
    out
}

fn pct_decode(s: &str) -> String {
    let b = s.as_bytes();
    let mut bytes = Vec::new();
    let mut i = 0;
    while i < b.len() {
        if b[i] == b'%' && i + 3 <= b.len() && s.is_char_boundary(i + 3) {
            if let Ok(v) = u8::from_str_radix(&s[i + 1..i + 3], 16) {
                bytes.push(v);
                i += 3;
                continue;
            }
        }
        bytes.push(if b[i] == b'+' { b' ' } else { b[i] });
        i += 1;
    }
    // keep invalid bytes distinguishable
    match String::from_utf8(bytes.clone()) {
        Ok(s) => s,
        Err(_) => bytes.iter().map(|b| format!("\\x{b:02X}")).collect(),
    }
}

/// F6: forwarded marketing params are decoded and re-encoded with a set that lacks '%', '&' and '=':
/// the target does not carry the params of the request
#[test]
fn finding_6_forwarded_params_corrupted() {
    let cfg = config(false, true, true, &["utm_source", "utm_medium"]);
    let router = router_with(&cfg, &["/p"]);
    let mut failures = Vec::new();
    for rq in [
        "/p?utm_source=50%25ad",
        "/p?utm_source=%2541",
        "/p?utm_source=news%26mail",
        "/p?utm_source=a%26utm_medium%3Dspoofed",
        "/p?utm_source=a%3Db",
    ] {
        let loc = location(&router, rq).expect("rule /p matches");
        let sent = decoded_params(rq);
        let carried = decoded_params(&loc);
        println!("F6 request {rq:?} -> Location {loc:?}; request params {sent:?}; target params {carried:?}");
        if sent != carried {
            failures.push(rq);
        }
    }
    assert!(failures.is_empty(), "target must carry the skipped params unchanged: {failures:?}");
}

/// F7: percent sequences that are not UTF-8 (legacy latin-1 URLs) are decoded lossily: distinct
/// values all become U+FFFD, so a rule matches URLs whose decoded params differ, and forwarded
/// params lose their value
#[test]
fn finding_7_non_utf8_percent_sequences_conflated() {
    let mut failures = Vec::new();
    for cfg in all_configs() {
        let router = router_with(&cfg, &["/search?q=caf%E9"]); // "café" in latin-1
        assert!(matches(&router, "/search?q=caf%E9"));
        for other in ["/search?q=caf%E8", "/search?q=caf%FF", "/search?q=caf%EF%BF%BD", "/search?q=caf%C3"] {
            if matches(&router, other) {
                failures.push(format!("rule /search?q=caf%E9 matches {other}"));
            }
        }
    }
    let cfg = config(false, true, true, &["utm_source"]);
    let router = router_with(&cfg, &["/p"]);
    let loc = location(&router, "/p?utm_source=caf%E9").unwrap();
    println!("F7 forwarded: {loc:?}");
    if decoded_params(&loc) != decoded_params("/p?utm_source=caf%E9") {
        failures.push(format!("forwarded value changed: {loc}"));
    }
    for f in &failures {
        println!("F7 {f}");
    }
    assert!(failures.is_empty());
}

/// F8 (minor): under the case flag the order of params whose keys differ only by case depends on
/// the case of the keys, so a case-swapped URL is not matched
#[test]
fn finding_8_case_swap_of_keys_differing_by_case() {
    let cfg = config(true, false, false, &[]);
    let u = "/p?a=1&A=2";
    let router = router_with(&cfg, &[u]);
    let a = matches(&router, u);
    let b = matches(&router, &swap_case(u)); // /P?A=1&a=2
    println!(
        "F8 u={a} swapped={b}; forms {:?} {:?}",
        req(&router, u).path_and_query(),
        req(&router, &swap_case(u)).path_and_query()
    );
    assert!(a);
    assert_eq!(a, b, "match(R, req(u)) == match(R, req(ascii_case_swap(u))) under the case flag");
}

#[test]
fn explore_borderline_fallbacks() {
    use redirectionio::api::Example;
    let cfg = config(false, true, true, &["utm_source"]);
    // from_example on a backtick URL
    let example: Example = serde_json::from_value(serde_json::json!({"url": "https://example.org/a`b?b=1&a=2", "must_match": true})).unwrap();
    println!("BORDER from_example backtick: {:?}", Request::from_example(&cfg, &example).map(|r| r.path_and_query()).map_err(|e| e.to_string()));
    let example: Example = serde_json::from_value(serde_json::json!({"url": "https://example.org/ab?b=1&a=2&utm_source=x", "must_match": true})).unwrap();
    println!("BORDER from_example plain: {:?}", Request::from_example(&cfg, &example).map(|r| r.path_and_query()).map_err(|e| e.to_string()));
    // very long URL
    let long = format!("/p?b={}&a=1", "x".repeat(70000));
    let router = router_with(&cfg, &[long.as_str()]);
    println!("BORDER long url self match: {}", matches(&router, &long));
    // absolute-form request target
    let router = router_with(&cfg, &["/p?b=1&a=2"]);
    println!("BORDER absolute-form: {} form {:?}", matches(&router, "http://example.org/p?b=1&a=2"), req(&router, "http://example.org/p?b=1&a=2").path_and_query());
}
