//! C13 — header filters implement add / remove / replace / override / default exactly.
use crate::engine::*;
use proptest::prelude::*;
use redirectionio::action::Action;
use redirectionio::api::HeaderFilter;
use redirectionio::filter::FilterHeaderAction;
use redirectionio::http::Header;
use serde::{Deserialize, Serialize};
use serde_json::{json, Value};

#[derive(Serialize, Deserialize, Clone, Debug, PartialEq)]
pub struct Case {
    pub headers: Vec<(String, String)>,
    /// (action, header name, value)
    pub filters: Vec<(String, String, String)>,
}

pub const ACTIONS: [&str; 6] = ["add", "remove", "replace", "override", "default", "frobnicate"];

/// Reference model: left fold of the five operations, ASCII-case-insensitive names.
/// The bool says whether the entry is an untouched input header (name must be kept exactly).
pub fn m_headers(headers: &[(String, String)], filters: &[(String, String, String)]) -> Vec<(String, String, bool)> {
    let mut cur: Vec<(String, String, bool)> = headers.iter().map(|(n, v)| (n.clone(), v.clone(), true)).collect();
    for (action, name, value) in filters {
        let same = |n: &str| n.eq_ignore_ascii_case(name);
        match action.as_str() {
            "add" => cur.push((name.clone(), value.clone(), false)),
            "remove" => cur.retain(|(n, _, _)| !same(n)),
            "replace" => {
                for h in cur.iter_mut() {
                    if same(&h.0) {
                        *h = (name.clone(), value.clone(), false);
                    }
                }
            }
            "override" => {
                let mut found = false;
                for h in cur.iter_mut() {
                    if same(&h.0) {
                        *h = (name.clone(), value.clone(), false);
                        found = true;
                    }
                }
                if !found {
                    cur.push((name.clone(), value.clone(), false));
                }
            }
            "default" => {
                if !cur.iter().any(|(n, _, _)| same(n)) {
                    cur.push((name.clone(), value.clone(), false));
                }
            }
            _ => {}
        }
    }
    cur
}

pub fn compare(expected: &[(String, String, bool)], got: &[Header], what: &str) -> Option<String> {
    let render = || {
        format!(
            "{what}: expected {:?} got {:?}",
            expected.iter().map(|(n, v, _)| format!("{n}: {v}")).collect::<Vec<_>>(),
            got.iter().map(|h| format!("{}: {}", h.name, h.value)).collect::<Vec<_>>()
        )
    };
    if expected.len() != got.len() {
        return Some(render());
    }
    for (e, g) in expected.iter().zip(got) {
        let name_ok = if e.2 { e.0 == g.name } else { e.0.eq_ignore_ascii_case(&g.name) };
        if !name_ok || e.1 != g.value {
            return Some(render());
        }
    }
    None
}

pub fn action_from_filters(filters: &[(String, String, String)]) -> Action {
    let hf: Vec<Value> = filters
        .iter()
        .map(|(a, h, v)| {
            json!({"filter": {"action": a, "header": h, "value": v, "id": null, "target_hash": null},
                   "on_response_status_codes": [], "exclude_response_status_codes": false, "rule_id": null})
        })
        .collect();
    serde_json::from_value(json!({
        "status_code_update": null, "header_filters": hf, "body_filters": [], "rule_ids": [],
        "rule_traces": [], "rules_applied": [], "log_override": null
    }))
    .expect("action json")
}

pub fn check(case: &Case) -> Outcome {
    let mut out = Outcome::new();
    out.evals = 2;
    let expected = m_headers(&case.headers, &case.filters);
    let input: Vec<Header> = case.headers.iter().map(|(n, v)| Header { name: n.clone(), value: v.clone() }).collect();

    // 1. FilterHeaderAction directly
    let filters: Vec<HeaderFilter> = case
        .filters
        .iter()
        .map(|(a, h, v)| HeaderFilter { action: a.clone(), header: h.clone(), value: v.clone(), id: None, target_hash: None })
        .collect();
    let got = match FilterHeaderAction::new(filters) {
        None => input.clone(),
        Some(f) => f.filter(input.clone(), None),
    };
    if let Some(m) = compare(&expected, &got, "FilterHeaderAction::filter") {
        out.fail(m);
        return out;
    }
    // 2. through the action
    let mut action = action_from_filters(&case.filters);
    let got2 = action.filter_headers(input.clone(), 200, false, None);
    if let Some(m) = compare(&expected, &got2, "Action::filter_headers") {
        out.fail(m);
        return out;
    }
    // "any response header list": the same action value serves every response it is asked about
    let got3 = action.filter_headers(input.clone(), 200, false, None);
    if let Some(m) = compare(&expected, &got3, "Action::filter_headers, second use of the same action") {
        out.fail(m);
        return out;
    }
    let got4 = action.clone().filter_headers(input, 200, false, None);
    if let Some(m) = compare(&expected, &got4, "Action::filter_headers on a clone taken after use") {
        out.fail(m);
        return out;
    }

    let untouched = expected.iter().filter(|e| e.2).count();
    let changed = expected.len() != case.headers.len() || untouched != case.headers.len();
    out.nontrivial = changed && untouched >= 1;
    for (a, _, _) in &case.filters {
        out.class(match a.as_str() {
            "add" => "op:add",
            "remove" => "op:remove",
            "replace" => "op:replace",
            "override" => "op:override",
            "default" => "op:default",
            _ => "op:unknown",
        });
    }
    if case.headers.iter().enumerate().any(|(i, a)| case.headers[..i].iter().any(|b| b.0.eq_ignore_ascii_case(&a.0))) {
        out.class("duplicate-name-in-input");
    }
    out
}

// ---- exhaustive scope ---------------------------------------------------------------------
const H_NAMES: [&str; 3] = ["X-A", "x-a", "X-B"];
const H_VALUES: [&str; 3] = ["1", "2", ""];
const F_NAMES: [&str; 3] = ["x-a", "X-B", "X-C"];

fn nth_header_list(mut i: u64) -> Vec<(String, String)> {
    // lists of length 0..=3 over 9 (name,value) pairs: 1 + 9 + 81 + 729 = 820
    let mut len = 0;
    let mut block = 1u64;
    while i >= block {
        i -= block;
        block *= 9;
        len += 1;
    }
    let mut v = Vec::new();
    for _ in 0..len {
        let d = (i % 9) as usize;
        i /= 9;
        v.push((H_NAMES[d / 3].to_string(), H_VALUES[d % 3].to_string()));
    }
    v
}

fn nth_filter_seq(mut i: u64) -> Vec<(String, String, String)> {
    let mut len = 0;
    let mut block = 1u64;
    while i >= block {
        i -= block;
        block *= 18;
        len += 1;
    }
    let mut v = Vec::new();
    for k in 0..len {
        let d = (i % 18) as usize;
        i /= 18;
        v.push((ACTIONS[d / 3].to_string(), F_NAMES[d % 3].to_string(), format!("v{k}")));
    }
    v
}

fn count_seqs(base: u64, max_len: u32) -> u64 {
    (0..=max_len).map(|l| base.pow(l)).sum()
}

fn strategy() -> BoxedStrategy<Case> {
    let name = pickw(vec![
        (3, "X-A".to_string()),
        (2, "x-a".to_string()),
        (2, "X-B".to_string()),
        (1, "Content-Type".to_string()),
        (1, "content-type".to_string()),
        (1, "Set-Cookie".to_string()),
        (1, "LOCATION".to_string()),
        (1, "Location".to_string()),
        // names that are prefixes of one another
        (1, "X-A-Long".to_string()),
        (1, "X".to_string()),
        (1, "Content-Type-Options".to_string()),
        (1, "x-a-".to_string()),
    ]);
    let value = prop_oneof![
        3 => pick(vec!["1".to_string(), "2".to_string(), "".to_string(), "a, b".to_string()]),
        1 => "[ -~]{0,12}".prop_map(|s| s),
        1 => "\\PC{0,6}".prop_map(|s| s),
    ];
    let headers = prop::collection::vec((name.clone(), value.clone()), 0..8);
    let filters = prop::collection::vec((pick(ACTIONS.iter().map(|s| s.to_string()).collect()), name, value), 0..7);
    (headers, filters).prop_map(|(headers, filters)| Case { headers, filters }).boxed()
}

// ---- filters spread over several matched rules (merged by Action::from_routes_rule) ----------------------
#[derive(Serialize, Deserialize, Clone, Debug, PartialEq)]
pub struct MergedCase {
    pub headers: Vec<(String, String)>,
    /// per rule: (rank, filters)
    pub rules: Vec<(u16, Vec<(String, String, String)>)>,
    pub order: Vec<u16>,
}

pub fn check_merged(case: &MergedCase) -> Outcome {
    use crate::spec::*;
    let mut out = Outcome::new();
    let specs: Vec<RuleSpec> = case
        .rules
        .iter()
        .enumerate()
        .map(|(i, (rank, fs))| {
            let mut r = RuleSpec::simple(&format!("r{i}"), "/foo");
            r.rank = *rank;
            r.header_filters = Some(fs.iter().map(|(a, h, v)| HeaderFilterSpec { action: a.clone(), header: h.clone(), value: v.clone(), id: None, target_hash: None }).collect());
            r
        })
        .collect();
    let req = RequestSpec { uri: "/foo".into(), ..Default::default() }.build(&ConfigSpec::default().to_lib());
    let routes = crate::props::c05::shuffled(&crate::props::c05::routes_of(&specs), &case.order);
    let mut action = Action::from_routes_rule(routes, &req, None);
    // rule order = rank descending, then id descending
    let mut sorted = specs.clone();
    crate::mfold::sort_rules(&mut sorted);
    let all: Vec<(String, String, String)> = sorted.iter().flat_map(|r| r.header_filters.clone().unwrap_or_default().into_iter().map(|f| (f.action, f.header, f.value))).collect();
    let expected = m_headers(&case.headers, &all);
    let input: Vec<Header> = case.headers.iter().map(|(n, v)| Header { name: n.clone(), value: v.clone() }).collect();
    let got = action.filter_headers(input.clone(), 200, false, None);
    if let Some(m) = compare(&expected, &got, "Action::filter_headers over merged rules") {
        out.fail(m);
        return out;
    }
    let again = action.filter_headers(input, 200, false, None);
    if let Some(m) = compare(&expected, &again, "Action::filter_headers over merged rules, second use of the same action") {
        out.fail(m);
        return out;
    }
    let untouched = expected.iter().filter(|e| e.2).count();
    out.nontrivial = case.rules.len() >= 2 && (expected.len() != case.headers.len() || untouched != case.headers.len()) && untouched >= 1;
    out.class("merged-rules");
    out
}

fn merged_strategy() -> BoxedStrategy<MergedCase> {
    let name = pick(vec!["X-A".to_string(), "x-a".to_string(), "X-B".to_string(), "X-A-Long".to_string()]);
    let value = pick(vec!["1".to_string(), "2".to_string(), "".to_string()]);
    let filter = (pick(ACTIONS.iter().map(|s| s.to_string()).collect()), name.clone(), value.clone());
    (prop::collection::vec((name, value), 0..4), prop::collection::vec((0u16..3, prop::collection::vec(filter, 1..3)), 1..5), prop::collection::vec(any::<u16>(), 5))
        .prop_map(|(headers, rules, order)| MergedCase { headers, rules, order })
        .boxed()
}

pub fn run(ctx: &Ctx) -> Report {
    let mut rep = Report::new(
        "C13",
        "case = (response header list, header-filter sequence); oracle = left fold of the reference operations (ASCII-case-insensitive names), \
         compared with FilterHeaderAction::filter and Action::filter_headers(h, 200, false, None), also for filters spread over 1..4 matched rules merged by Action::from_routes_rule (rule order = rank desc, id desc); exhaustive part enumerates header lists of length <=3 over \
         {X-A,x-a,X-B}x{1,2,''} x filter sequences over 6 actions x {x-a,X-B,X-C}; non-trivial = at least one header changed/added/removed AND at least one input header left untouched; distinct by hash of the serialised case",
    );
    rep.assume("header names are ASCII (HTTP tokens); untouched headers must keep their exact spelling, rewritten/appended ones are compared case-insensitively on the name");
    let max_len = ctx.tier.pick(2, 3) as u32;
    let n_h = count_seqs(9, 3);
    let n_f = count_seqs(18, max_len);
    let total = n_h * n_f;
    let r = run_enum(
        ctx,
        "exhaustive",
        total,
        true,
        &format!("all {n_h} header lists of length <=3 x all {n_f} filter sequences of length <={max_len}"),
        |i| Some(Case { headers: nth_header_list(i % n_h), filters: nth_filter_seq(i / n_h) }),
        check,
        &[],
    );
    rep.add(r);
    if !rep.has_violation() {
        let r = run_part(ctx, "random", ctx.cases(1_000_000, 30_000_000), strategy, check, &[]);
        rep.add(r);
    }
    if !rep.has_violation() {
        rep.add(run_part(ctx, "merged-rules", ctx.cases(300_000, 10_000_000), merged_strategy, check_merged, &[]));
    }
    rep
}

pub fn replay(part: &str, case: &Value) -> Result<Outcome, String> {
    if part == "merged-rules" {
        replay_case::<MergedCase, _>(case, check_merged)
    } else {
        replay_case::<Case, _>(case, check)
    }
}
