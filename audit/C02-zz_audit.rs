// C02 audit: fuzzers and probes (see _out/FINDINGS.md; the short failing reproducers are in zz_audit_min.rs).
// Debug builds are slow: tree_differential_fuzz ~10 min, router_differential_fuzz ~10 s per seed
// (AUDIT_SEEDS / AUDIT_START choose the seeds, AUDIT_NODUP=1 removes duplicated ips / methods entries from the pool).
// Expected on the unchanged tree: the three *_differential_fuzz tests and borderline_probes pass,
// f1_* and f2_* fail, router_remove_only_trace_fuzz fails unless AUDIT_NODUP=1.
#![allow(dead_code)]
extern crate redirectionio;

use redirectionio::RouterConfig;
use redirectionio::api::{Rule, RuleChangeSet};
use redirectionio::http::Request;
use redirectionio::regex_radix_tree::{RegexTreeMap, UniqueRegexTreeMap};
use redirectionio::router::{Router, Trace};
use serde_json::{Value, json};
use std::collections::{BTreeMap, BTreeSet, HashSet};
use std::sync::Arc;

// ---------------------------------------------------------------- prng

struct Rng(u64);

impl Rng {
    fn next(&mut self) -> u64 {
        self.0 ^= self.0 << 13;
        self.0 ^= self.0 >> 7;
        self.0 ^= self.0 << 17;
        self.0
    }
    fn below(&mut self, n: usize) -> usize {
        (self.next() % (n as u64)) as usize
    }
    fn pick<'a, T>(&mut self, v: &'a [T]) -> &'a T {
        &v[self.below(v.len())]
    }
    fn chance(&mut self, num: usize, den: usize) -> bool {
        self.below(den) < num
    }
}

// ---------------------------------------------------------------- rule generator

fn gen_rule(rng: &mut Rng, id: &str) -> Value {
    let schemes: Vec<Value> = vec![Value::Null, Value::Null, json!("http"), json!("https"), json!("")];
    let hosts: Vec<Value> = vec![
        Value::Null,
        Value::Null,
        json!(""),
        json!("example.com"),
        json!("Example.com"),
        json!("www.example.org"),
        json!("@sub.example.com"),
        json!("@sub.example.org"),
        json!("www.@dom.com"),
        json!("@sub.Example.com"),
        json!("é.example.com"),
    ];
    let paths: Vec<&str> = vec![
        "/",
        "/foo",
        "/Foo",
        "/foo/bar",
        "/foo/baz",
        "/foo/@a",
        "/foo/@a/x",
        "/foo/@a/y",
        "/foo/@b",
        "/foo/@b/x",
        "/fo@a",
        "/@a",
        "/@a/@b",
        "/é/@a",
        "/é/@b",
        "/éa/@a",
        "/foo.html",
        "/foo.@a",
        "/foo(@a)",
        "/foo(@a)x",
        "/foo[@a]",
        "/foo/@c",
        "/foo/@c/x",
        "/foo/@d",
        "/foo/@d-x",
        "/FOO/@a",
        "/bar@a/@b",
        "/bar@a/q",
        "/bar@b",
        "",
    ];
    let queries: Vec<Value> = vec![Value::Null, Value::Null, Value::Null, json!("a=1"), json!("b=2&a=1"), json!("a=@a"), json!("A=1")];
    let methods: Vec<Value> = vec![
        Value::Null,
        Value::Null,
        json!([]),
        json!(["GET"]),
        json!(["POST"]),
        json!(["GET", "POST"]),
        json!(["POST", "GET"]),
        if std::env::var("AUDIT_NODUP").is_ok() { json!(["PUT"]) } else { json!(["GET", "GET"]) },
    ];
    let ips: Vec<Value> = vec![
        Value::Null,
        Value::Null,
        Value::Null,
        json!([]),
        json!([{"in_range": "10.0.0.0/8"}]),
        json!([{"not_in_range": "10.0.0.0/8"}]),
        json!([{"in_range": "10.0.0.0/8"}, {"in_range": "10.1.0.0/16"}]),
        if std::env::var("AUDIT_NODUP").is_ok() { json!([{"in_range": "10.2.0.0/16"}]) } else { json!([{"in_range": "10.0.0.0/8"}, {"in_range": "10.0.0.0/8"}]) },
        json!([{"in_range": "bad"}]),
        json!([{"in_range": "::1/128"}, {"not_in_range": "192.168.0.0/16"}]),
    ];
    let headers: Vec<Value> = vec![
        Value::Null,
        Value::Null,
        Value::Null,
        json!([]),
        json!([{"type": "is_defined", "name": "X-Test", "value": null}]),
        json!([{"type": "is_not_defined", "name": "X-Test", "value": null}]),
        json!([{"type": "is_equals", "name": "X-Test", "value": "Abc"}]),
        json!([{"type": "is_equals", "name": "x-test", "value": "Abc"}]),
        json!([{"type": "is_equals", "name": "X-Test", "value": null}]),
        json!([{"type": "contains", "name": "X-Test", "value": "b"}, {"type": "is_defined", "name": "X-Other", "value": null}]),
        json!([{"type": "match_regex", "name": "X-Test", "value": "A@a"}]),
        json!([{"type": "bogus", "name": "X-Test", "value": "A"}]),
    ];
    let datetimes: Vec<Value> = vec![
        Value::Null,
        Value::Null,
        Value::Null,
        Value::Null,
        json!([["2020-01-01T00:00:00Z", "2030-01-01T00:00:00Z"]]),
        json!([[null, "2020-01-01T00:00:00Z"]]),
        json!([]),
    ];
    let times: Vec<Value> = vec![Value::Null, Value::Null, Value::Null, Value::Null, json!([["08:00:00", "18:00:00"]]), json!([["bad", null]])];
    let weekdays: Vec<Value> = vec![Value::Null, Value::Null, Value::Null, Value::Null, json!(["monday", "tuesday"]), json!(["bogus"]), json!([])];
    let marker_regexes_a: Vec<&str> = vec![".+?", "[a-z]+", "[0-9]+", "(x|y)", ".*", "[é]+", "a?"];

    let mut source = serde_json::Map::new();
    source.insert("path".into(), json!(*rng.pick(&paths)));
    let q = rng.pick(&queries).clone();
    if !q.is_null() {
        source.insert("query".into(), q);
    }
    let s = rng.pick(&schemes).clone();
    if !s.is_null() {
        source.insert("scheme".into(), s);
    }
    let h = rng.pick(&hosts).clone();
    if !h.is_null() {
        source.insert("host".into(), h);
    }
    let m = rng.pick(&methods).clone();
    if !m.is_null() {
        source.insert("methods".into(), m);
        if rng.chance(1, 3) {
            source.insert("exclude_methods".into(), json!(rng.chance(2, 3)));
        }
    }
    let i = rng.pick(&ips).clone();
    if !i.is_null() {
        source.insert("ips".into(), i);
    }
    let hd = rng.pick(&headers).clone();
    if !hd.is_null() {
        source.insert("headers".into(), hd);
    }
    let d = rng.pick(&datetimes).clone();
    if !d.is_null() {
        source.insert("datetime".into(), d);
    }
    let t = rng.pick(&times).clone();
    if !t.is_null() {
        source.insert("time".into(), t);
    }
    let w = rng.pick(&weekdays).clone();
    if !w.is_null() {
        source.insert("weekdays".into(), w);
    }

    let markers = json!([
        {"name": "a", "regex": *rng.pick(&marker_regexes_a)},
        {"name": "b", "regex": *rng.pick(&marker_regexes_a)},
        {"name": "c", "regex": "[a-z]+"},
        {"name": "d", "regex": "[a-z)]+"},
        {"name": "sub", "regex": *rng.pick(&["[a-z]+", ".+", "(www|api)"])},
        {"name": "dom", "regex": "[a-z]+"},
    ]);

    json!({
        "id": id,
        "rank": rng.below(3),
        "source": Value::Object(source),
        "status_code": 302,
        "target": "/t",
        "markers": markers,
    })
}

fn to_rule(v: &Value) -> Rule {
    serde_json::from_value(v.clone()).expect("rule")
}

// ---------------------------------------------------------------- probes

fn probes() -> Vec<Request> {
    let paths = [
        "/", "/foo", "/Foo", "/FOO", "/foo/bar", "/foo/baz", "/foo/abc", "/foo/123", "/foo/abc/x", "/foo/abc/y", "/foo/x", "/foo/x/x",
        "/foo.html", "/foo.abc", "/foo(abc)", "/foo(x)x", "/foo[abc]", "/fox", "/abc", "/abc/def", "/%C3%A9/abc", "/é/abc", "/éa/x",
        "/foo?a=1", "/foo?a=1&b=2", "/foo?b=2&a=1", "/foo?a=xyz", "/foo?A=1", "/foo/abc?a=1", "/foo/a)b", "/foo/abc-x", "/FOO/abc",
        "/barx/y", "/barx/q", "/barx", "", "/foo/", "/foo/?utm_source=x", "/x/y",
    ];
    let hosts: [Option<&str>; 9] = [
        None,
        Some("example.com"),
        Some("Example.com"),
        Some("www.example.org"),
        Some("api.example.com"),
        Some("www.example.com"),
        Some("www.abc.com"),
        Some("é.example.com"),
        Some("other.net"),
    ];
    let schemes: [Option<&str>; 3] = [None, Some("http"), Some("https")];
    let methods: [Option<&str>; 3] = [None, Some("POST"), Some("PUT")];
    let ips: [Option<&str>; 4] = [None, Some("10.1.2.3"), Some("192.168.1.1"), Some("::1")];
    let headers: [Option<(&str, &str)>; 4] = [None, Some(("X-Test", "Abc")), Some(("x-test", "abc")), Some(("X-Other", "1"))];
    let dates = ["2025-06-02T10:00:00Z", "2019-06-08T20:00:00Z"]; // a monday in range / a saturday before 2020

    let default_config = RouterConfig::default();
    let mut out = Vec::new();
    let mut k = 0usize;

    for p in paths.iter() {
        for h in hosts.iter() {
            // vary the other dimensions deterministically so that the product stays small
            for extra in 0..4 {
                k += 1;
                let scheme = schemes[(k + extra) % schemes.len()];
                let method = methods[(k / 2 + extra) % methods.len()];
                let ip = ips[(k / 3 + extra) % ips.len()];
                let header = headers[(k / 5 + extra) % headers.len()];
                let date = dates[(k / 7 + extra) % dates.len()];

                let mut r = Request::from_config(
                    &default_config,
                    p.to_string(),
                    h.map(|s| s.to_string()),
                    scheme.map(|s| s.to_string()),
                    method.map(|s| s.to_string()),
                    ip.map(|s| s.parse().unwrap()),
                    None,
                );
                if let Some((n, v)) = header {
                    r.add_header(n.to_string(), v.to_string(), false);
                }
                r.set_created_at(Some(date.to_string()));
                out.push(r);
            }
        }
    }

    out
}

fn configs() -> Vec<RouterConfig> {
    let mut v = Vec::new();
    for bits in 0..16u32 {
        let c: RouterConfig = serde_json::from_value(json!({
            "ignore_host_case": bits & 1 != 0,
            "ignore_header_case": bits & 2 != 0,
            "ignore_path_and_query_case": bits & 4 != 0,
            "always_match_any_host": bits & 8 != 0,
            "ignore_marketing_query_params": bits & 2 == 0,
            "pass_marketing_query_params_to_target": true,
        }))
        .unwrap();
        v.push(c);
    }
    v
}

// ---------------------------------------------------------------- comparison

fn ids_of(router: &Router<Rule>, request: &Request) -> Vec<String> {
    let mut ids: Vec<String> = router.match_request(request).iter().map(|r| r.id().to_string()).collect();
    ids.sort();
    ids
}

fn trace_ids_of(router: &Router<Rule>, request: &Request) -> Vec<String> {
    let traces = router.trace_request(request);
    let mut ids: Vec<String> = Trace::<Rule>::get_routes_from_traces(&traces).iter().map(|r| r.id().to_string()).collect();
    ids.sort();
    ids
}

fn build(config: &RouterConfig, live: &BTreeMap<String, Value>) -> Router<Rule> {
    let mut router = Router::<Rule>::from_config(config.clone());
    for v in live.values() {
        router.insert(to_rule(v));
    }
    router
}

fn answers(router: &Router<Rule>, probes: &[Request]) -> Vec<Vec<String>> {
    probes
        .iter()
        .step_by(5)
        .map(|q| {
            let q = Request::rebuild_with_config(&router.config, q);
            ids_of(router, &q)
        })
        .collect()
}

fn check_equiv(tag: &str, router: &Router<Rule>, config: &RouterConfig, live: &BTreeMap<String, Value>, probes: &[Request], history: &[String]) {
    let mut fresh = build(config, live);
    fresh.cache(Some(1_000_000));
    // a cached clone answers like the router itself (same buckets, same tree shape), much faster in a debug build
    let mut cached = router.clone();
    cached.cache(Some(1_000_000));

    assert_eq!(router.len(), live.len(), "{tag}: len\nhistory: {history:#?}");
    for id in live.keys() {
        assert!(router.get_route_by_id(id).is_some(), "{tag}: get_route_by_id({id})");
    }

    for (n, q) in probes.iter().enumerate() {
        let q = Request::rebuild_with_config(config, q);
        let a = ids_of(&cached, &q);
        let b = ids_of(&fresh, &q);
        if a != b {
            panic!(
                "{tag}: MATCH DIFFERS for {:?}\n incremental={a:?}\n rebuilt={b:?}\n live={}\n history={history:#?}",
                q,
                serde_json::to_string(&live.values().collect::<Vec<_>>()).unwrap()
            );
        }
        if n % 4 == 0 {
            let ta = trace_ids_of(&cached, &q);
            if ta != a {
                panic!("{tag}: TRACE ROUTES DIFFER from match for {:?}\n match={a:?}\n trace={ta:?}\n history={history:#?}", q);
            }
        }
        if n % 16 == 0 {
            let raw = ids_of(router, &q);
            if raw != a {
                panic!("{tag}: UNCACHED DIFFERS from cached clone for {:?}\n uncached={raw:?}\n cached={a:?}\n history={history:#?}", q);
            }
        }
    }
}

// ---------------------------------------------------------------- router differential fuzz

fn run_router_fuzz(seed: u64, steps: usize, _pool: usize) {
    let mut rng = Rng(seed.wrapping_mul(0x9E3779B97F4A7C15) | 1);
    let configs = configs();
    let config = configs[rng.below(configs.len())].clone();
    let all_probes = probes();
    // a sample of probes per run, the whole set is large
    let probes: Vec<Request> = all_probes.iter().filter(|_| rng.chance(1, 4)).cloned().collect();

    let mut router = Router::<Rule>::from_config(config.clone());
    let mut live: BTreeMap<String, Value> = BTreeMap::new();
    let mut history: Vec<String> = Vec::new();
    // snapshots: (router arc, expected answers)
    let mut snapshots: Vec<(Arc<Router<Rule>>, Vec<Vec<String>>, usize)> = Vec::new();
    let mut next_id = 0usize;

    for step in 0..steps {
        let op = rng.below(100);
        if op < 35 || live.is_empty() {
            // insert
            let id = if rng.chance(1, 3) && next_id > 0 {
                // reuse an id which is not live any more
                let cand = format!("r{}", rng.below(next_id));
                if live.contains_key(&cand) {
                    next_id += 1;
                    format!("r{}", next_id - 1)
                } else {
                    cand
                }
            } else {
                next_id += 1;
                format!("r{}", next_id - 1)
            };
            let v = gen_rule(&mut rng, &id);
            history.push(format!("insert {}", v));
            router.insert(to_rule(&v));
            live.insert(id, v);
        } else if op < 55 {
            // remove
            let keys: Vec<String> = live.keys().cloned().collect();
            let id = if rng.chance(1, 8) { "nope".to_string() } else { rng.pick(&keys).clone() };
            history.push(format!("remove {id}"));
            let removed = router.remove(&id);
            if live.remove(&id).is_some() {
                match removed {
                    None => panic!("remove({id}) returned None for a live rule\nhistory={history:#?}"),
                    Some(r) => assert_eq!(r.id(), id),
                }
            } else {
                assert!(removed.is_none());
            }
            assert!(router.get_route_by_id(&id).is_none());
        } else if op < 65 {
            // batch remove
            let keys: Vec<String> = live.keys().cloned().collect();
            let mut set = HashSet::new();
            for _ in 0..rng.below(4) {
                set.insert(rng.pick(&keys).clone());
            }
            if rng.chance(1, 4) {
                set.insert("nope".to_string());
            }
            history.push(format!("batch_remove {set:?}"));
            router.batch_remove(&set);
            for id in &set {
                live.remove(id);
            }
        } else if op < 90 {
            // change set, in place or on a clone of a shared router
            let keys: Vec<String> = live.keys().cloned().collect();
            let mut deleted = HashSet::new();
            let mut updated = Vec::new();
            let mut added = Vec::new();
            let mut touched = BTreeSet::new();
            for _ in 0..rng.below(3) {
                let id = rng.pick(&keys).clone();
                if touched.insert(id.clone()) {
                    deleted.insert(id);
                }
            }
            for _ in 0..rng.below(3) {
                let id = rng.pick(&keys).clone();
                if touched.insert(id.clone()) {
                    updated.push(gen_rule(&mut rng, &id));
                }
            }
            for _ in 0..rng.below(3) {
                let id = if rng.chance(1, 3) && !deleted.is_empty() {
                    // delete and recreate
                    let d: Vec<&String> = deleted.iter().collect();
                    (*rng.pick(&d)).clone()
                } else {
                    next_id += 1;
                    format!("r{}", next_id - 1)
                };
                if added.iter().any(|a: &Value| a["id"] == json!(id)) {
                    continue;
                }
                added.push(gen_rule(&mut rng, &id));
            }
            history.push(format!(
                "change_set added={} updated={} deleted={:?}",
                serde_json::to_string(&added).unwrap(),
                serde_json::to_string(&updated).unwrap(),
                deleted
            ));

            for id in &deleted {
                live.remove(id);
            }
            for v in &updated {
                live.insert(v["id"].as_str().unwrap().to_string(), v.clone());
            }
            for v in &added {
                live.insert(v["id"].as_str().unwrap().to_string(), v.clone());
            }

            if rng.chance(1, 2) {
                router.apply_change_set(added.iter().map(to_rule).collect(), updated.iter().map(to_rule).collect(), deleted);
            } else {
                let shared = Arc::new(router);
                let expected = answers(&shared, &probes);
                let cs = RuleChangeSet {
                    added: added.iter().map(to_rule).collect(),
                    updated: updated.iter().map(to_rule).collect(),
                    deleted,
                };
                router = cs.update_existing_router(shared.clone());
                snapshots.push((shared, expected, step));
                if snapshots.len() > 4 {
                    snapshots.remove(0);
                }
            }
        } else {
            let n = [0u64, 1, 2, 5, 1000][rng.below(5)];
            let limit = if rng.chance(1, 4) { None } else { Some(n) };
            history.push(format!("cache {limit:?}"));
            router.cache(limit);
        }

        check_equiv(&format!("seed {seed} step {step}"), &router, &config, &live, &probes, &history);

        for (snap, expected, at) in &snapshots {
            let now = answers(snap, &probes);
            assert_eq!(&now, expected, "seed {seed}: snapshot taken at step {at} changed at step {step}\nhistory={history:#?}");
        }
    }
}

#[test]
fn router_differential_fuzz() {
    let seeds: u64 = std::env::var("AUDIT_SEEDS").ok().and_then(|s| s.parse().ok()).unwrap_or(60);
    let start: u64 = std::env::var("AUDIT_START").ok().and_then(|s| s.parse().ok()).unwrap_or(1);
    for seed in start..start + seeds {
        run_router_fuzz(seed, 50, 0);
        eprintln!("seed {seed} ok");
    }
}

// ---------------------------------------------------------------- tree differential fuzz

fn tree_regex_pool() -> Vec<&'static str> {
    vec![
        "/a", "/ab", "/abc", "/abd", "/a(?:b)", "/a(?:b)c", "/a(?:b)d", "/a(?:bc)", "/a(?:bd)", "/a(?:bc)d", "/a\\.b", "/a\\.c", "/a\\.",
        "/a[bc]", "/a[bd]", "/a[bc]d", "/a[bc]e", "/é", "/éa", "/éb", "/é(?:a)", "/", "/b", "/(?:.*)", "/(?:.*)x", "/(?:.*)y",
        "/a(?:[)]b)", "/a(?:[)]c)", "/a\\(b", "/a\\(c", "/a\\\\b", "/a\\\\c", "/A", "/Ab",
    ]
}

fn tree_haystacks() -> Vec<&'static str> {
    vec![
        "/a", "/ab", "/abc", "/abd", "/abcd", "/a.b", "/a.c", "/a.", "/ac", "/ad", "/abe", "/é", "/éa", "/éb", "", "/", "/b", "/zzx", "/zzy",
        "/a)b", "/a)c", "/a(b", "/a(c", "/a\\b", "/a\\c", "/A", "/Ab", "/AB", "/acd", "/ace",
    ]
}

#[test]
fn tree_differential_fuzz() {
    let pool = tree_regex_pool();
    let hay = tree_haystacks();

    for seed in 1..400u64 {
        let mut rng = Rng(seed.wrapping_mul(0x9E3779B97F4A7C15) | 1);
        let ignore_case = rng.chance(1, 2);
        let mut tree: RegexTreeMap<String> = RegexTreeMap::new(ignore_case);
        let mut live: BTreeMap<String, String> = BTreeMap::new(); // id -> regex
        let mut hist = Vec::new();
        let mut next = 0;

        for _step in 0..40 {
            let op = rng.below(100);
            if op < 45 || live.is_empty() {
                let id = format!("i{next}");
                next += 1;
                let re = rng.pick(&pool).to_string();
                hist.push(format!("insert {re:?} {id}"));
                tree.insert(&re, &id, id.clone());
                live.insert(id, re);
            } else if op < 70 {
                let keys: Vec<String> = live.keys().cloned().collect();
                let id = rng.pick(&keys).clone();
                hist.push(format!("remove {id}"));
                let r = tree.remove(&id);
                assert_eq!(r.as_deref(), Some(id.as_str()), "{hist:#?}");
                live.remove(&id);
            } else if op < 85 {
                let keys: Vec<String> = live.keys().cloned().collect();
                let mut set = HashSet::new();
                for _ in 0..rng.below(5) {
                    set.insert(rng.pick(&keys).clone());
                }
                hist.push(format!("retain not in {set:?}"));
                tree.retain(&|id, _| !set.contains(id));
                for id in &set {
                    live.remove(id);
                }
            } else if op < 92 {
                hist.push("clone".to_string());
                let c = tree.clone();
                tree = c;
            } else {
                let l = rng.below(4) as u64;
                hist.push(format!("cache {l}"));
                tree.cache(l, None);
            }

            assert_eq!(tree.len(), live.len(), "len {hist:#?}");
            assert_eq!(tree.is_empty(), live.is_empty());

            let mut fresh: RegexTreeMap<String> = RegexTreeMap::new(ignore_case);
            for (id, re) in &live {
                fresh.insert(re, id, id.clone());
            }

            for h in &hay {
                let mut a: Vec<String> = tree.find(h).into_iter().cloned().collect();
                a.sort();
                let mut b: Vec<String> = fresh.find(h).into_iter().cloned().collect();
                b.sort();
                let mut naive: Vec<String> = live
                    .iter()
                    .filter(|(_, re)| {
                        regex::RegexBuilder::new(&format!("^{re}$"))
                            .case_insensitive(ignore_case)
                            .build()
                            .map(|r| r.is_match(h))
                            .unwrap_or(false)
                    })
                    .map(|(id, _)| id.clone())
                    .collect();
                naive.sort();
                assert_eq!(a, b, "seed {seed} find({h:?}) incremental vs rebuilt, ignore_case={ignore_case}\n{hist:#?}");
                assert_eq!(a, naive, "seed {seed} find({h:?}) incremental vs naive, ignore_case={ignore_case}\n{hist:#?}");
            }
        }
    }
}

#[test]
fn unique_tree_differential_fuzz() {
    let pool = tree_regex_pool();

    for seed in 1..300u64 {
        let mut rng = Rng(seed.wrapping_mul(0x9E3779B97F4A7C15) | 1);
        let mut tree: UniqueRegexTreeMap<Vec<u32>> = UniqueRegexTreeMap::new(false);
        let mut live: BTreeMap<String, Vec<u32>> = BTreeMap::new();
        let mut hist = Vec::new();
        let mut n = 0u32;

        for _ in 0..40 {
            let op = rng.below(100);
            if op < 55 || live.is_empty() {
                // what HostMatcher::insert does
                let re = rng.pick(&pool).to_string();
                n += 1;
                hist.push(format!("add {n} to {re:?}"));
                match tree.get_mut(&re) {
                    Some(v) => v.push(n),
                    None => tree.insert(&re, vec![n]),
                }
                live.entry(re).or_default().push(n);
            } else {
                // what HostMatcher::remove does
                let all: Vec<u32> = live.values().flatten().cloned().collect();
                let x = *rng.pick(&all);
                hist.push(format!("drop {x}"));
                tree.retain(&|_, v| {
                    v.retain(|y| *y != x);
                    !v.is_empty()
                });
                for v in live.values_mut() {
                    v.retain(|y| *y != x);
                }
                live.retain(|_, v| !v.is_empty());
            }

            assert_eq!(tree.len(), live.len(), "{hist:#?}");
            for (re, v) in &live {
                assert_eq!(tree.get(re), Some(v), "get({re:?}) {hist:#?}");
            }
        }
    }
}

// ---------------------------------------------------------------- F1: batch_remove / apply_change_set leave every per-layer count stale

fn canon(v: &Value) -> Value {
    match v {
        Value::Array(a) => {
            let mut items: Vec<Value> = a.iter().map(canon).collect();
            items.sort_by_key(|x| serde_json::to_string(x).unwrap());
            Value::Array(items)
        }
        Value::Object(o) => Value::Object(o.iter().map(|(k, x)| (k.clone(), canon(x))).collect()),
        other => other.clone(),
    }
}

fn trace_json(router: &Router<Rule>, request: &Request) -> Value {
    canon(&serde_json::to_value(router.trace_request(request)).unwrap())
}

fn count_key(v: &Value, key: &str, val: &str, out: &mut usize) {
    match v {
        Value::Array(a) => a.iter().for_each(|x| count_key(x, key, val, out)),
        Value::Object(o) => {
            if o.get(key).and_then(|x| x.as_str()) == Some(val) {
                *out += 1;
            }
            o.values().for_each(|x| count_key(x, key, val, out));
        }
        _ => (),
    }
}

fn simple_rule(id: &str, host: Option<&str>, path: &str) -> Rule {
    let mut source = json!({"path": path});
    if let Some(h) = host {
        source["host"] = json!(h);
    }
    serde_json::from_value(json!({"id": id, "rank": 0, "source": source, "status_code": 302, "target": "/t"})).unwrap()
}

/// same history, once through remove() and once through batch_remove(): only the first one gives the trace of a rebuilt router
#[test]
fn f1_batch_remove_leaves_counts_and_empty_buckets() {
    let config = RouterConfig::default();
    let request = Request::from_config(&config, "/y".to_string(), Some("a.com".to_string()), Some("http".to_string()), None, None, None);

    let build = || {
        let mut r = Router::<Rule>::from_config(config.clone());
        r.insert(simple_rule("r1", Some("a.com"), "/x"));
        r.insert(simple_rule("r2", None, "/y"));
        r
    };

    let mut fresh = Router::<Rule>::from_config(config.clone());
    fresh.insert(simple_rule("r2", None, "/y"));
    let expected = trace_json(&fresh, &request);

    let mut by_remove = build();
    assert!(by_remove.remove("r1").is_some());
    assert_eq!(trace_json(&by_remove, &request), expected, "remove(): same trace as a rebuilt router");

    let mut by_batch = build();
    by_batch.batch_remove(&HashSet::from(["r1".to_string()]));
    assert_eq!(ids_of(&by_batch, &request), vec!["r2".to_string()]);
    assert_eq!(by_batch.len(), 1);
    let observed = trace_json(&by_batch, &request);
    println!("rebuilt : {}", serde_json::to_string(&expected).unwrap());
    println!("observed: {}", serde_json::to_string(&observed).unwrap());
    assert_eq!(observed, expected, "batch_remove(): trace differs from the one of a rebuilt router");
}

/// the way every project-level API derives its router: the emptied bucket stays, with the count it had
#[test]
fn f1_change_set_on_shared_router_keeps_dead_host_bucket() {
    let config = RouterConfig::default();
    let mut base = Router::<Rule>::from_config(config.clone());
    base.insert(simple_rule("r1", Some("a.com"), "/x"));
    base.insert(simple_rule("r2", None, "/y"));
    let shared = Arc::new(base);

    let derived = RuleChangeSet {
        added: vec![],
        updated: vec![],
        deleted: HashSet::from(["r1".to_string()]),
    }
    .update_existing_router(shared.clone());

    let mut fresh = Router::<Rule>::from_config(config.clone());
    fresh.insert(simple_rule("r2", None, "/y"));

    let request = Request::from_config(&config, "/y".to_string(), Some("a.com".to_string()), None, None, None, None);
    let observed = trace_json(&derived, &request);
    let expected = trace_json(&fresh, &request);

    let mut stale = 0;
    count_key(&observed, "against", "a.com", &mut stale);
    println!("observed: {}", serde_json::to_string(&observed).unwrap());
    println!("expected: {}", serde_json::to_string(&expected).unwrap());
    assert_eq!(stale, 0, "a host bucket without any rule is still traced (with count 1)");
    assert_eq!(observed, expected);
}

/// the buckets are never released: a router kept up to date with change-sets grows with every host it ever saw,
/// and a later remove() cannot prune them either
#[test]
fn f1_change_sets_accumulate_dead_buckets() {
    let config = RouterConfig::default();
    let mut router = Router::<Rule>::from_config(config.clone());
    router.insert(simple_rule("keep", None, "/y"));

    for i in 0..50 {
        // the rule moves from host to host, as an "updated" entry of a change-set
        router.apply_change_set(vec![], vec![simple_rule("moving", Some(format!("h{i}.com").as_str()), "/x")], HashSet::new());
    }
    assert!(router.remove("moving").is_some());
    assert_eq!(router.len(), 1);

    let request = Request::from_config(&config, "/y".to_string(), Some("other.com".to_string()), None, None, None, None);
    let observed = serde_json::to_value(router.trace_request(&request)).unwrap();
    let mut buckets = 0;
    count_key(&observed, "type", "host_static", &mut buckets);

    let mut fresh = Router::<Rule>::from_config(config.clone());
    fresh.insert(simple_rule("keep", None, "/y"));
    let expected = serde_json::to_value(fresh.trace_request(&request)).unwrap();
    let mut fresh_buckets = 0;
    count_key(&expected, "type", "host_static", &mut fresh_buckets);

    println!("host_static traces: incremental={buckets} rebuilt={fresh_buckets}");
    assert_eq!(buckets, fresh_buckets, "dead host buckets are kept (and traced) for ever");
}

// ---------------------------------------------------------------- histories made of insert / remove only: the whole trace is the one of a rebuilt router

#[test]
fn router_remove_only_trace_fuzz() {
    let seeds: u64 = std::env::var("AUDIT_SEEDS").ok().and_then(|s| s.parse().ok()).unwrap_or(40);
    let all_probes = probes();

    for seed in 1..=seeds {
        let mut rng = Rng(seed.wrapping_mul(0xD1B54A32D192ED03) | 1);
        let configs = configs();
        let config = configs[rng.below(configs.len())].clone();
        let probes: Vec<Request> = all_probes.iter().filter(|_| rng.chance(1, 40)).cloned().collect();
        let mut router = Router::<Rule>::from_config(config.clone());
        let mut live: BTreeMap<String, Value> = BTreeMap::new();
        let mut history = Vec::new();

        for step in 0..40 {
            if rng.chance(3, 5) || live.is_empty() {
                let id = format!("r{step}");
                let v = gen_rule(&mut rng, &id);
                history.push(format!("insert {v}"));
                router.insert(to_rule(&v));
                live.insert(id, v);
            } else {
                let keys: Vec<String> = live.keys().cloned().collect();
                let id = rng.pick(&keys).clone();
                history.push(format!("remove {id}"));
                assert!(router.remove(&id).is_some());
                live.remove(&id);
            }

            let mut fresh = build(&config, &live);
            fresh.cache(Some(1_000_000));
            let mut cached = router.clone();
            cached.cache(Some(1_000_000));

            for q in &probes {
                let q = Request::rebuild_with_config(&config, q);
                let a = trace_json(&cached, &q);
                let b = trace_json(&fresh, &q);
                if a != b {
                    panic!(
                        "seed {seed} step {step}: TRACE DIFFERS from rebuilt for {q:?}\n incremental={}\n rebuilt={}\n history={history:#?}",
                        serde_json::to_string(&a).unwrap(),
                        serde_json::to_string(&b).unwrap()
                    );
                }
            }
        }
        eprintln!("trace seed {seed} ok");
    }
}

// ---------------------------------------------------------------- F2: a list entry given twice is counted twice, stored once

fn rule_json(v: Value) -> Rule {
    serde_json::from_value(v).unwrap()
}

#[test]
fn f2_duplicate_list_entries_inflate_counts() {
    let config = RouterConfig::default();
    let mut failures = Vec::new();

    for (name, source) in [
        ("ips", json!({"path": "/x", "ips": [{"in_range": "10.0.0.0/8"}, {"in_range": "10.0.0.0/8"}]})),
        ("methods", json!({"path": "/x", "methods": ["GET", "GET"]})),
    ] {
        let dup = rule_json(json!({"id": "dup", "rank": 0, "source": source, "status_code": 302, "target": "/t"}));
        let request = Request::from_config(&config, "/y".to_string(), None, None, None, Some("10.1.2.3".parse().unwrap()), None);

        let mut router = Router::<Rule>::from_config(config.clone());
        router.insert(simple_rule("keep", None, "/y"));
        router.insert(dup);
        assert!(router.remove("dup").is_some());
        assert_eq!(router.len(), 1);
        assert_eq!(ids_of(&router, &request), vec!["keep".to_string()]);

        let mut fresh = Router::<Rule>::from_config(config.clone());
        fresh.insert(simple_rule("keep", None, "/y"));

        let observed = trace_json(&router, &request);
        let expected = trace_json(&fresh, &request);
        println!("{name}: observed {}", serde_json::to_string(&observed).unwrap());
        println!("{name}: expected {}", serde_json::to_string(&expected).unwrap());
        if observed != expected {
            failures.push(name);
        }
    }

    assert!(failures.is_empty(), "insert + remove() does not give back the router without the rule for duplicated {failures:?}");
}

// ---------------------------------------------------------------- borderline probes (documented, not failures of the statement)

#[test]
fn borderline_probes() {
    let config = RouterConfig::default();

    // an id both updated and deleted in one change-set: the update wins, the rule is live afterwards
    let mut router = Router::<Rule>::from_config(config.clone());
    router.insert(simple_rule("a", None, "/x"));
    router.apply_change_set(vec![], vec![simple_rule("a", None, "/x2")], HashSet::from(["a".to_string()]));
    println!("updated+deleted: len={} live={:?}", router.len(), router.get_route_by_id("a").is_some());

    // empty id, odd ids
    let mut router = Router::<Rule>::from_config(config.clone());
    for id in ["", " ", "/x", "(?:", "é", "a\u{0}b"] {
        router.insert(simple_rule(id, None, "/x"));
        router.insert(rule_json(json!({"id": format!("{id}-m"), "rank": 0, "source": {"path": "/x@a"}, "markers": [{"name": "a", "regex": ".*"}], "target": "/t", "status_code": 302})));
    }
    assert_eq!(router.len(), 12);
    let request = Request::from_config(&config, "/x".to_string(), None, None, None, None, None);
    assert_eq!(router.match_request(&request).len(), 12);
    for id in ["", " ", "/x", "(?:", "é", "a\u{0}b"] {
        assert_eq!(router.remove(id).unwrap().id(), id);
        assert_eq!(router.remove(format!("{id}-m").as_str()).unwrap().id(), format!("{id}-m"));
    }
    assert_eq!(router.len(), 0);
    assert!(router.match_request(&request).is_empty());

    // Route built by hand with an empty ip list (Rule never produces it): lives in routes, nowhere in the matcher
    use redirectionio::marker::StaticOrDynamic;
    use redirectionio::router::Route;
    let mut router = Router::<u32>::from_config(config.clone());
    router.insert_route(Route::new(
        None,
        None,
        None,
        None,
        StaticOrDynamic::Static("/x".to_string()),
        Vec::new(),
        Some(Vec::new()),
        None,
        None,
        None,
        "hand".to_string(),
        0,
        1u32,
    ));
    println!("hand made route with Some(vec![]) ips: len={} remove returns {:?}", router.len(), router.remove("hand").map(|r| r.id().to_string()));
}

/// user-visible form of F1: the explanation of a request by a project (shared router + change-set) is not
/// the one given by the stand-alone call for the same live rules
#[test]
fn f1_explain_project_vs_stand_alone() {
    use redirectionio::api::{ExplainRequestInput, ExplainRequestOutput, ExplainRequestProjectInput};

    let config = RouterConfig::default();
    let r1 = json!({"id": "r1", "rank": 0, "source": {"host": "a.com", "path": "/x"}, "status_code": 302, "target": "/t"});
    let r2 = json!({"id": "r2", "rank": 0, "source": {"path": "/y"}, "status_code": 302, "target": "/t"});
    let example = json!({"url": "http://a.com/y", "method": null, "headers": null, "ip_address": null, "response_status_code": null, "must_match": true, "unit_ids_applied": null});

    let mut base = Router::<Rule>::from_config(config.clone());
    base.insert(rule_json(r1.clone()));
    base.insert(rule_json(r2.clone()));

    let project_input: ExplainRequestProjectInput = serde_json::from_value(json!({
        "example": example,
        "change_set": {"added": [], "updated": [], "deleted": ["r1"]},
        "max_hops": 2,
    }))
    .unwrap();
    let project = ExplainRequestOutput::create_result_from_project(project_input, Arc::new(base)).ok().unwrap();

    let alone_input: ExplainRequestInput = serde_json::from_value(json!({
        "router_config": serde_json::to_value(&config).unwrap(),
        "example": example,
        "rules": [r2],
        "max_hops": 2,
    }))
    .unwrap();
    let alone = ExplainRequestOutput::create_result_without_project(alone_input).ok().unwrap();

    let p = canon(&serde_json::to_value(&project).unwrap());
    let a = canon(&serde_json::to_value(&alone).unwrap());
    assert_eq!(p["response"], a["response"]);
    println!("project    : {}", serde_json::to_string(&p["match_traces"]).unwrap());
    println!("stand-alone: {}", serde_json::to_string(&a["match_traces"]).unwrap());
    assert_eq!(p["match_traces"], a["match_traces"], "match_traces of the project explanation show the deleted rule's host bucket");
}
