// C18, unchanged tree - "header lists round-trip their content (as a multiset for headers) ... and results equal
// those of the native API".
//
// A header filter of a rule whose value holds a NUL byte (a legitimate JSON string: "\u0000", a 1 byte payload)
// gives, through the native API, the header ("X-A", "\0"). Through redirectionio_action_header_filter_filter the
// caller is handed a node whose `name` is "X-A" and whose `value` is a NULL POINTER: string_to_c_char() fails on the
// NUL, returns null, and http_headers_to_header_map() stores that null in the node without looking at it.
//
//   * the list handed to the caller is not the native result (the native list has a value for X-A);
//   * a C caller that walks the list and reads name/value as C strings (strlen, ngx_str_set, apr_table_set ...)
//     dereferences NULL: nothing in the generated C header says that a member of a returned node can be NULL;
//   * fed back to the library (redirectionio_api_create_log_in_json, redirectionio_action_body_filter_create), the
//     node is silently skipped by header_map_to_http_headers(), so the round trip loses the header.
//
// Expected (any of): the node is left out as a whole, or the NUL is escaped the way callback_log.rs does it
// ("\\0"), or the value is cut at the NUL - but never a half-filled node. The assertion below only asks for the
// weakest form: no node of a returned list has a NULL member.
#![allow(improper_ctypes)]

use redirectionio::action::Action;
use redirectionio::http::Header;
use std::ffi::{CStr, CString};
use std::os::raw::c_char;

#[repr(C)]
struct Node {
    name: *const c_char,
    value: *const c_char,
    next: *mut Node,
}

unsafe extern "C" {
    fn redirectionio_action_json_deserialize(s: *mut c_char) -> *const Action;
    fn redirectionio_action_drop(a: *mut Action);
    fn redirectionio_action_header_filter_filter(a: *mut Action, h: *const Node, code: u16, add: bool) -> *const Node;
}

#[test]
fn no_node_of_a_returned_header_list_has_a_null_member() {
    // what Action::from_routes_rule builds for a rule with
    //   "header_filters":[{"action":"add","header":"X-A","value":"\u0000"},{"action":"add","header":"X-B","value":"b"}]
    let action_json = r#"{"status_code_update":null,"header_filters":[
        {"filter":{"action":"add","header":"X-A","value":"\u0000","id":null,"target_hash":null},"on_response_status_codes":[],"exclude_response_status_codes":false,"rule_id":"r"},
        {"filter":{"action":"add","header":"X-B","value":"b","id":null,"target_hash":null},"on_response_status_codes":[],"exclude_response_status_codes":false,"rule_id":"r"}
      ],"body_filters":[],"rule_ids":["r"],"rule_traces":[],"rules_applied":[],"log_override":null}"#;

    // native API
    let mut native: Action = serde_json::from_str(action_json).unwrap();
    let expected: Vec<Header> = native.filter_headers(Vec::new(), 200, false, None);
    assert_eq!(expected.len(), 2);
    assert_eq!(expected[0].value, "\0");

    // C surface
    let json = CString::new(action_json).unwrap();
    let mut null_members = Vec::new();
    let mut count = 0;

    unsafe {
        let action = redirectionio_action_json_deserialize(json.as_ptr() as *mut c_char) as *mut Action;
        assert!(!action.is_null());

        let mut node = redirectionio_action_header_filter_filter(action, std::ptr::null(), 200, false) as *mut Node;

        while !node.is_null() {
            let owned = Box::from_raw(node);
            count += 1;

            if owned.name.is_null() || owned.value.is_null() {
                null_members.push(format!(
                    "name {:?} value {:?}",
                    if owned.name.is_null() { None } else { Some(CStr::from_ptr(owned.name).to_string_lossy().to_string()) },
                    if owned.value.is_null() { None } else { Some(CStr::from_ptr(owned.value).to_string_lossy().to_string()) },
                ));
            }

            if !owned.name.is_null() {
                drop(CString::from_raw(owned.name as *mut c_char));
            }
            if !owned.value.is_null() {
                drop(CString::from_raw(owned.value as *mut c_char));
            }

            node = owned.next;
        }

        redirectionio_action_drop(action);
    }

    assert_eq!(count, 2);
    assert!(
        null_members.is_empty(),
        "the list handed to the C caller has node(s) with a NULL member: {:?} (native result: {:?})",
        null_members,
        expected
    );
}
