extern crate redirectionio;

use redirectionio::RouterConfig;
use redirectionio::api::Rule;
use redirectionio::http::{PathAndQueryWithSkipped, Request};
use redirectionio::router::Router;

fn config(json: &str) -> RouterConfig {
    serde_json::from_str(json).expect("config")
}

fn cfg_default_off() -> RouterConfig {
    config(r#"{"always_match_any_host":true,"ignore_header_case":false,"ignore_host_case":false,"ignore_marketing_query_params":false,"ignore_path_and_query_case":false}"#)
}

fn router(cfg: &RouterConfig, rules: &[&str]) -> Router<Rule> {
    let mut router = Router::<Rule>::from_config(cfg.clone());
    for r in rules {
        let rule: Rule = serde_json::from_str(r).expect("rule");
        router.insert(rule);
    }
    router
}

#[allow(clippy::too_many_arguments)]
fn req(
    cfg: &RouterConfig,
    url: &str,
    host: Option<&str>,
    scheme: Option<&str>,
    method: Option<&str>,
    ip: Option<&str>,
    headers: &[(&str, &str)],
    at: Option<&str>,
) -> Request {
    let mut r = Request::new(
        PathAndQueryWithSkipped::from_config(&RouterConfig::default(), url),
        url.to_string(),
        host.map(|s| s.to_string()),
        scheme.map(|s| s.to_string()),
        method.map(|s| s.to_string()),
        ip.map(|s| s.parse().unwrap()),
        None,
    );
    for (n, v) in headers {
        r.add_header(n.to_string(), v.to_string(), false);
    }
    if let Some(at) = at {
        r.set_created_at(Some(at.to_string()));
    }
    Request::rebuild_with_config(cfg, &r)
}

fn ids(router: &Router<Rule>, r: &Request) -> Vec<String> {
    let mut v: Vec<String> = router.match_request(r).iter().map(|x| x.id().to_string()).collect();
    v.sort();
    v
}

fn q(cfg: &RouterConfig, url: &str) -> Request {
    req(cfg, url, None, None, None, None, &[], None)
}


fn cfg_flags(always: bool, header_ic: bool, host_ic: bool, path_ic: bool, marketing: bool) -> RouterConfig {
    config(&format!(
        r#"{{"always_match_any_host":{},"ignore_header_case":{},"ignore_host_case":{},"ignore_path_and_query_case":{},"ignore_marketing_query_params":{},"marketing_query_params":["utm_source","utm_medium","utm_campaign","utm_term","utm_content"],"pass_marketing_query_params_to_target":true}}"#,
        always, header_ic, host_ic, path_ic, marketing
    ))
}

// ---------------------------------------------------------------------------------------------
// F1 - a back-tick in the request path switches off the whole query normalisation
// ---------------------------------------------------------------------------------------------
#[test]
fn finding_f1_backtick_in_path_disables_query_normalisation() {
    let cfg = cfg_flags(true, false, false, false, true);
    let rt = router(&cfg, &[
        r#"{"id":"with-query","rank":0,"source":{"path":"/a`b","query":"z=1&a=2"},"status_code":301,"target":"/t"}"#,
        r#"{"id":"no-query","rank":0,"source":{"path":"/a`b"},"status_code":301,"target":"/t"}"#,
    ]);
    // control: same rules / requests without the back-tick behave
    let ctl = router(&cfg, &[
        r#"{"id":"with-query","rank":0,"source":{"path":"/ab","query":"z=1&a=2"},"status_code":301,"target":"/t"}"#,
        r#"{"id":"no-query","rank":0,"source":{"path":"/ab"},"status_code":301,"target":"/t"}"#,
    ]);
    assert_eq!(ids(&ctl, &q(&cfg, "/ab?z=1&a=2")), vec!["with-query"]);
    assert_eq!(ids(&ctl, &q(&cfg, "/ab?utm_source=x")), vec!["no-query"]);

    let got_order = ids(&rt, &q(&cfg, "/a`b?z=1&a=2"));
    let got_marketing = ids(&rt, &q(&cfg, "/a`b?utm_source=x"));
    println!("F1 observed: order={:?} (expected [with-query]), marketing={:?} (expected [no-query])", got_order, got_marketing);
    assert_eq!(got_order, vec!["with-query"], "query params of the request are not sorted when the path holds a back-tick");
    assert_eq!(got_marketing, vec!["no-query"], "marketing params are not skipped when the path holds a back-tick");
}

// ---------------------------------------------------------------------------------------------
// F2 - repeated query keys: all but the last occurrence are dropped (rule side and request side)
// ---------------------------------------------------------------------------------------------
#[test]
fn finding_f2_repeated_query_keys_collapse_last_wins() {
    let cfg = cfg_flags(true, false, false, false, false);
    let rt = router(&cfg, &[
        r#"{"id":"one","rank":0,"source":{"path":"/s","query":"c[]=shoes"},"status_code":301,"target":"/t"}"#,
        r#"{"id":"two","rank":0,"source":{"path":"/s","query":"c[]=hats&c[]=shoes"},"status_code":301,"target":"/t"}"#,
    ]);
    let a = ids(&rt, &q(&cfg, "/s?c[]=shoes"));
    let b = ids(&rt, &q(&cfg, "/s?c[]=hats&c[]=shoes"));
    let c = ids(&rt, &q(&cfg, "/s?c[]=shoes&c[]=hats"));
    println!("F2 observed: shoes={:?} hats,shoes={:?} shoes,hats={:?}", a, b, c);
    // flat predicate: a query is the multiset of its params, order does not matter
    assert_eq!(a, vec!["one"], "rule `two` (hats AND shoes) is reported for a request with shoes only");
    assert_eq!(b, vec!["two"], "rule `one` (shoes only) is reported for a request with hats and shoes");
    assert_eq!(c, vec!["two"], "the same two params in the other order match nothing: the order of the params decides");
}

// ---------------------------------------------------------------------------------------------
// F3 - percent escapes which are not UTF-8 all become U+FFFD: different requests, same rule
// ---------------------------------------------------------------------------------------------
#[test]
fn finding_f3_non_utf8_escapes_in_query_collide() {
    let cfg = cfg_flags(true, false, false, false, false);
    // an ISO-8859-1 encoded query, as many legacy sites still emit ("café")
    let rt = router(&cfg, &[r#"{"id":"latin1","rank":0,"source":{"path":"/s","query":"q=caf%E9"},"status_code":301,"target":"/t"}"#]);
    assert_eq!(ids(&rt, &q(&cfg, "/s?q=caf%E9")), vec!["latin1"]);
    let other = ids(&rt, &q(&cfg, "/s?q=caf%E8")); // "cafè"
    let other2 = ids(&rt, &q(&cfg, "/s?q=caf%FF"));
    let other3 = ids(&rt, &q(&cfg, "/s?q=caf%EF%BF%BD")); // a genuine U+FFFD
    println!("F3 observed: %E8={:?} %FF={:?} U+FFFD={:?} (expected [] three times)", other, other2, other3);
    assert!(other.is_empty() && other2.is_empty() && other3.is_empty(), "spurious match");
}

// ---------------------------------------------------------------------------------------------
// F4 - decoded `&`, `=`, `%` are written back raw: an escaped delimiter becomes a delimiter
// ---------------------------------------------------------------------------------------------
#[test]
fn finding_f4_escaped_delimiters_in_query_are_unescaped() {
    let cfg = cfg_flags(true, false, false, false, false);
    let rt = router(&cfg, &[
        r#"{"id":"two-params","rank":0,"source":{"path":"/s","query":"a=1&b=2"},"status_code":301,"target":"/t"}"#,
        r#"{"id":"space","rank":0,"source":{"path":"/s","query":"a=hello world"},"status_code":301,"target":"/t"}"#,
    ]);
    // ONE param named `a` whose value is the 7 characters `1&b=2`
    let one_param = ids(&rt, &q(&cfg, "/s?a=1%26b%3D2"));
    // the value is the 13 characters `hello%20world`, not `hello world`
    let double = ids(&rt, &q(&cfg, "/s?a=hello%2520world"));
    println!("F4 observed: {:?} {:?} (expected [] twice)", one_param, double);
    assert!(one_param.is_empty(), "a=`1&b=2` matched the rule for a=1, b=2");
    assert!(double.is_empty(), "a=`hello%20world` matched the rule for a=`hello world`");
}

// ---------------------------------------------------------------------------------------------
// F5 - ignore_path_and_query_case folds ASCII letters only (static and pattern rules)
// ---------------------------------------------------------------------------------------------
#[test]
fn finding_f5_ignore_path_case_is_ascii_only() {
    let cfg = cfg_flags(true, false, true, true, false);
    let rt = router(&cfg, &[
        r#"{"id":"static","rank":0,"source":{"path":"/CAFÉ"},"status_code":301,"target":"/t"}"#,
        r#"{"id":"pattern","rank":0,"markers":[{"name":"m","regex":"[0-9]+"}],"source":{"path":"/CAFÉ/@m"},"status_code":301,"target":"/t"}"#,
        r#"{"id":"host","rank":0,"source":{"host":"CAFÉ.example","path":"/h"},"status_code":301,"target":"/t"}"#,
    ]);
    // control: ASCII letters are folded, and the host flag folds non-ASCII letters too
    assert_eq!(ids(&rt, &q(&cfg, "/cafÉ")), vec!["static"]);
    assert_eq!(ids(&rt, &req(&cfg, "/h", Some("café.example"), None, None, None, &[], None)), vec!["host"]);
    let s = ids(&rt, &q(&cfg, "/café"));
    let s2 = ids(&rt, &q(&cfg, "/caf%C3%A9"));
    let p = ids(&rt, &q(&cfg, "/café/12"));
    println!("F5 observed: static={:?} static(encoded)={:?} pattern={:?}", s, s2, p);
    assert_eq!(s, vec!["static"]);
    assert_eq!(s2, vec!["static"]);
    assert_eq!(p, vec!["pattern"]);
}

// ---------------------------------------------------------------------------------------------
// F6 - ignore_header_case lowercases both sides with a context sensitive mapping (final sigma)
// ---------------------------------------------------------------------------------------------
#[test]
fn finding_f6_ignore_header_case_final_sigma() {
    let cfg = cfg_flags(true, true, false, false, false);
    let rt = router(&cfg, &[
        r#"{"id":"starts","rank":0,"source":{"path":"/s","headers":[{"name":"X-City","type":"starts_with","value":"ΑΣ"}]},"status_code":301,"target":"/t"}"#,
        r#"{"id":"contains","rank":0,"source":{"path":"/s","headers":[{"name":"X-City","type":"contains","value":"ΟΣ"}]},"status_code":301,"target":"/t"}"#,
        r#"{"id":"not-contains","rank":0,"source":{"path":"/s","headers":[{"name":"X-City","type":"does_not_contain","value":"ΟΣ"}]},"status_code":301,"target":"/t"}"#,
    ]);
    // same thing without ignoring case: the byte-wise predicates hold
    let cfg_cs = cfg_flags(true, false, false, false, false);
    let rt_cs = router(&cfg_cs, &[
        r#"{"id":"starts","rank":0,"source":{"path":"/s","headers":[{"name":"X-City","type":"starts_with","value":"ΑΣ"}]},"status_code":301,"target":"/t"}"#,
    ]);
    assert_eq!(ids(&rt_cs, &req(&cfg_cs, "/s", None, None, None, None, &[("X-City", "ΑΣΤΥ")], None)), vec!["starts"]);

    let a = ids(&rt, &req(&cfg, "/s", None, None, None, None, &[("X-City", "ΑΣΤΥ")], None));
    let b = ids(&rt, &req(&cfg, "/s", None, None, None, None, &[("X-City", "ΚΟΣΜΟΙ")], None));
    println!("F6 observed: {:?} (expected [not-contains, starts]); {:?} (expected [contains])", a, b);
    assert_eq!(a, vec!["not-contains", "starts"], "`ΑΣΤΥ` starts with `ΑΣ` whatever the case");
    assert_eq!(b, vec!["contains"], "`ΚΟΣΜΟΙ` contains `ΟΣ` whatever the case");
}

// ---------------------------------------------------------------------------------------------
// F7 - marketing params are recognised case sensitively even when the query case is ignored
// ---------------------------------------------------------------------------------------------
#[test]
fn finding_f7_marketing_params_vs_ignore_case() {
    let cfg = cfg_flags(true, false, false, true, true);
    let rt = router(&cfg, &[r#"{"id":"promo","rank":0,"source":{"path":"/promo"},"status_code":301,"target":"/t"}"#]);
    assert_eq!(ids(&rt, &q(&cfg, "/PROMO?utm_source=news")), vec!["promo"]);
    let got = ids(&rt, &q(&cfg, "/PROMO?UTM_SOURCE=news"));
    let got2 = ids(&rt, &q(&cfg, "/promo?Utm_Source=news"));
    println!("F7 observed: {:?} {:?} (expected [promo] twice)", got, got2);
    assert_eq!(got, vec!["promo"]);
    assert_eq!(got2, vec!["promo"]);
}

// ---------------------------------------------------------------------------------------------
// Borderline behaviours (print only)
// ---------------------------------------------------------------------------------------------
#[test]
fn borderline_ipv4_mapped_and_hex_case() {
    let cfg = cfg_flags(true, false, false, false, false);
    let rt = router(&cfg, &[
        r#"{"id":"in10","rank":0,"source":{"path":"/s","ips":[{"in_range":"10.0.0.0/8"}]},"status_code":301,"target":"/t"}"#,
        r#"{"id":"notin10","rank":0,"source":{"path":"/s","ips":[{"not_in_range":"10.0.0.0/8"}]},"status_code":301,"target":"/t"}"#,
    ]);
    println!("10.1.2.3 => {:?}", ids(&rt, &req(&cfg, "/s", None, None, None, Some("10.1.2.3"), &[], None)));
    println!("::ffff:10.1.2.3 => {:?}", ids(&rt, &req(&cfg, "/s", None, None, None, Some("::ffff:10.1.2.3"), &[], None)));
    let rt = router(&cfg, &[r#"{"id":"cafe","rank":0,"source":{"path":"/café"},"status_code":301,"target":"/t"}"#]);
    println!("/caf%C3%A9 => {:?}   /caf%c3%a9 => {:?}", ids(&rt, &q(&cfg, "/caf%C3%A9")), ids(&rt, &q(&cfg, "/caf%c3%a9")));
    // a rule which names a marketing param itself
    let cfgm = cfg_flags(true, false, false, false, true);
    let rt = router(&cfgm, &[r#"{"id":"utm","rank":0,"source":{"path":"/s","query":"utm_source=news"},"status_code":301,"target":"/t"}"#]);
    println!("rule with utm_source, marketing ignored => {:?}", ids(&rt, &q(&cfgm, "/s?utm_source=news")));
}

#[test]
fn borderline_time_windows() {
    let cfg = cfg_default_off();
    let rt = router(&cfg, &[
        r#"{"id":"t-8-12","rank":0,"source":{"path":"/s","time":[["08:00:00","12:00:00"]]},"status_code":301,"target":"/t"}"#,
        r#"{"id":"t-short","rank":0,"source":{"path":"/s","time":[["08:00","12:00"]]},"status_code":301,"target":"/t"}"#,
        r#"{"id":"t-night","rank":0,"source":{"path":"/s","time":[["22:00:00","06:00:00"]]},"status_code":301,"target":"/t"}"#,
        r#"{"id":"t-to-midnight","rank":0,"source":{"path":"/s","time":[["22:00:00","24:00:00"]]},"status_code":301,"target":"/t"}"#,
        r#"{"id":"t-to-235959","rank":0,"source":{"path":"/s","time":[["22:00:00","23:59:59"]]},"status_code":301,"target":"/t"}"#,
        r#"{"id":"d-offset","rank":0,"source":{"path":"/s","datetime":[["2024-01-01T00:00:00+02:00","2024-01-02T00:00:00+02:00"]]},"status_code":301,"target":"/t"}"#,
        r#"{"id":"wd","rank":0,"source":{"path":"/s","weekdays":["Monday","tue"]},"status_code":301,"target":"/t"}"#,
        r#"{"id":"d-and-t","rank":0,"source":{"path":"/s","datetime":[["2024-01-01T00:00:00Z","2024-01-08T00:00:00Z"]],"time":[["08:00:00","12:00:00"]],"weekdays":["Monday"]},"status_code":301,"target":"/t"}"#,
    ]);
    for at in ["2024-01-01T07:59:59Z", "2024-01-01T08:00:00Z", "2024-01-01T11:59:59.999Z", "2024-01-01T12:00:00Z", "2024-01-01T23:00:00Z", "2024-01-01T23:59:59.5Z", "2024-01-02T03:00:00Z", "2023-12-31T22:00:00Z", "2023-12-31T21:59:59Z", "2024-01-01T21:59:59Z", "2024-01-01T22:00:00Z", "2024-01-01T10:00:00+02:00"] {
        println!("{} => {:?}", at, ids(&rt, &req(&cfg, "/s", None, None, None, None, &[], Some(at))));
    }
}


#[test]
fn borderline_misc() {
    let cfg = cfg_default_off();
    let rt = router(&cfg, &[
        r#"{"id":"two-neg","rank":0,"source":{"path":"/s","ips":[{"not_in_range":"10.0.0.0/8"},{"not_in_range":"192.168.0.0/16"}]},"status_code":301,"target":"/t"}"#,
        r#"{"id":"in-except","rank":0,"source":{"path":"/s","ips":[{"in_range":"10.0.0.0/8"},{"not_in_range":"10.1.0.0/16"}]},"status_code":301,"target":"/t"}"#,
        r#"{"id":"dup-methods","rank":0,"source":{"path":"/s","methods":["GET","GET"],"ips":[{"in_range":"10.0.0.0/8"},{"in_range":"10.0.0.0/8"},{"in_range":"10.1.0.0/16"}]},"status_code":301,"target":"/t"}"#,
        r#"{"id":"hdr-re","rank":0,"markers":[{"name":"m","regex":"foo"}],"source":{"path":"/s","headers":[{"name":"X-A","type":"match_regex","value":"@m"}]},"status_code":301,"target":"/t"}"#,
    ]);
    println!("10.1.2.3 {:?}", ids(&rt, &req(&cfg, "/s", None, None, None, Some("10.1.2.3"), &[], None)));
    println!("no ip {:?}", ids(&rt, &req(&cfg, "/s", None, None, None, None, &[], None)));
    println!("hdr xfoox {:?}", ids(&rt, &req(&cfg, "/s", None, None, None, None, &[("x-a", "xfoox")], None)));
    let mut rt = rt;
    rt.remove("dup-methods");
    println!("after remove {:?}", ids(&rt, &req(&cfg, "/s", None, None, None, Some("10.1.2.3"), &[], None)));
    // host with port / trailing dot
    let rt = router(&cfg, &[r#"{"id":"h","rank":0,"source":{"path":"/s","host":"example.com"},"status_code":301,"target":"/t"}"#]);
    println!("host port {:?} dot {:?}", ids(&rt, &req(&cfg, "/s", Some("example.com:8080"), None, None, None, &[], None)), ids(&rt, &req(&cfg, "/s", Some("example.com."), None, None, None, &[], None)));
    // percent-encoded unreserved in path
    let rt = router(&cfg, &[r#"{"id":"A","rank":0,"source":{"path":"/A","query":"k=A"},"status_code":301,"target":"/t"}"#]);
    println!("pct path {:?} pct query {:?}", ids(&rt, &q(&cfg, "/%41?k=A")), ids(&rt, &q(&cfg, "/A?k=%41")));
}

struct Lcg(u64);
impl Lcg {
    fn next(&mut self) -> u64 {
        self.0 = self.0.wrapping_mul(6364136223846793005).wrapping_add(1442695040888963407);
        self.0 >> 33
    }
    fn below(&mut self, n: usize) -> usize {
        (self.next() % n as u64) as usize
    }
    fn pick<'a>(&mut self, xs: &[&'a str]) -> &'a str {
        xs[self.below(xs.len())]
    }
}

#[test]
fn fuzz_tree_via_router() {
    use redirectionio::marker::StaticOrDynamic;
    let segs = ["/a", "/b", "/a.b", "/a-b", "/a+b", "/@m", "/@n", "/@mm", "/x@m", "@m", "-@n", "/é", "/(", "/[", "/a b", "/A", "/%41", "@m@n", "/a(b)", "\\"];
    let mregex = ["[a-z]+", "[^/]+", "(a|b)", "[]a]+", "[^]a]+", "[(]", "[)]x", "\\(", "\\)", "a\\\\", "[[:alpha:]]+", "(?:x(y)z)", ".*", "[a\\]]+", "é+", "[A-Z]"];
    let reqsegs = ["/a", "/b", "/a.b", "/a-b", "/a+b", "/x", "/xa", "/ab", "a", "-b", "/é", "/(", "/[", "/a b", "/A", "/%41", "/]", "/)x", "/xyz", "/a\\", "\\", "/a(b)", "/y", "/B"];
    let mut bad = 0;
    for seed in 0..400u64 {
        let mut rng = Lcg(seed * 7919 + 13);
        let ic = rng.below(2) == 0;
        let cfg = config(&format!(
            r#"{{"always_match_any_host":true,"ignore_header_case":false,"ignore_host_case":false,"ignore_marketing_query_params":false,"ignore_path_and_query_case":{}}}"#,
            ic
        ));
        let mut rt = Router::<Rule>::from_config(cfg.clone());
        let mut live: Vec<String> = Vec::new();
        let nops = 3 + rng.below(25);
        for op in 0..nops {
            if !live.is_empty() && rng.below(4) == 0 {
                let i = rng.below(live.len());
                let id = live.remove(i);
                if rng.below(2) == 0 {
                    rt.remove(&id);
                } else {
                    let mut s = std::collections::HashSet::new();
                    s.insert(id);
                    rt.apply_change_set(vec![], vec![], s);
                }
            } else {
                let n = 1 + rng.below(4);
                let mut path = String::new();
                for _ in 0..n {
                    path.push_str(rng.pick(&segs));
                }
                if !path.starts_with('/') {
                    path.insert(0, '/');
                }
                let id = format!("r{}", op);
                let rule = serde_json::json!({
                    "id": id, "rank": 0, "status_code": 301, "target": "/t",
                    "markers": [
                        {"name": "m", "regex": rng.pick(&mregex)},
                        {"name": "n", "regex": rng.pick(&mregex)},
                        {"name": "mm", "regex": rng.pick(&mregex)},
                    ],
                    "source": {"path": path}
                });
                let rule: Rule = serde_json::from_value(rule).unwrap();
                rt.insert(rule);
                live.push(id);
            }
            if rng.below(3) == 0 {
                rt.cache(Some(rng.below(5) as u64));
            }
            // probe
            for _ in 0..6 {
                let n = 1 + rng.below(4);
                let mut url = String::new();
                for _ in 0..n {
                    url.push_str(rng.pick(&reqsegs));
                }
                if !url.starts_with('/') {
                    url.insert(0, '/');
                }
                let r = q(&cfg, &url);
                let got = ids(&rt, &r);
                let hay = r.path_and_query();
                let mut exp = Vec::new();
                for (id, route) in rt.routes() {
                    let ok = match route.path_and_query() {
                        StaticOrDynamic::Static(s) => *s == hay,
                        StaticOrDynamic::Dynamic(ms) => {
                            match regex::RegexBuilder::new(&format!("^(?:{})$", ms.regex)).case_insensitive(ic).build() {
                                Ok(re) => re.is_match(&hay),
                                Err(_) => false,
                            }
                        }
                    };
                    if ok {
                        exp.push(id.clone());
                    }
                }
                exp.sort();
                if got != exp {
                    bad += 1;
                    if bad < 10 {
                        println!("MISMATCH seed {} url {:?} hay {:?} got {:?} exp {:?}", seed, url, hay, got, exp);
                        for (id, route) in rt.routes() {
                            println!("   {} => {:?}", id, match route.path_and_query() { StaticOrDynamic::Static(s) => s.clone(), StaticOrDynamic::Dynamic(ms) => ms.regex.clone() });
                        }
                    }
                }
            }
        }
    }
    println!("fuzz_tree mismatches: {}", bad);
}


#[test]
fn fuzz_hosts_via_router() {
    use redirectionio::marker::StaticOrDynamic;
    let segs = ["a", "b", ".", "-", "@m", "@n", "x@m", "A", "é", "www.", ".com", "(", "["];
    let mregex = ["[a-z]+", "[^.]+", "(a|b)", "[]a]+", "[(]", "\\(", "[[:alpha:]]+", ".*", "é+", "[A-Z]"];
    let reqsegs = ["a", "b", ".", "-", "x", "xa", "ab", "A", "é", "É", "www.", ".com", "(", "[", "]"];
    let mut bad = 0;
    for seed in 0..300u64 {
        let mut rng = Lcg(seed * 104729 + 7);
        let ic = rng.below(2) == 0;
        let always = rng.below(2) == 0;
        let cfg = config(&format!(
            r#"{{"always_match_any_host":{},"ignore_header_case":false,"ignore_host_case":{},"ignore_marketing_query_params":false,"ignore_path_and_query_case":false}}"#,
            always, ic
        ));
        let mut rt = Router::<Rule>::from_config(cfg.clone());
        let mut live: Vec<String> = Vec::new();
        let nops = 3 + rng.below(25);
        for op in 0..nops {
            if !live.is_empty() && rng.below(4) == 0 {
                let i = rng.below(live.len());
                let id = live.remove(i);
                if rng.below(2) == 0 {
                    rt.remove(&id);
                } else {
                    let mut s = std::collections::HashSet::new();
                    s.insert(id);
                    rt.apply_change_set(vec![], vec![], s);
                }
            } else {
                let n = rng.below(4);
                let mut host = String::new();
                for _ in 0..n {
                    host.push_str(rng.pick(&segs));
                }
                let id = format!("r{}", op);
                let scheme = match rng.below(3) { 0 => serde_json::Value::Null, 1 => "http".into(), _ => "https".into() };
                let hostv = if n == 0 && rng.below(2) == 0 { serde_json::Value::Null } else { host.clone().into() };
                let rule = serde_json::json!({
                    "id": id, "rank": 0, "status_code": 301, "target": "/t",
                    "markers": [
                        {"name": "m", "regex": rng.pick(&mregex)},
                        {"name": "n", "regex": rng.pick(&mregex)},
                    ],
                    "source": {"path": "/p", "host": hostv, "scheme": scheme}
                });
                let rule: Rule = serde_json::from_value(rule).unwrap();
                rt.insert(rule);
                live.push(id);
            }
            for _ in 0..6 {
                let n = rng.below(4);
                let mut host = String::new();
                for _ in 0..n {
                    host.push_str(rng.pick(&reqsegs));
                }
                let rscheme = match rng.below(3) { 0 => None, 1 => Some("http"), _ => Some("https") };
                let rhost = if n == 0 && rng.below(2) == 0 { None } else { Some(host.as_str()) };
                let r = req(&cfg, "/p", rhost, rscheme, None, None, &[], None);
                let got = ids(&rt, &r);
                let mut exp = Vec::new();
                for scope in [None, Some("http"), Some("https")] {
                    if scope.is_some() && scope != rscheme {
                        continue;
                    }
                    let mut specific = Vec::new();
                    let mut any = Vec::new();
                    for (id, route) in rt.routes() {
                        let rs = route.scheme().filter(|s| !s.is_empty());
                        if rs != scope {
                            continue;
                        }
                        match route.host() {
                            None => any.push(id.clone()),
                            Some(StaticOrDynamic::Static(s)) if s.is_empty() => any.push(id.clone()),
                            Some(StaticOrDynamic::Static(s)) => {
                                if let Some(h) = r.host() {
                                    if h == s { specific.push(id.clone()); }
                                }
                            }
                            Some(StaticOrDynamic::Dynamic(ms)) => {
                                if let Some(h) = r.host() {
                                    if let Ok(re) = regex::RegexBuilder::new(&format!("^(?:{})$", ms.regex)).case_insensitive(ic).build() {
                                        if re.is_match(h) { specific.push(id.clone()); }
                                    }
                                }
                            }
                        }
                    }
                    if always || specific.is_empty() {
                        exp.extend(any);
                    }
                    exp.extend(specific);
                }
                exp.sort();
                if got != exp {
                    bad += 1;
                    if bad < 10 {
                        println!("MISMATCH seed {} host {:?} scheme {:?} got {:?} exp {:?}", seed, rhost, rscheme, got, exp);
                    }
                }
            }
        }
    }
    println!("fuzz_hosts mismatches: {}", bad);
}


#[test]
fn borderline_more() {
    let cfg = cfg_flags(true, true, false, false, false);
    // invalid marker expression next to valid neighbours
    let rt = router(&cfg, &[
        r#"{"id":"bad","rank":0,"markers":[{"name":"m","regex":"("}],"source":{"path":"/p/@m/x"},"status_code":301,"target":"/t"}"#,
        r#"{"id":"bad2","rank":0,"markers":[{"name":"m","regex":"a)(b"}],"source":{"path":"/p/@m/x"},"status_code":301,"target":"/t"}"#,
        r#"{"id":"good","rank":0,"markers":[{"name":"m","regex":"[a-z]+"}],"source":{"path":"/p/@m/x"},"status_code":301,"target":"/t"}"#,
        r#"{"id":"good2","rank":0,"markers":[{"name":"m","regex":"[a-z]+"}],"source":{"path":"/p/@m/y"},"status_code":301,"target":"/t"}"#,
    ]);
    println!("invalid neighbours: {:?} {:?}", ids(&rt, &q(&cfg, "/p/abc/x")), ids(&rt, &q(&cfg, "/p/abc/y")));
    // is_equals and sigma
    let rt = router(&cfg, &[r#"{"id":"eq","rank":0,"source":{"path":"/s","headers":[{"name":"X-City","type":"is_equals","value":"ΑΣ"}]},"status_code":301,"target":"/t"}"#]);
    println!("is_equals ΑΣ vs ασ: {:?}; vs ας: {:?}", ids(&rt, &req(&cfg, "/s", None, None, None, None, &[("X-City", "ασ")], None)), ids(&rt, &req(&cfg, "/s", None, None, None, None, &[("X-City", "ας")], None)));
    // class with non-ascii in a path marker
    let rt = router(&cfg, &[
        r#"{"id":"class","rank":0,"markers":[{"name":"m","regex":"[éa]+"}],"source":{"path":"/c/@m"},"status_code":301,"target":"/t"}"#,
        r#"{"id":"alt","rank":0,"markers":[{"name":"m","regex":"(?:é|a)+"}],"source":{"path":"/c/@m"},"status_code":301,"target":"/t"}"#,
    ]);
    println!("class é: {:?}  (/c/%C3: {:?})", ids(&rt, &q(&cfg, "/c/éa")), ids(&rt, &q(&cfg, "/c/C3")));
    // marker as a query key
    let rt = router(&cfg, &[r#"{"id":"key","rank":0,"markers":[{"name":"k","regex":"[a-z]+"}],"source":{"path":"/s","query":"@k=1&m=2"},"status_code":301,"target":"/t"}"#]);
    println!("marker key: a=1&m=2 {:?}  z=1&m=2 {:?}", ids(&rt, &q(&cfg, "/s?a=1&m=2")), ids(&rt, &q(&cfg, "/s?z=1&m=2")));
}
