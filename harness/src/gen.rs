//! Shared generators: router configs, rules and requests over *collision pools* (small pools of hosts, CIDRs,
//! instants, path prefixes, marker names) so that several rules land in the same bucket and requests sit on boundaries.
use crate::engine::{pick, pickw};
use crate::spec::*;
use proptest::prelude::*;
use serde::{Deserialize, Serialize};
use serde_json::{json, Value};

// ---------------------------------------------------------------------------------------------
// configs
pub fn marketing_sets() -> Vec<Vec<String>> {
    // the last set holds names that the query encoder escapes (non-ASCII, space, plus)
    vec![default_marketing(), vec!["ref".to_string(), "gclid".to_string()], vec![], vec!["utm_source".to_string(), "r\u{e9}f".to_string(), "ad id".to_string(), "c+".to_string()]]
}

pub fn config_strategy() -> BoxedStrategy<ConfigSpec> {
    (0u8..64, pick(marketing_sets())).prop_map(|(bits, m)| ConfigSpec::from_bits(bits, m)).boxed()
}

// ---------------------------------------------------------------------------------------------
// markers
pub struct MarkerInfo {
    pub name: &'static str,
    pub regex: &'static str,
    pub accept: &'static [&'static str],
    pub reject: &'static [&'static str],
}

pub const MARKERS: &[MarkerInfo] = &[
    MarkerInfo { name: "id", regex: "[0-9]+", accept: &["1", "42", "007"], reject: &["abc", "4x"] },
    MarkerInfo { name: "lang", regex: "(en|fr|de)", accept: &["en", "fr", "de"], reject: &["es", "e", "enx"] },
    MarkerInfo { name: "slug", regex: "([\\p{Ll}]|\\-)+?", accept: &["ab-c", "x", "foo"], reject: &["a1", "a_b"] },
    MarkerInfo { name: "any", regex: "(?:.+?)", accept: &["x", "a/b", "foo"], reject: &[] },
    MarkerInfo { name: "up", regex: "([\\p{Lu}\\p{Lt}])+?", accept: &["ABC", "X"], reject: &["a1", "-"] },
    MarkerInfo { name: "a", regex: "[a-z]+", accept: &["foo", "q"], reject: &["1", "-"] },
    MarkerInfo { name: "b", regex: "[0-9]+", accept: &["7", "123"], reject: &["x"] },
    MarkerInfo { name: "mix", regex: "([\\p{Ll}\\p{Lu}\\p{Lt}0-9]|\\-|\\.|\\(|\\)|%[0-9A-Z]{2})+?", accept: &["a.B-1", "x%20y", "(z)"], reject: &["a_b", "a!"] },
    MarkerInfo { name: "pet", regex: "(cat|dog|fish)", accept: &["cat", "dog"], reject: &["cow", "cats"] },
    MarkerInfo { name: "sub", regex: "[a-z0-9]+", accept: &["sub1", "www", "a"], reject: &["s.b", "-"] },
    MarkerInfo { name: "dom", regex: "([\\p{Ll}]|\\-)+?", accept: &["foo", "my-site"], reject: &["f00", "a.b"] },
    MarkerInfo { name: "tld", regex: "(com|net|org)", accept: &["com", "net"], reject: &["io", "co"] },
    MarkerInfo { name: "m", regex: "[a-z]+", accept: &["abc", "z"], reject: &["1", ""] },
    MarkerInfo { name: "w", regex: "\\w+", accept: &["caf\u{e9}", "x1", "\u{664}2"], reject: &["-", "a-b"] },
    MarkerInfo { name: "d", regex: "\\d+", accept: &["12", "\u{664}"], reject: &["x", "1x"] },
    // `\\d+` once more with ASCII values only: path templates stay inside the canonical-ASCII domain of the flat model
    MarkerInfo { name: "dd", regex: "\\d+", accept: &["12", "7"], reject: &["x", "1x"] },
    MarkerInfo { name: "nd", regex: "\\D+", accept: &["ab", "x-y"], reject: &["1", "a1"] },
    MarkerInfo { name: "par", regex: "[)a-z]+", accept: &["foo", "a)b"], reject: &["1", "A"] },
    MarkerInfo { name: "opar", regex: "[(a-z]+", accept: &["foo", "a(b"], reject: &["1", "A"] },
    MarkerInfo { name: "bad", regex: "([a-z", accept: &["x"], reject: &["x"] },
];

pub fn marker_info(name: &str) -> &'static MarkerInfo {
    MARKERS.iter().find(|m| m.name == name).expect("marker in pool")
}

pub fn marker_spec(name: &str) -> MarkerSpec {
    let m = marker_info(name);
    MarkerSpec { name: m.name.to_string(), regex: m.regex.to_string(), transformers: Vec::new() }
}

/// names of pool markers referenced as `@name` in a template (longest match at each '@')
pub fn template_markers(t: &str) -> Vec<&'static str> {
    let mut out = Vec::new();
    let bytes = t.as_bytes();
    let mut i = 0;
    while i < bytes.len() {
        if bytes[i] == b'@' {
            let rest = &t[i + 1..];
            let mut best: Option<&'static str> = None;
            for m in MARKERS {
                if rest.starts_with(m.name) && best.map(|b| m.name.len() > b.len()).unwrap_or(true) {
                    best = Some(m.name);
                }
            }
            if let Some(b) = best {
                if !out.contains(&b) {
                    out.push(b);
                }
                i += 1 + b.len();
                continue;
            }
        }
        i += 1;
    }
    out
}

/// instantiate a template: `@name` -> accepted (or rejected) sample chosen by `pick`
pub fn instantiate(t: &str, pickn: u16, reject_one: bool) -> String {
    let names = template_markers(t);
    let mut s = t.to_string();
    let mut sorted = names.clone();
    sorted.sort_by(|a, b| b.len().cmp(&a.len()));
    let victim = if reject_one && !names.is_empty() { Some(names[(pickn as usize) % names.len()]) } else { None };
    for (k, n) in sorted.iter().enumerate() {
        let info = marker_info(n);
        let val = if Some(*n) == victim && !info.reject.is_empty() {
            info.reject[(pickn as usize / 3 + k) % info.reject.len()]
        } else {
            info.accept[(pickn as usize + k) % info.accept.len()]
        };
        s = s.replace(&format!("@{n}"), val);
    }
    s
}

// ---------------------------------------------------------------------------------------------
// trigger pools
pub const HOSTS: &[&str] = &["example.com", "Example.COM", "www.example.com", "example.org", "@sub.example.com", "www.@dom.@tld", "xn--bcher-kva.example", "@sub.example.org", "b\u{fc}cher.@tld", "b\u{e4}cker.@tld", "@w.example.net", "@d.example.net", "@sub.example.com.au"];
pub const REQ_HOSTS: &[&str] = &["example.com", "EXAMPLE.com", "Example.COM", "www.example.com", "example.org", "sub1.example.com", "www.foo.com", "www.my-site.net", "other.test", "a.example.org", "SUB1.example.com", "xn--bcher-kva.example", "b\u{fc}cher.com", "b\u{e4}cker.net", "B\u{dc}CHER.com", "caf\u{e9}.example.net", "\u{664}.example.net", "x1.example.net", "sub1.example.com.au", ""];

pub struct CidrInfo {
    pub cidr: &'static str,
    pub inside: &'static str,
    pub outside: &'static str,
}
pub const CIDRS: &[CidrInfo] = &[
    CidrInfo { cidr: "10.0.0.0/8", inside: "10.9.9.9", outside: "11.0.0.1" },
    CidrInfo { cidr: "10.1.0.0/16", inside: "10.1.2.3", outside: "10.2.0.1" },
    CidrInfo { cidr: "10.1.2.3", inside: "10.1.2.3", outside: "10.1.2.4" },
    CidrInfo { cidr: "192.168.1.0/24", inside: "192.168.1.77", outside: "192.168.2.1" },
    CidrInfo { cidr: "::1", inside: "::1", outside: "::2" },
    CidrInfo { cidr: "2001:db8::/32", inside: "2001:db8::5", outside: "2001:db9::1" },
    CidrInfo { cidr: "0.0.0.0/0", inside: "8.8.8.8", outside: "::1" },
    CidrInfo { cidr: "::ffff:10.1.0.0/112", inside: "::ffff:10.1.2.3", outside: "10.1.2.3" },
    CidrInfo { cidr: "garbage", inside: "10.1.2.3", outside: "10.1.2.3" },
];
pub const REQ_IPS: &[&str] = &["::ffff:10.1.2.3", "::ffff:192.168.1.77", "10.9.9.9", "11.0.0.1", "10.1.2.3", "10.2.0.1", "10.1.2.4", "192.168.1.77", "192.168.2.1", "::1", "::2", "2001:db8::5", "2001:db9::1", "8.8.8.8"];

pub const METHODS: &[&str] = &["GET", "POST", "PUT", "DELETE"];
/// request side: also a lower-case spelling (methods are compared as given) and an unlisted verb
pub const REQ_METHODS: &[&str] = &["GET", "POST", "PUT", "DELETE", "get", "PATCH"];

/// pivot 2024-03-10T12:00:00Z is a Sunday
pub const INSTANTS: &[&str] = &[
    "2024-03-08T12:00:00Z",
    "2024-03-09T12:00:00Z",
    "2024-03-10T11:59:59Z",
    "2024-03-10T12:00:00Z",
    "2024-03-10T12:00:01Z",
    "2024-03-10T13:00:00Z",
    "2024-03-11T12:00:00Z",
    "2024-03-12T12:00:00Z",
    // the same instants written with an offset (12:00:00Z on the 10th, twice, and on the 9th)
    "2024-03-10T14:00:00+02:00",
    "2024-03-10T07:00:00-05:00",
    "2024-03-09T21:30:00+09:30",
];
pub const REQ_INSTANTS: &[&str] = &[
    "2024-03-08T11:59:59Z",
    "2024-03-08T12:00:00Z",
    "2024-03-09T11:59:59.999999999Z",
    "2024-03-09T12:00:00Z",
    "2024-03-10T11:59:58Z",
    "2024-03-10T11:59:59Z",
    "2024-03-10T11:59:59.999999999Z",
    "2024-03-10T12:00:00Z",
    "2024-03-10T12:00:00.000000001Z",
    "2024-03-10T12:00:01Z",
    "2024-03-10T12:59:59Z",
    "2024-03-10T13:00:00Z",
    "2024-03-11T00:00:00Z",
    "2024-03-11T08:30:00Z",
    "2024-03-11T12:00:00Z",
    "2024-03-10T23:59:59Z",
    "2024-03-12T11:59:59Z",
    "2024-03-12T12:00:00Z",
    "2024-03-13T18:00:00Z",
    "2024-03-10T13:59:59+02:00",
    "2024-03-10T09:00:00-05:00",
];
pub const TIMES: &[&str] = &["00:00:00", "08:30:00", "12:00:00", "12:00:01", "18:00:00", "23:59:59"];
pub const WEEKDAY_SETS: &[&[&str]] = &[&["Sun"], &["Mon", "Tue"], &["sunday", "saturday"], &["Funday"], &["Sun", "Funday"], &["Mon", "Wed", "Fri"], &[]];

pub const H_NAMES: &[&str] = &["X-A", "x-a", "X-B", "User-Agent"];
pub const H_KINDS: &[&str] = &["is_defined", "is_not_defined", "is_equals", "is_not_equal_to", "contains", "does_not_contain", "ends_with", "starts_with", "match_regex", "sounds_like"];
pub const H_VALUES: &[&str] = &["foo", "Foo", "bar", "", "v-@m", "Val-@m"];
pub const REQ_H_NAMES: &[&str] = &["X-A", "x-a", "X-a", "X-B", "User-Agent", "X-C"];
pub const REQ_H_VALUES: &[&str] = &["foo", "Foo", "FOO", "bar", "foobar", "", "v-abc", "V-ABC", "xv-abcx", "Val-abc", "val-z"];

/// (path, query, is_template)
pub const PATHS: &[(&str, Option<&str>)] = &[
    ("/", None),
    ("/foo", None),
    ("/Foo", None),
    ("/foo/bar", None),
    ("/foo/bar/baz", None),
    ("/a.b", None),
    ("/foo", Some("a=1&b=2")),
    ("/foo", Some("a=1")),
    ("/foo/@id", None),
    ("/@lang/foo/@id", None),
    ("/p/@a-@b", None),
    ("/foo/@id/bar", None),
    ("/@any", None),
    ("/foo/@slug", None),
    ("/Foo/@up", None),
    ("/foo/@mix", None),
    ("/foo", Some("a=@id")),
    ("/pets/@pet", None),
    ("/foo/@bad", None),
    ("/n/@dd", None),
    ("/n/@nd", None),
    ("/x/@par/a", None),
    ("/x/@par/b", None),
    ("/x/@opar/a", None),
];
pub const REQ_PATHS: &[&str] = &[
    "/", "/foo", "/Foo", "/FOO", "/foo/bar", "/foo/bar/baz", "/a.b", "/axb", "/foo?a=1&b=2", "/foo?a=1", "/foo?a=2", "/foo/42", "/foo/abc", "/en/foo/1", "/es/foo/1", "/p/foo-7",
    "/p/foo-x", "/foo/42/bar", "/foo/ab-c", "/Foo/ABC", "/foo/ABC", "/foo/a.B-1", "/foo?a=42", "/pets/cat", "/pets/cow", "/nothing/here", "/foo/", "/foo/x", "/n/42", "/n/ab", "/x/foo/a", "/x/foo/b", "/x/a)b/b",
];

// ---------------------------------------------------------------------------------------------
// rules
#[derive(Clone, Copy, Debug)]
pub struct RuleOpts {
    pub actions: bool,
    /// bias paths / hosts to marker templates (tree-heavy histories)
    pub dynamic_bias: bool,
    /// allow reset / stop
    pub flags: bool,
    /// allow sampling (deterministic points only)
    pub sampling: bool,
    /// ranks are drawn from 0..=max_rank
    pub max_rank: u16,
}

impl RuleOpts {
    pub const MATCH_ONLY: RuleOpts = RuleOpts { actions: false, dynamic_bias: false, flags: false, sampling: false, max_rank: 3 };
    pub const FULL: RuleOpts = RuleOpts { actions: true, dynamic_bias: false, flags: true, sampling: true, max_rank: 3 };
    pub const TIES: RuleOpts = RuleOpts { actions: true, dynamic_bias: false, flags: true, sampling: false, max_rank: 1 };
}

fn opt_weighted<T: Clone + std::fmt::Debug + 'static>(none_w: u32, some: Vec<(u32, T)>) -> BoxedStrategy<Option<T>> {
    let mut pool: Vec<(u32, Option<T>)> = vec![(none_w, None)];
    for (w, v) in some {
        pool.push((w, Some(v)));
    }
    pickw(pool)
}

fn range_strategy(points: &'static [&'static str]) -> BoxedStrategy<RangeSpec> {
    let n = points.len();
    // mostly ordered pairs, some open-ended, inverted, unparsable
    prop_oneof![
        6 => (0..n, 0..n).prop_map(move |(a, b)| { let (a, b) = if a <= b { (a, b) } else { (b, a) }; (Some(points[a].to_string()), Some(points[b].to_string())) }),
        2 => (0..n).prop_map(move |a| (Some(points[a].to_string()), None)),
        2 => (0..n).prop_map(move |b| (None, Some(points[b].to_string()))),
        1 => (0..n, 0..n).prop_map(move |(a, b)| (Some(points[a.max(b)].to_string()), Some(points[a.min(b)].to_string()))),
        1 => (0..n).prop_map(move |a| (Some("not-a-date".to_string()), Some(points[a].to_string()))),
        1 => Just((None, None)),
    ]
    .boxed()
}

pub fn source_strategy(opts: RuleOpts) -> BoxedStrategy<(SourceSpec, Vec<&'static str>)> {
    let scheme = pickw(vec![(5, None), (1, Some("".to_string())), (2, Some("http".to_string())), (2, Some("https".to_string()))]);
    let host_w = if opts.dynamic_bias { 4 } else { 1 };
    let mut host_pool: Vec<(u32, Option<String>)> = vec![(5, None), (1, Some("".to_string()))];
    for h in HOSTS {
        host_pool.push((if h.contains('@') { host_w } else { 1 }, Some(h.to_string())));
    }
    let host = pickw(host_pool);
    let ip_one = (0..CIDRS.len(), prop::bool::weighted(0.75)).prop_map(|(i, inr)| if inr { IpSpec::InRange(CIDRS[i].cidr.to_string()) } else { IpSpec::NotInRange(CIDRS[i].cidr.to_string()) });
    let ips = prop_oneof![5 => Just(None), 1 => Just(Some(Vec::new())), 4 => prop::collection::vec(ip_one, 1..=3).prop_map(Some)];
    let methods = pickw(vec![
        (6, (None, None)),
        (1, (Some(vec![]), None)),
        (2, (Some(vec!["GET".to_string()]), None)),
        (2, (Some(vec!["GET".to_string(), "POST".to_string()]), None)),
        (1, (Some(vec!["POST".to_string(), "PUT".to_string()]), None)),
        (1, (Some(vec!["GET".to_string(), "GET".to_string()]), None)),
        (2, (Some(vec!["GET".to_string()]), Some(true))),
        (2, (Some(vec!["GET".to_string(), "POST".to_string()]), Some(true))),
        (1, (Some(vec!["POST".to_string()]), Some(false))),
        (1, (Some(vec![]), Some(true))),
        (1, (None, Some(true))),
    ]);
    let cond = (0..H_KINDS.len(), 0..H_NAMES.len(), prop::option::weighted(0.9, 0..H_VALUES.len())).prop_map(|(k, n, v)| HeaderCondSpec {
        kind: H_KINDS[k].to_string(),
        name: H_NAMES[n].to_string(),
        value: v.map(|v| H_VALUES[v].to_string()),
    });
    let headers = prop_oneof![5 => Just(None), 1 => Just(Some(Vec::new())), 5 => prop::collection::vec(cond, 1..=3).prop_map(Some)];
    let datetime = prop_oneof![6 => Just(None), 1 => Just(Some(Vec::new())), 4 => prop::collection::vec(range_strategy(INSTANTS), 1..=2).prop_map(Some)];
    let time = prop_oneof![8 => Just(None), 3 => prop::collection::vec(range_strategy(TIMES), 1..=2).prop_map(Some)];
    let weekdays = prop_oneof![8 => Just(None), 3 => (0..WEEKDAY_SETS.len()).prop_map(|i| Some(WEEKDAY_SETS[i].iter().map(|s| s.to_string()).collect::<Vec<_>>()))];
    let path_w = if opts.dynamic_bias { 4 } else { 1 };
    let path = pickw(PATHS.iter().map(|(p, q)| (if p.contains('@') || q.map(|q| q.contains('@')).unwrap_or(false) { path_w } else { 1 }, (*p, *q))).collect());

    (scheme, host, ips, methods, headers, (datetime, time, weekdays), path)
        .prop_map(|(scheme, host, ips, (methods, exclude_methods), headers, (datetime, time, weekdays), (path, query))| {
            let mut names: Vec<&'static str> = Vec::new();
            let mut add = |t: &str| {
                for n in template_markers(t) {
                    if !names.contains(&n) {
                        names.push(n);
                    }
                }
            };
            add(path);
            if let Some(q) = query {
                add(q);
            }
            if let Some(h) = &host {
                add(h);
            }
            if let Some(hs) = &headers {
                for c in hs {
                    if c.kind == "match_regex" {
                        if let Some(v) = &c.value {
                            add(v);
                        }
                    }
                }
            }
            (
                SourceSpec {
                    scheme,
                    host,
                    ips,
                    datetime,
                    time,
                    path: path.to_string(),
                    query: query.map(|q| q.to_string()),
                    headers,
                    methods,
                    exclude_methods,
                    weekdays,
                    ..Default::default()
                },
                names,
            )
        })
        .boxed()
}

#[derive(Clone, Debug, Serialize, Deserialize, PartialEq, Default)]
pub struct ActionPart {
    pub status_code: Option<u16>,
    pub response_status_codes: Option<Vec<u16>>,
    pub exclude_response_status_codes: Option<bool>,
    pub target_kind: u8,
    pub header_filters: Vec<(u8, u8)>,
    pub body_filter: u8,
    pub log_override: Option<bool>,
    pub reset: Option<bool>,
    pub stop: Option<bool>,
    pub sampling: Option<u32>,
    pub rank: u16,
}

pub const HF_ACTIONS: &[&str] = &["add", "remove", "replace", "override", "default", "frobnicate"];

pub fn action_part_strategy(opts: RuleOpts) -> BoxedStrategy<ActionPart> {
    if !opts.actions {
        return (0u16..=opts.max_rank).prop_map(|rank| ActionPart { rank, ..Default::default() }).boxed();
    }
    let status = pickw(vec![(3, None), (1, Some(0u16)), (2, Some(301)), (2, Some(302)), (1, Some(404)), (1, Some(410)), (1, Some(308))]);
    let codes = pickw(vec![
        (6, (None, None)),
        (1, (Some(vec![]), None)),
        (2, (Some(vec![404u16]), None)),
        (2, (Some(vec![200, 404]), None)),
        (1, (Some(vec![500]), None)),
        // not in ascending order (nothing sorts these lists)
        (1, (Some(vec![404, 200]), None)),
        (1, (Some(vec![503, 404, 410, 500, 403]), None)),
        (1, (Some(vec![503, 404, 410, 500, 403]), Some(true))),
        (2, (Some(vec![404]), Some(true))),
        (1, (Some(vec![200, 404]), Some(true))),
        (1, (Some(vec![404]), Some(false))),
    ]);
    let flags = opts.flags;
    let tri = move |w: u32| pickw(vec![(10, None), (2, Some(false)), (if flags { w } else { 0 }, Some(true))]);
    let sampling = if opts.sampling { pickw(vec![(12, None), (1, Some(100u32)), (1, Some(0)), (1, Some(1000))]) } else { Just(None).boxed() };
    (
        status,
        codes,
        0u8..5,
        prop::collection::vec((0u8..6, 0u8..3), 0..=2),
        0u8..10,
        pickw(vec![(4, None), (1, Some(true)), (2, Some(false))]),
        tri(2),
        tri(2),
        sampling,
        0u16..=opts.max_rank,
    )
        .prop_map(|(status_code, (response_status_codes, exclude_response_status_codes), target_kind, header_filters, body_filter, log_override, reset, stop, sampling, rank)| ActionPart {
            status_code,
            response_status_codes,
            exclude_response_status_codes,
            target_kind,
            header_filters,
            body_filter,
            log_override,
            reset,
            stop,
            sampling,
            rank,
        })
        .boxed()
}

pub fn body_filter_json(kind: u8, id: &str) -> Option<Value> {
    match kind {
        1 => Some(json!({"action": "append_text", "content": format!("<!--{id}-->"), "id": format!("bf-{id}"), "target_hash": "text"})),
        2 => Some(json!({"action": "prepend_text", "content": format!("<!--p{id}-->"), "id": format!("bf-{id}"), "target_hash": "text"})),
        3 => Some(json!({"action": "append_child", "value": format!("<i>{id}</i>"), "inner_value": null, "element_tree": ["html", "body"], "css_selector": null, "id": format!("bf-{id}"), "target_hash": format!("th-{id}")})),
        4 => Some(json!({"action": "prepend_child", "value": format!("<b>{id}</b>"), "inner_value": format!("{id}"), "element_tree": ["html", "head"], "css_selector": "", "id": null, "target_hash": null})),
        5 => Some(json!({"action": "replace", "value": format!("<title>{id}</title>"), "inner_value": null, "element_tree": ["html", "head", "title"], "css_selector": null, "id": format!("bf-{id}"), "target_hash": "title"})),
        6 => Some(json!({"action": "append_text", "content": format!("\u{e9}\"\\\n<{id}>\u{1f918}"), "id": null, "target_hash": null})),
        7 => Some(json!({"action": "append_child", "value": format!("<meta name=\"d\" content=\"{id} \u{e9}\">"), "inner_value": format!("{id} \u{e9}"), "element_tree": ["html", "head"], "css_selector": "meta[name=\"d\"]", "id": format!("bf-{id}"), "target_hash": "meta-d"})),
        // round 4: text filters whose content is empty (an empty robots.txt; a marker that captured nothing)
        8 => Some(json!({"action": "replace_text", "content": "", "id": format!("bf-{id}"), "target_hash": "text"})),
        9 => Some(json!({"action": "append_text", "content": "", "id": null, "target_hash": null})),
        _ => None,
    }
}

pub fn assemble_rule(id: String, src: SourceSpec, names: Vec<&'static str>, a: &ActionPart) -> RuleSpec {
    let mut source = src;
    source.response_status_codes = a.response_status_codes.clone();
    source.exclude_response_status_codes = a.exclude_response_status_codes;
    source.sampling = a.sampling;
    let first_marker = names.iter().find(|n| **n != "bad").copied();
    let target = match a.target_kind {
        0 => None,
        1 => Some(String::new()),
        2 => Some(format!("/target-{id}")),
        3 => Some(match first_marker {
            Some(m) => format!("/t/{id}/@{m}"),
            None => format!("/t/{id}?x=1"),
        }),
        _ => Some(format!("https://example.org/{id}")),
    };
    let header_filters: Vec<HeaderFilterSpec> = a
        .header_filters
        .iter()
        .map(|(act, h)| HeaderFilterSpec {
            action: HF_ACTIONS[*act as usize].to_string(),
            header: match h {
                0 => format!("X-Rule-{id}"),
                1 => "X-Shared".to_string(),
                _ => "x-shared".to_string(),
            },
            value: format!("v-{id}"),
            id: Some(format!("hf-{id}")),
            target_hash: Some(format!("h{h}")),
        })
        .collect();
    RuleSpec {
        id: id.clone(),
        source,
        target,
        status_code: a.status_code,
        rank: a.rank,
        markers: names.iter().map(|n| marker_spec(n)).collect(),
        variables: Vec::new(),
        body_filters: body_filter_json(a.body_filter, &id).map(|b| vec![b]),
        header_filters: if header_filters.is_empty() { None } else { Some(header_filters) },
        log_override: a.log_override,
        reset: a.reset,
        stop: a.stop,
        examples: None,
        redirect_unit_id: if a.status_code.unwrap_or(0) != 0 { Some(format!("ru-{id}")) } else { None },
        configuration_log_unit_id: a.log_override.map(|_| format!("lu-{id}")),
        configuration_reset_unit_id: if a.reset == Some(true) || a.stop == Some(true) { Some(format!("cu-{id}")) } else { None },
        target_hash: Some(format!("tgt-{id}")),
    }
}

/// A rule body without id (ids are assigned by position so that they are unique).
pub fn rule_body_strategy(opts: RuleOpts) -> BoxedStrategy<(SourceSpec, Vec<&'static str>, ActionPart)> {
    (source_strategy(opts), action_part_strategy(opts)).prop_map(|((s, n), a)| (s, n, a)).boxed()
}

pub fn source_marker_names(s: &SourceSpec) -> Vec<&'static str> {
    let mut names: Vec<&'static str> = Vec::new();
    let mut add = |t: &str| {
        for n in template_markers(t) {
            if !names.contains(&n) {
                names.push(n);
            }
        }
    };
    add(&s.path);
    if let Some(q) = &s.query {
        add(q);
    }
    if let Some(h) = &s.host {
        add(h);
    }
    if let Some(hs) = &s.headers {
        for c in hs {
            if c.kind == "match_regex" {
                if let Some(v) = &c.value {
                    add(v);
                }
            }
        }
    }
    names
}

/// Rule lists in which ~40% of the rules are *siblings* of their predecessor: same source with exactly one
/// trigger dimension redrawn, so that rules share buckets below the differing layer.
pub fn rules_strategy(opts: RuleOpts, min: usize, max: usize) -> BoxedStrategy<Vec<RuleSpec>> {
    let sib = pickw(vec![(6u32, 0u8), (1, 1), (1, 2), (1, 3), (1, 4), (1, 5), (1, 6), (1, 7)]);
    prop::collection::vec((rule_body_strategy(opts), sib), min..=max)
        .prop_map(|bodies| {
            let mut out: Vec<RuleSpec> = Vec::new();
            for (i, ((own, _names, a), sib)) in bodies.into_iter().enumerate() {
                let mut src = own.clone();
                if sib != 0 && i > 0 {
                    let prev = out[i - 1].source.clone();
                    src = prev;
                    match sib {
                        1 => src.scheme = own.scheme,
                        2 => src.host = own.host,
                        3 => src.ips = own.ips,
                        4 => {
                            src.methods = own.methods;
                            src.exclude_methods = own.exclude_methods;
                        }
                        5 => src.headers = own.headers,
                        6 => {
                            src.datetime = own.datetime;
                            src.time = own.time;
                            src.weekdays = own.weekdays;
                        }
                        _ => {
                            src.path = own.path;
                            src.query = own.query;
                        }
                    }
                }
                let names = source_marker_names(&src);
                out.push(assemble_rule(format!("r{i:02}"), src, names, &a));
            }
            out
        })
        .boxed()
}

// ---------------------------------------------------------------------------------------------
// requests
#[derive(Clone, Debug, Serialize, Deserialize, PartialEq)]
pub struct RequestChoice {
    pub focus: u16,
    pub derived: bool,
    /// 0 = keep every trigger satisfied, 1..=7 = flip that trigger to a near miss
    pub flip: u8,
    pub picks: [u16; 12],
}

pub fn request_choice_strategy() -> BoxedStrategy<RequestChoice> {
    (any::<u16>(), prop::bool::weighted(0.6), pickw(vec![(6u32, 0u8), (1, 1), (1, 2), (1, 3), (1, 4), (1, 5), (1, 6), (1, 7)]), prop::array::uniform12(any::<u16>()))
        .prop_map(|(focus, derived, flip, picks)| RequestChoice { focus, derived, flip, picks })
        .boxed()
}

fn idx(p: u16, n: usize) -> usize {
    // monotone mapping (shrinks with the pick)
    ((p as usize) * n) >> 16
}

fn swap_case(s: &str) -> String {
    s.chars().map(|c| if c.is_ascii_lowercase() { c.to_ascii_uppercase() } else { c.to_ascii_lowercase() }).collect()
}

/// Turn a choice into a concrete request; `derived` requests instantiate every trigger of the focus rule.
pub fn derive_request(rules: &[RuleSpec], cfg: &ConfigSpec, c: &RequestChoice) -> RequestSpec {
    let p = &c.picks;
    // free request first
    let mut q = RequestSpec {
        uri: REQ_PATHS[idx(p[0], REQ_PATHS.len())].to_string(),
        host: if p[1] % 5 == 0 { None } else { Some(REQ_HOSTS[idx(p[1], REQ_HOSTS.len())].to_string()) },
        scheme: [None, Some("http"), Some("https"), Some("ftp"), Some("http")][idx(p[2], 5)].map(|s| s.to_string()),
        method: if p[3] % 4 == 0 { None } else { Some(REQ_METHODS[idx(p[3], REQ_METHODS.len())].to_string()) },
        ip: if p[4] % 4 == 0 { None } else { Some(REQ_IPS[idx(p[4], REQ_IPS.len())].to_string()) },
        headers: Vec::new(),
        created_at: if p[5] % 6 == 0 { None } else { Some(REQ_INSTANTS[idx(p[5], REQ_INSTANTS.len())].to_string()) },
        sampling_override: None,
    };
    let nh = idx(p[6], 5);
    for k in 0..nh {
        let a = p[7].wrapping_add((k as u16).wrapping_mul(7919));
        let b = p[8].wrapping_add((k as u16).wrapping_mul(104729u32 as u16));
        q.headers.push((REQ_H_NAMES[idx(a, REQ_H_NAMES.len())].to_string(), REQ_H_VALUES[idx(b, REQ_H_VALUES.len())].to_string()));
    }
    if !c.derived || rules.is_empty() {
        return q;
    }
    let r = &rules[(c.focus as usize) % rules.len()];
    let s = &r.source;
    let flip = c.flip;
    // scheme
    if let Some(sc) = s.scheme.as_deref() {
        if !sc.is_empty() {
            q.scheme = Some(if flip == 1 { if sc == "http" { "https".into() } else { "http".into() } } else { sc.to_string() });
        }
    }
    // host
    if let Some(h) = s.host.as_deref() {
        if !h.is_empty() {
            let mut v = instantiate(h, p[9], flip == 2);
            if flip == 2 && !h.contains('@') {
                v = format!("x{v}");
            }
            if cfg.ignore_host_case && p[9] % 2 == 1 {
                v = swap_case(&v);
            }
            q.host = Some(v);
        }
    }
    // ip
    if let Some(ips) = &s.ips {
        if !ips.is_empty() {
            let one = &ips[(p[4] as usize) % ips.len()];
            let (cidr, want_in) = match one {
                IpSpec::InRange(c) => (c, true),
                IpSpec::NotInRange(c) => (c, false),
            };
            if let Some(info) = CIDRS.iter().find(|i| i.cidr == cidr) {
                let inside = want_in != (flip == 3);
                q.ip = Some(if inside { info.inside } else { info.outside }.to_string());
            }
        }
    }
    // method
    if let Some(ms) = &s.methods {
        if !ms.is_empty() {
            let listed = ms[(p[3] as usize) % ms.len()].clone();
            let other = METHODS.iter().find(|m| !ms.iter().any(|x| x == *m)).unwrap_or(&"PATCH").to_string();
            let want_listed = (s.exclude_methods != Some(true)) != (flip == 4);
            q.method = Some(if want_listed { listed } else { other });
        }
    }
    // headers
    if let Some(conds) = &s.headers {
        q.headers.retain(|_| p[10] % 3 == 0);
        for (k, cnd) in conds.iter().enumerate() {
            let v = cnd.value.clone().unwrap_or_default();
            let inst = instantiate(&v, p[10].wrapping_add(k as u16), false);
            let name = if p[10] % 2 == 0 { cnd.name.clone() } else { swap_case(&cnd.name) };
            let negate = flip == 5 && k == (p[11] as usize) % conds.len();
            let positive = |val: String| (name.clone(), val);
            match (cnd.kind.as_str(), negate) {
                ("is_defined", false) | ("is_not_defined", true) => q.headers.push(positive("zzz".into())),
                ("is_not_defined", false) | ("is_defined", true) => q.headers.retain(|(n, _)| !n.eq_ignore_ascii_case(&cnd.name)),
                ("is_equals", false) | ("is_not_equal_to", true) | ("match_regex", false) => q.headers.push(positive(inst)),
                ("contains", false) | ("does_not_contain", true) => q.headers.push(positive(format!("a{inst}b"))),
                ("starts_with", false) => q.headers.push(positive(format!("{inst}b"))),
                ("ends_with", false) => q.headers.push(positive(format!("a{inst}"))),
                ("is_not_equal_to", false) | ("does_not_contain", false) => q.headers.push(positive("qqq".into())),
                (_, true) => q.headers.push(positive("nomatch-1".into())),
                _ => {}
            }
        }
        if cfg.ignore_header_case && p[11] % 2 == 1 {
            for h in q.headers.iter_mut() {
                h.1 = swap_case(&h.1);
            }
        }
    }
    // instants: take a bound of a range of the rule (inclusive start, exclusive end => boundary cases)
    let mut instant: Option<String> = None;
    if let Some(rs) = &s.datetime {
        if !rs.is_empty() {
            let (a, b) = &rs[(p[5] as usize) % rs.len()];
            instant = match (p[5] / 7) % 3 {
                0 => a.clone().or(b.clone()),
                1 => b.clone().or(a.clone()),
                _ => a.clone(),
            };
            if instant.as_deref().map(|s| parse_instant(s).is_none()).unwrap_or(false) {
                instant = None;
            }
        }
    }
    if instant.is_some() && flip != 6 {
        q.created_at = instant;
    } else if s.time.is_some() || s.weekdays.is_some() {
        q.created_at = Some(REQ_INSTANTS[idx(p[5], REQ_INSTANTS.len())].to_string());
    }
    // path
    let lit = crate::mflat::rule_path_literal(s);
    let mut uri = instantiate(&lit, p[0], flip == 7);
    if flip == 7 && !lit.contains('@') {
        uri = format!("{uri}x");
    }
    if cfg.ignore_path_and_query_case && p[0] % 2 == 1 {
        uri = swap_case(&uri);
    }
    q.uri = uri;
    q
}

/// Ids that stress the tie-break on the id: integers written in several ways, mixed with text ids.
pub const TRICKY_IDS: &[&str] = &["7", "07", "10", "9", "1a", "007", "+7", "70", "a1", "A1", "r10", "r9", "r-9", "7a"];

/// Rename the rules (consistently) to the tricky ids; rules beyond the pool keep their name.
pub fn rename_tricky(rules: &mut [RuleSpec], offset: usize) {
    for (i, r) in rules.iter_mut().enumerate() {
        let k = i + offset % TRICKY_IDS.len();
        if k < TRICKY_IDS.len() {
            r.id = TRICKY_IDS[k].to_string();
        }
    }
}

#[derive(Clone, Debug, Serialize, Deserialize, PartialEq)]
pub struct RouterCase {
    pub config: ConfigSpec,
    pub rules: Vec<RuleSpec>,
    pub requests: Vec<RequestSpec>,
}

pub fn router_case_strategy(opts: RuleOpts, max_rules: usize, min_req: usize, max_req: usize) -> BoxedStrategy<RouterCase> {
    (config_strategy(), rules_strategy(opts, 1, max_rules), prop::collection::vec(request_choice_strategy(), min_req..=max_req))
        .prop_map(|(config, rules, choices)| {
            let requests = choices.iter().map(|c| derive_request(&rules, &config, c)).collect();
            RouterCase { config, rules, requests }
        })
        .boxed()
}
