//! Declarations of the library's `extern "C"` surface, as a C caller sees it (mirrors redirectionio.h).
#![allow(non_camel_case_types)]
use redirectionio::action::Action;
use redirectionio::filter::FilterBodyAction;
use redirectionio::http::Request;
use std::ffi::{c_char, c_void, CStr, CString};

#[repr(C)]
#[derive(Debug)]
pub struct CHeaderMap {
    pub name: *const c_char,
    pub value: *const c_char,
    pub next: *mut CHeaderMap,
}

#[repr(C)]
#[derive(Debug, Clone, Copy)]
pub struct CBuffer {
    pub data: *mut u8,
    pub len: usize,
}

#[repr(C)]
pub struct CTrustedProxies(pub *mut c_void);

pub type LogCallback = extern "C" fn(*const c_char, *const c_void, std::ffi::c_short);

extern "C" {
    pub fn redirectionio_log_init_with_callback(callback: LogCallback, data: *const c_void);
    pub fn redirectionio_log_init_stderr();
    pub fn redirectionio_action_json_deserialize(s: *mut c_char) -> *const Action;
    pub fn redirectionio_action_json_serialize(a: *mut Action) -> *const c_char;
    pub fn redirectionio_action_drop(a: *mut Action);
    pub fn redirectionio_action_get_status_code(a: *mut Action, code: u16) -> u16;
    pub fn redirectionio_action_header_filter_filter(a: *mut Action, h: *const CHeaderMap, code: u16, add_rule_ids_header: bool) -> *const CHeaderMap;
    pub fn redirectionio_action_body_filter_create(a: *mut Action, code: u16, h: *const CHeaderMap) -> *const FilterBodyAction;
    pub fn redirectionio_action_body_filter_filter(f: *mut FilterBodyAction, b: CBuffer) -> CBuffer;
    pub fn redirectionio_action_body_filter_close(f: *mut FilterBodyAction) -> CBuffer;
    pub fn redirectionio_action_body_filter_drop(f: *mut FilterBodyAction);
    pub fn redirectionio_action_should_log_request(a: *mut Action, allow: bool, code: u16) -> bool;

    pub fn redirectionio_request_json_deserialize(s: *mut c_char) -> *const Request;
    pub fn redirectionio_request_json_serialize(r: *const Request) -> *const c_char;
    pub fn redirectionio_request_create(uri: *const c_char, host: *const c_char, scheme: *const c_char, method: *const c_char, h: *const CHeaderMap) -> *const Request;
    pub fn redirectionio_trusted_proxies_create(s: *const c_char) -> *const CTrustedProxies;
    pub fn redirectionio_trusted_proxies_add_proxy(t: *mut CTrustedProxies, s: *const c_char);
    pub fn redirectionio_request_set_remote_addr(r: *mut Request, addr: *const c_char, t: *const CTrustedProxies);
    pub fn redirectionio_request_from_str(url: *const c_char) -> *const Request;
    pub fn redirectionio_request_drop(r: *mut Request);

    pub fn redirectionio_api_get_rule_api_version() -> *const c_char;
    pub fn redirectionio_api_create_log_in_json(
        r: *mut Request,
        code: u16,
        h: *const CHeaderMap,
        a: *mut Action,
        proxy: *const c_char,
        time: u64,
        client_ip: *const c_char,
    ) -> *const c_char;
    pub fn redirectionio_api_buffer_drop(b: CBuffer);
}

/// Take ownership of a string returned by the library (the C side frees it with the matching allocator: CString::from_raw).
pub unsafe fn take_string(p: *const c_char) -> Option<String> {
    if p.is_null() {
        return None;
    }
    let s = CString::from_raw(p as *mut c_char);
    Some(s.to_string_lossy().into_owned())
}

pub unsafe fn peek_string(p: *const c_char) -> Option<String> {
    if p.is_null() {
        return None;
    }
    Some(CStr::from_ptr(p).to_string_lossy().into_owned())
}

/// Build a header list the way a C caller does (it owns the nodes and the strings).
pub struct OwnedHeaderMap {
    pub nodes: Vec<*mut CHeaderMap>,
    pub strings: Vec<CString>,
}

impl OwnedHeaderMap {
    pub fn new(headers: &[(String, String)]) -> OwnedHeaderMap {
        let mut m = OwnedHeaderMap { nodes: Vec::new(), strings: Vec::new() };
        let mut next: *mut CHeaderMap = std::ptr::null_mut();
        // the library walks the list from the head; build it so that the walk yields `headers` in order
        for (n, v) in headers.iter().rev() {
            // U+E000 in a generated string stands for one byte 0xE9 (Latin-1 e-acute): a C caller hands over bytes, not UTF-8
            let bytes = |s: &str| -> Vec<u8> { s.replace('\0', "").replace('\u{e000}', "\u{1}").into_bytes().into_iter().map(|b| if b == 1 { 0xE9 } else { b }).collect() };
            let cn = CString::new(bytes(n)).unwrap();
            let cv = CString::new(bytes(v)).unwrap();
            let node = Box::into_raw(Box::new(CHeaderMap { name: cn.as_ptr(), value: cv.as_ptr(), next }));
            m.strings.push(cn);
            m.strings.push(cv);
            m.nodes.push(node);
            next = node;
        }
        m
    }
    pub fn head(&self) -> *const CHeaderMap {
        self.nodes.last().copied().unwrap_or(std::ptr::null_mut())
    }
}

impl Drop for OwnedHeaderMap {
    fn drop(&mut self) {
        for n in self.nodes.drain(..) {
            unsafe { drop(Box::from_raw(n)) };
        }
    }
}

/// Read and release a header list returned by the library (nodes are Box<HeaderMap>, strings CString).
/// Returns the headers in list order.
pub unsafe fn take_header_map(mut p: *const CHeaderMap) -> Vec<(String, String)> {
    let mut out = Vec::new();
    while !p.is_null() {
        let node = Box::from_raw(p as *mut CHeaderMap);
        let n = take_string(node.name).unwrap_or_default();
        let v = take_string(node.value).unwrap_or_default();
        out.push((n, v));
        p = node.next;
    }
    out
}

/// A buffer as a C caller allocates it: exactly `len` bytes (malloc(len)).
pub fn c_buffer(bytes: &[u8]) -> CBuffer {
    if bytes.is_empty() {
        return CBuffer { data: std::ptr::null_mut(), len: 0 };
    }
    let b: Box<[u8]> = bytes.to_vec().into_boxed_slice();
    let len = b.len();
    CBuffer { data: Box::into_raw(b) as *mut u8, len }
}

pub unsafe fn read_buffer(b: &CBuffer) -> Vec<u8> {
    if b.data.is_null() || b.len == 0 {
        return Vec::new();
    }
    std::slice::from_raw_parts(b.data, b.len).to_vec()
}

// ---- log callback, written the way the web-server modules write theirs: the message is handed over to the callback,
// which reads it and releases it (exactly once) -------------------------------------------------------------------
pub static LOG_MESSAGES: std::sync::atomic::AtomicU64 = std::sync::atomic::AtomicU64::new(0);
pub static LOG_BAD: std::sync::atomic::AtomicU64 = std::sync::atomic::AtomicU64::new(0);
static LOG_DATA: u8 = 0x5a;

extern "C" fn log_callback(msg: *const c_char, data: *const c_void, level: std::ffi::c_short) {
    use std::sync::atomic::Ordering;
    LOG_MESSAGES.fetch_add(1, Ordering::Relaxed);
    if msg.is_null() {
        return;
    }
    // the message reads "<LEVEL> - <text>", and the user data pointer comes back unchanged
    let text = unsafe { take_string(msg) }.unwrap_or_default();
    let level_ok = (1..=5).contains(&level);
    let prefix_ok = ["ERROR - ", "WARN - ", "INFO - ", "DEBUG - ", "TRACE - "].iter().any(|p| text.starts_with(p));
    if !level_ok || !prefix_ok || data != (&LOG_DATA as *const u8 as *const c_void) {
        LOG_BAD.fetch_add(1, Ordering::Relaxed);
    }
}

/// Install the callback logger once per process.
/// Call the callback initialiser directly (no `Once` of ours): used by the probe that initialises loggers twice.
pub fn init_log_callback_raw() {
    unsafe { redirectionio_log_init_with_callback(log_callback, &LOG_DATA as *const u8 as *const c_void) }
}

pub fn install_log_callback() {
    static ONCE: std::sync::Once = std::sync::Once::new();
    ONCE.call_once(|| unsafe { redirectionio_log_init_with_callback(log_callback, &LOG_DATA as *const u8 as *const c_void) });
}
