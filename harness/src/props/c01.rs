//! C01 — rule matching is exact: no missed rule, no spurious rule, no duplicates.
use crate::engine::*;
use crate::gen::*;
use crate::mflat::*;
use crate::spec::*;
use serde_json::Value;

pub fn check(case: &RouterCase) -> Outcome {
    let mut out = Outcome::new();
    out.evals = 0;
    let router = build_router(&case.config, &case.rules);
    for q in &case.requests {
        let req = q.build(&router.config);
        if req.path_and_query_skipped.path_and_query != q.uri {
            out.class("skipped:uri-not-canonical");
            continue;
        }
        out.evals += 1;
        let got = ids_sorted(&router.match_request(&req));
        let (exp, verdicts) = expected_matches(&case.config, &case.rules, q);
        if got != exp {
            let detail: Vec<String> = case
                .rules
                .iter()
                .zip(&verdicts)
                .filter(|(r, _)| got.contains(&r.id) || exp.contains(&r.id))
                .map(|(r, v)| format!("{}: failed layers {:?} host={:?}", r.id, v.failed_layers(), v.host))
                .collect();
            out.fail(format!("request {:?}: matched {:?} but the flat predicate gives {:?} ({})", q, got, exp, detail.join("; ")));
            return out;
        }
        // classification
        let matched = !exp.is_empty();
        let mut near_miss = false;
        for (r, v) in case.rules.iter().zip(&verdicts) {
            if exp.contains(&r.id) {
                continue;
            }
            let failed = v.failed_layers();
            if failed.len() == 1 {
                near_miss = true;
                out.class(match failed[0] {
                    "scheme" => "reject-only:scheme",
                    "host" => "reject-only:host",
                    "ip" => "reject-only:ip",
                    "method" => "reject-only:method",
                    "headers" => "reject-only:headers",
                    "datetime" => "reject-only:datetime",
                    _ => "reject-only:path",
                });
            } else if failed.is_empty() {
                near_miss = true;
                out.class("any-host-fallback-suppressed");
            }
        }
        if matched {
            out.class("matched");
            if exp.len() >= 2 {
                out.class("matched>=2");
            }
            if case.rules.iter().zip(&verdicts).any(|(r, v)| exp.contains(&r.id) && v.host.is_none()) && case.rules.iter().any(|r| r.source.host.as_deref().map(|h| !h.is_empty()).unwrap_or(false)) {
                out.class("any-host-rule-matched-beside-host-rules");
            }
        }
        if matched && near_miss {
            out.nontrivial = true;
        }
    }
    if out.evals == 0 {
        out.evals = 1;
    }
    out
}

pub const RULE: &str = "case = (router config over all 64 flag combinations x marketing set, 1..12 rules with unique ids drawn from collision pools, 6..10 requests of which ~60% instantiate every trigger of a focus rule and then flip at most one); \
oracle = sorted ids (with multiplicity) of Router::match_request on the request normalised with the router's config == sorted { r | flat conjunction of per-trigger predicates } with the any-host policy per scheme scope; \
non-trivial = some request of the case matched >=1 rule AND some other rule was rejected by exactly one trigger layer (near miss) or by any-host suppression; distinct by hash of the serialised case";

pub fn run(ctx: &Ctx) -> Report {
    let mut rep = Report::new("C01", RULE);
    rep.assume("requests are normalised with the router's own configuration before match_request (implicit precondition of every caller)");
    rep.assume("paths/queries are canonical ASCII here (normalisation is C09's subject); unparsable CIDRs/instants/weekdays, unknown header kinds, value-less conditions and marker-less match_regex are skipped as the library documents (logged and skipped)");
    rep.add(run_part(ctx, "routers", ctx.cases(120_000, 3_000_000), || router_case_strategy(RuleOpts::MATCH_ONLY, 12, 6, 10), check, &[]));
    rep
}

pub fn replay(_part: &str, case: &Value) -> Result<Outcome, String> {
    replay_case::<RouterCase, _>(case, check)
}
