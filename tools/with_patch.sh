#!/usr/bin/env bash
# usage: tools/with_patch.sh [-R] <patch-file> -- <command...>
# Applies the patch to /repo's working tree, runs the command, then restores the tree (always).
set -u
REV=""
if [ "$1" = "-R" ]; then REV="-R"; shift; fi
PATCH="$(realpath "$1")"; shift
[ "$1" = "--" ] && shift
if [ -n "$(git -C /repo status --porcelain)" ]; then echo "refusing: /repo has uncommitted changes" >&2; exit 2; fi
restore() { git -C /repo checkout -- . ; git -C /repo clean -fdq -- src tests 2>/dev/null; }
trap restore EXIT
if ! git -C /repo apply $REV "$PATCH"; then echo "patch does not apply" >&2; exit 2; fi
"$@"
rc=$?
exit $rc
