pub mod engine;
pub mod known;
pub mod props;
