//! C10 — markers capture the matching text and are substituted into targets and filters.
use crate::engine::*;
use crate::spec::*;
use heck::{ToKebabCase, ToLowerCamelCase, ToSnakeCase};
use proptest::prelude::*;
use redirectionio::action::Action;
use serde::{Deserialize, Serialize};
use serde_json::{json, Value};
use std::collections::BTreeMap;

// ---------------------------------------------------------------------------------------------
// marker types: expression + generators of accepted / rejected strings
pub const TYPES: &[(&str, &str)] = &[
    ("integer", "[0-9]+"),
    ("lower", "([\\p{Ll}])+?"),
    ("lowerdash", "([\\p{Ll}]|\\-)+?"),
    ("enum", "(cat|dog|fish)"),
    ("uuid", "[a-fA-F0-9]{8}-[a-fA-F0-9]{4}-[a-fA-F0-9]{4}-[a-fA-F0-9]{4}-[a-fA-F0-9]{12}"),
    ("date", "([0-9]+)-(0[1-9]|1[012])-(0[1-9]|[12][0-9]|3[01])"),
    ("percent", "([\\p{Ll}\\p{Lu}\\p{Lt}0-9]|\\-|\\.|\\(|\\)|%[0-9A-Z]{2})+?"),
    ("upper", "([\\p{Lu}\\p{Lt}])+?"),
    ("anything", "(?:.+?)"),
    // an enum with non-ASCII alternatives, for hosts and header values (which the request carries unencoded)
    ("enumx", "(?:caf\u{e9}|th\u{e9})"),
];

fn type_regex(t: &str) -> &'static str {
    TYPES.iter().find(|(n, _)| *n == t).map(|(_, r)| *r).unwrap()
}

fn accepted(t: &'static str) -> BoxedStrategy<String> {
    match t {
        "integer" => "[0-9]{1,4}".boxed(),
        "lower" => "[a-z]{1,5}".boxed(),
        "lowerdash" => "[a-z]{1,3}(-[a-z]{1,3})?".boxed(),
        "enum" => pick(vec!["cat".to_string(), "dog".to_string(), "fish".to_string()]),
        "uuid" => "[a-f0-9]{8}-[a-f0-9]{4}-[a-f0-9]{4}-[a-f0-9]{4}-[a-f0-9]{12}".boxed(),
        "date" => (1990u32..2030, 1u32..=12, 1u32..=28).prop_map(|(y, m, d)| format!("{y}-{m:02}-{d:02}")).boxed(),
        "percent" => "[a-zA-Z0-9]{1,3}([.()-][a-z0-9]{1,2})?(%[0-9A-F]{2}[a-z]?)?".boxed(),
        "upper" => "[A-Z]{1,4}".boxed(),
        "enumx" => pick(vec!["caf\u{e9}".to_string(), "th\u{e9}".to_string()]),
        _ => "[a-z0-9]{1,4}(/[a-z0-9]{1,3})?".boxed(),
    }
}

/// strings rejected by the expression whatever the letter case (matching may be case-insensitive)
fn rejected(t: &'static str) -> BoxedStrategy<String> {
    match t {
        "integer" => prop_oneof!["[0-9]{0,2}[a-z_][0-9]{0,1}".boxed(), Just(String::new()).boxed()].boxed(),
        "lower" | "lowerdash" | "upper" => prop_oneof!["[a-z]{0,2}[0-9_][a-z]{0,1}".boxed(), Just(String::new()).boxed()].boxed(),
        "enum" => pick(vec!["cow".to_string(), "ca".to_string(), "dogs".to_string(), "".to_string(), "cat1".to_string()]),
        "uuid" => "[a-f0-9]{7}".boxed(),
        "date" => pick(vec!["2024-13-01".to_string(), "2024-00-10".to_string(), "2024-1-1".to_string(), "x".to_string()]),
        "percent" => prop_oneof!["[a-z]{0,2}[_!][a-z]{0,1}".boxed(), Just(String::new()).boxed()].boxed(),
        "enumx" => pick(vec!["cafe".to_string(), "th".to_string(), String::new(), "caf\u{e9}s".to_string()]),
        _ => Just(String::new()).boxed(),
    }
}

pub const NAMES: &[&str] = &["a", "ab", "abc", "id", "id2", "lang", "postId", "Ab"];

#[derive(Serialize, Deserialize, Clone, Debug, PartialEq)]
pub struct MarkerUse {
    pub name: String,
    pub ty: String,
    /// the instantiated string as the request carries it
    pub value: String,
    pub accepted: bool,
    pub transformers: Vec<TransformerSpec>,
    /// where it sits: "path" | "host" | "header"
    pub place: String,
}

#[derive(Serialize, Deserialize, Clone, Debug, PartialEq)]
pub struct VarSpec {
    pub name: String,
    /// "marker:<name>", "request_host", "request_scheme", "request_method", "request_path", "request_remote_address", "request_time", "request_header:<name>:<default or ->"
    pub kind: String,
    pub transformers: Vec<TransformerSpec>,
}

#[derive(Serialize, Deserialize, Clone, Debug, PartialEq)]
pub struct Case {
    pub config: ConfigSpec,
    pub markers: Vec<MarkerUse>,
    pub path_tpl: String,
    pub host_tpl: Option<String>,
    /// (header name in the rule, header name in the request, value template)
    pub header_tpl: Option<(String, String, String)>,
    pub variables: Vec<VarSpec>,
    /// templates mentioning @names: redirect target, header filter value, text body filter, html body filter value
    pub target: String,
    pub header_value: String,
    pub body_text: String,
    pub body_html: String,
    pub request_extra: (Option<String>, Option<String>, Option<String>, Option<String>),
    /// warm the regex cache of the router with this limit before matching (0 = never)
    #[serde(default)]
    pub cache: u8,
    /// the conditioned header is also sent on a second line that does not fit the template: 0 no, 1 `_` before, 2 `_` after, 3 empty after
    #[serde(default)]
    pub other_line: u8,
}

// ---------------------------------------------------------------------------------------------
// reference model
pub fn transform(value: &str, chain: &[TransformerSpec]) -> String {
    let mut v = value.to_string();
    for t in chain {
        let opts = t.options.clone().unwrap_or_default();
        v = match t.kind.as_deref() {
            Some("camelize") => v.to_lower_camel_case(),
            Some("dasherize") => v.to_kebab_case(),
            Some("underscorize") => v.to_snake_case(),
            Some("uppercase") => v.to_uppercase(),
            Some("lowercase") => v.to_lowercase(),
            Some("replace") => match (t.options.as_ref().and_then(|o| o.get("something")), t.options.as_ref().and_then(|o| o.get("with"))) {
                (Some(s), Some(w)) => v.replace(s.as_str(), w.as_str()),
                _ => v,
            },
            Some("slice") => {
                if t.options.is_none() || !opts.contains_key("from") || !opts.contains_key("to") {
                    v
                } else {
                    let from: usize = opts["from"].parse().unwrap_or(0);
                    let to: Option<usize> = opts["to"].parse().ok();
                    let n = v.chars().count();
                    let to = to.unwrap_or(n).min(n);
                    if from >= to {
                        String::new()
                    } else {
                        v.chars().skip(from).take(to - from).collect()
                    }
                }
            }
            _ => v,
        };
    }
    v
}

/// single left-to-right pass: at each '@' the longest known name wins
pub fn substitute(tpl: &str, vars: &BTreeMap<String, String>) -> String {
    let mut out = String::new();
    let mut rest = tpl;
    while let Some(pos) = rest.find('@') {
        out.push_str(&rest[..pos]);
        let after = &rest[pos + 1..];
        let best = vars.keys().filter(|n| after.starts_with(n.as_str())).max_by_key(|n| n.len());
        match best {
            Some(n) => {
                out.push_str(&vars[n]);
                rest = &after[n.len()..];
            }
            None => {
                out.push('@');
                rest = after;
            }
        }
    }
    out.push_str(rest);
    out
}

fn lower_if(s: &str, f: bool) -> String {
    if f {
        s.to_lowercase()
    } else {
        s.to_string()
    }
}

fn fill(tpl: &str, markers: &[MarkerUse], with_values: bool) -> String {
    // templates carry {0} {1} {2} slots referring to markers by position
    let mut s = tpl.to_string();
    for (i, m) in markers.iter().enumerate() {
        s = s.replace(&format!("{{{i}}}"), &if with_values { m.value.clone() } else { format!("@{}", m.name) });
    }
    s
}

pub fn check(case: &Case) -> Outcome {
    let mut out = Outcome::new();
    let cfg = &case.config;
    // ---- the rule ----
    let mut rule = RuleSpec::simple("m", "");
    let path_full = fill(&case.path_tpl, &case.markers, false);
    let (p, q) = match path_full.split_once('?') {
        Some((p, q)) => (p.to_string(), Some(q.to_string())),
        None => (path_full.clone(), None),
    };
    rule.source.path = p;
    rule.source.query = q;
    rule.source.host = case.host_tpl.as_ref().map(|h| fill(h, &case.markers, false));
    if let Some((rule_name, _, v)) = &case.header_tpl {
        rule.source.headers = Some(vec![HeaderCondSpec { kind: "match_regex".into(), name: rule_name.clone(), value: Some(fill(v, &case.markers, false)) }]);
    }
    rule.markers = case.markers.iter().map(|m| MarkerSpec { name: m.name.clone(), regex: type_regex(&m.ty).to_string(), transformers: m.transformers.clone() }).collect();
    rule.variables = case
        .variables
        .iter()
        .map(|v| {
            let ty: Value = if let Some(m) = v.kind.strip_prefix("marker:") {
                json!({"marker": m})
            } else if let Some(rest) = v.kind.strip_prefix("request_header:") {
                let (n, d) = rest.split_once(':').unwrap_or((rest, "-"));
                json!({"request_header": {"name": n, "default": if d == "-" { Value::Null } else { Value::from(d) }}})
            } else {
                Value::from(v.kind.clone())
            };
            json!({"name": v.name, "type": ty, "transformers": v.transformers})
        })
        .collect();
    rule.target = Some(case.target.clone());
    rule.status_code = Some(302);
    rule.header_filters = Some(vec![HeaderFilterSpec { action: "add".into(), header: "X-Sub".into(), value: case.header_value.clone(), id: None, target_hash: None }]);
    rule.body_filters = Some(vec![
        json!({"action": "append_text", "content": case.body_text, "id": null, "target_hash": null}),
        json!({"action": "append_child", "value": case.body_html, "inner_value": case.body_html, "element_tree": ["html", "body"], "css_selector": null, "id": null, "target_hash": null}),
    ]);
    let mut router = build_router(cfg, &[rule]);
    match case.cache % 4 {
        1 => router.cache(None),
        2 => router.cache(Some(1)),
        3 => router.cache(Some(1000)),
        _ => {}
    }
    if case.cache % 4 != 0 {
        out.class("regex-cache-warmed");
    }

    // ---- the request ----
    let uri = fill(&case.path_tpl, &case.markers, true);
    let host = case.host_tpl.as_ref().map(|h| fill(h, &case.markers, true)).or(case.request_extra.0.clone());
    let mut headers: Vec<(String, String)> = vec![("X-Other".to_string(), "o1".to_string()), ("x-other".to_string(), "O2".to_string())];
    if let Some((_, req_name, v)) = &case.header_tpl {
        headers.insert(1, (req_name.clone(), fill(v, &case.markers, true)));
        match case.other_line {
            1 => headers.insert(1, (req_name.clone(), "_".to_string())),
            2 => headers.insert(2, (req_name.clone(), "_".to_string())),
            3 => headers.push((req_name.clone(), String::new())),
            _ => {}
        }
        if case.other_line != 0 {
            out.class("conditioned-header-on-two-lines");
        }
    }
    let q = RequestSpec {
        uri: uri.clone(),
        host,
        scheme: case.request_extra.1.clone(),
        method: case.request_extra.2.clone(),
        ip: case.request_extra.3.clone(),
        headers,
        created_at: Some("2024-03-10T12:00:00Z".to_string()),
        sampling_override: None,
    };
    let req = q.build(&router.config);
    let matched = router.match_request(&req);
    let all_accepted = case.markers.iter().all(|m| m.accepted);
    if matched.is_empty() == all_accepted {
        out.fail(format!(
            "request {:?} host {:?} headers {:?}: rule {} although the instantiated values are {:?}",
            uri,
            q.host,
            q.headers,
            if matched.is_empty() { "does not match" } else { "matches" },
            case.markers.iter().map(|m| (m.name.as_str(), m.ty.as_str(), m.value.as_str(), m.accepted)).collect::<Vec<_>>()
        ));
        return out;
    }
    for m in &case.markers {
        out.class(match m.place.as_str() {
            "path" => "marker-in-path",
            "host" => "marker-in-host",
            _ => "marker-in-header",
        });
    }
    if !all_accepted {
        out.class("rejected-value(no match)");
        out.nontrivial = case.markers.len() >= 2;
        return out;
    }

    // ---- expected substitution values ----
    let mut captured: BTreeMap<String, String> = BTreeMap::new();
    for m in &case.markers {
        let normalised = match m.place.as_str() {
            "host" => lower_if(&m.value, cfg.ignore_host_case),
            "header" => lower_if(&m.value, cfg.ignore_header_case),
            _ => m.value.clone(),
        };
        captured.insert(m.name.clone(), transform(&normalised, &m.transformers));
    }
    let vars: BTreeMap<String, String> = if case.variables.is_empty() {
        captured.clone()
    } else {
        let mut vs = BTreeMap::new();
        for v in &case.variables {
            let raw = if let Some(mn) = v.kind.strip_prefix("marker:") {
                captured.get(mn).cloned().unwrap_or_default()
            } else if let Some(rest) = v.kind.strip_prefix("request_header:") {
                let (n, d) = rest.split_once(':').unwrap_or((rest, "-"));
                let vals: Vec<String> = q.headers.iter().filter(|(hn, _)| hn.eq_ignore_ascii_case(n)).map(|(_, hv)| lower_if(hv, cfg.ignore_header_case)).collect();
                if vals.is_empty() {
                    if d == "-" { String::new() } else { d.to_string() }
                } else {
                    vals.join(",")
                }
            } else {
                match v.kind.as_str() {
                    "request_host" => q.host.as_ref().map(|h| lower_if(h, cfg.ignore_host_case)).unwrap_or_default(),
                    "request_scheme" => q.scheme.clone().unwrap_or_default(),
                    "request_method" => q.method.clone().unwrap_or_default(),
                    "request_path" => uri.clone(),
                    "request_remote_address" => q.ip.clone().unwrap_or_default(),
                    "request_time" => parse_instant(q.created_at.as_deref().unwrap()).map(|d| d.to_rfc2822()).unwrap_or_default(),
                    _ => String::new(),
                }
            };
            vs.insert(v.name.clone(), transform(&raw, &v.transformers));
        }
        vs
    };

    // ---- observations ----
    let mut action = Action::from_routes_rule(matched.clone(), &req, None);
    let headers_out = action.filter_headers(Vec::new(), 0, false, None);
    let loc = headers_out.iter().find(|h| h.name == "Location").map(|h| h.value.clone());
    let exp_loc = substitute(&case.target, &vars);
    if loc.as_deref() != Some(exp_loc.as_str()) {
        out.fail(format!("Location is {:?}, reference substitution of {:?} with {:?} gives {:?}", loc, case.target, vars, exp_loc));
        return out;
    }
    let tgt = Action::get_target(&matched[0], &req);
    if tgt.as_deref() != Some(exp_loc.as_str()) {
        out.fail(format!("Action::get_target is {:?}, reference gives {:?}", tgt, exp_loc));
        return out;
    }
    let xsub = headers_out.iter().find(|h| h.name == "X-Sub").map(|h| h.value.clone());
    let exp_h = substitute(&case.header_value, &vars);
    if xsub.as_deref() != Some(exp_h.as_str()) {
        out.fail(format!("header filter value is {:?}, reference substitution of {:?} with {:?} gives {:?}", xsub, case.header_value, vars, exp_h));
        return out;
    }
    let av = serde_json::to_value(&action).unwrap();
    let got_text = av["body_filters"][0]["filter"]["content"].as_str().unwrap_or("<missing>").to_string();
    let got_html = av["body_filters"][1]["filter"]["value"].as_str().unwrap_or("<missing>").to_string();
    let got_inner = av["body_filters"][1]["filter"]["inner_value"].as_str().unwrap_or("<missing>").to_string();
    let (exp_text, exp_html) = (substitute(&case.body_text, &vars), substitute(&case.body_html, &vars));
    if got_text != exp_text || got_html != exp_html || got_inner != exp_html {
        out.fail(format!("body filter values are ({:?}, {:?}, {:?}), reference gives ({:?}, {:?})", got_text, got_html, got_inner, exp_text, exp_html));
        return out;
    }
    // ... and the text filter really emits it
    if let Some(mut f) = action.create_filter_body(0, &[redirectionio::http::Header { name: "Content-Type".into(), value: "text/plain".into() }]) {
        let mut o = f.filter(b"BODY".to_vec(), None);
        o.extend(f.end(None));
        let exp = format!("BODY{exp_text}");
        if o != exp.as_bytes() {
            out.fail(format!("text body filter output {:?}, expected {:?}", String::from_utf8_lossy(&o), exp));
            return out;
        }
    }

    let names: Vec<&str> = case.markers.iter().map(|m| m.name.as_str()).collect();
    let prefix_pair = names.iter().any(|a| names.iter().any(|b| a != b && b.starts_with(a)));
    let chain2 = case.markers.iter().any(|m| m.transformers.len() >= 2);
    let places: std::collections::BTreeSet<&str> = case.markers.iter().map(|m| m.place.as_str()).collect();
    if prefix_pair {
        out.class("prefix-related-names");
    }
    if chain2 {
        out.class("transformer-chain>=2");
    }
    if places.len() >= 2 {
        out.class("markers-in-two-places");
    }
    if !case.variables.is_empty() {
        out.class("declared-variables");
    }
    out.nontrivial = case.markers.len() >= 2 && (prefix_pair || chain2 || places.len() >= 2);
    out
}

// ---------------------------------------------------------------------------------------------
// generator
fn transformer_strategy() -> BoxedStrategy<TransformerSpec> {
    let opt = |pairs: Vec<(&str, String)>| Some(pairs.into_iter().map(|(k, v)| (k.to_string(), v)).collect::<BTreeMap<String, String>>());
    prop_oneof![
        2 => pick(vec!["camelize", "dasherize", "underscorize", "uppercase", "lowercase"]).prop_map(|k| TransformerSpec { kind: Some(k.to_string()), options: None }),
        2 => (pick(vec!["a", "-", "1", "e", "%20", "og"]), pick(vec!["", "X", "--", "@", "é"])).prop_map(move |(s, w)| TransformerSpec { kind: Some("replace".into()), options: opt(vec![("something", s.to_string()), ("with", w.to_string())]) }),
        3 => (0usize..6, prop_oneof![3 => (0usize..9).prop_map(|t| t.to_string()), 1 => Just("x".to_string()), 1 => Just("-1".to_string())]).prop_map(move |(f, t)| TransformerSpec { kind: Some("slice".into()), options: opt(vec![("from", f.to_string()), ("to", t)]) }),
        1 => Just(TransformerSpec { kind: Some("slice".into()), options: opt(vec![("from", "1".to_string())]) }),
        1 => Just(TransformerSpec { kind: Some("rot13".into()), options: None }),
        1 => Just(TransformerSpec { kind: None, options: None }),
    ]
    .boxed()
}

/// (template with {i} slots, allowed types for each slot)
const DASH_OK: &[&str] = &["integer", "lower", "enum", "upper"];
const DOT_OK: &[&str] = &["integer", "lower", "lowerdash", "enum", "enumx"];
const SLASH_OK: &[&str] = &["integer", "lower", "lowerdash", "enum", "uuid", "date", "percent", "upper"];
const LAST_OK: &[&str] = &["integer", "lower", "lowerdash", "enum", "uuid", "date", "percent", "upper", "anything"];
const HEADER_OK: &[&str] = &["integer", "lower", "enum", "uuid", "enumx"];

struct Layout {
    path: &'static str,
    host: Option<&'static str>,
    header: Option<&'static str>,
    /// per marker slot: (place, allowed types)
    slots: &'static [(&'static str, &'static [&'static str])],
}

const LAYOUTS: &[Layout] = &[
    Layout { path: "/p/{0}", host: None, header: None, slots: &[("path", LAST_OK)] },
    Layout { path: "/{0}/x/{1}", host: None, header: None, slots: &[("path", SLASH_OK), ("path", LAST_OK)] },
    Layout { path: "/p/{0}-{1}", host: None, header: None, slots: &[("path", DASH_OK), ("path", DASH_OK)] },
    Layout { path: "/p/{0}/q/{1}/{2}", host: None, header: None, slots: &[("path", SLASH_OK), ("path", SLASH_OK), ("path", LAST_OK)] },
    Layout { path: "/p/q?k={0}", host: None, header: None, slots: &[("path", DASH_OK)] },
    Layout { path: "/p/{0}?k={1}&z=1", host: None, header: None, slots: &[("path", SLASH_OK), ("path", DASH_OK)] },
    Layout { path: "/h/{1}", host: Some("{0}.example.com"), header: None, slots: &[("host", DOT_OK), ("path", LAST_OK)] },
    Layout { path: "/h", host: Some("www.{0}.{1}"), header: None, slots: &[("host", DOT_OK), ("host", DOT_OK)] },
    Layout { path: "/x/{1}", host: None, header: Some("v-{0}"), slots: &[("header", HEADER_OK), ("path", LAST_OK)] },
    Layout { path: "/x", host: None, header: Some("{0}/{1}"), slots: &[("header", HEADER_OK), ("header", HEADER_OK)] },
    Layout { path: "/y/{2}", host: Some("{0}.example.org"), header: Some("Val-{1}"), slots: &[("host", DOT_OK), ("header", HEADER_OK), ("path", LAST_OK)] },
    // one marker used twice in a template (both occurrences instantiated with the same string)
    Layout { path: "/r/{0}/again/{0}", host: None, header: None, slots: &[("path", SLASH_OK)] },
    Layout { path: "/r/{0}/{1}/{0}", host: None, header: None, slots: &[("path", SLASH_OK), ("path", SLASH_OK)] },
    Layout { path: "/z", host: None, header: Some("{0}/{0}"), slots: &[("header", HEADER_OK)] },
];

fn piece_strategy(names: Vec<String>) -> BoxedStrategy<String> {
    let refs: Vec<String> = names.iter().map(|n| format!("@{n}")).chain(["@zz".to_string(), "@".to_string()]).collect();
    prop::collection::vec(prop_oneof![3 => pick(refs), 2 => pick(vec!["/t/".to_string(), "-".to_string(), "x".to_string(), "b".to_string(), "2".to_string(), "c/".to_string(), "?q=".to_string(), " ".to_string()])], 1..7)
        .prop_map(|v| v.concat())
        .boxed()
}

pub fn strategy() -> BoxedStrategy<Case> {
    (0..LAYOUTS.len(), crate::gen::config_strategy(), prop::sample::subsequence(NAMES.to_vec(), 3).prop_shuffle(), any::<[u16; 3]>(), prop::bool::weighted(0.8), 0u8..3)
        .prop_flat_map(|(li, config, names, ty_picks, all_ok, victim)| {
            let layout = &LAYOUTS[li];
            let n = layout.slots.len();
            let mut marker_strats: Vec<BoxedStrategy<MarkerUse>> = Vec::new();
            for (i, (place, allowed)) in layout.slots.iter().enumerate() {
                let ty = allowed[(ty_picks[i] as usize) % allowed.len()];
                let ok = all_ok || (victim as usize % n) != i;
                let name = names[i].to_string();
                let place = place.to_string();
                // header conditions are searched, not anchored (fixture `^(ES|FR|IT)$`): a rejected header value must not
                // contain an accepted fragment next to the literal text
                let val = if ok {
                    accepted(ty)
                } else if place.as_str() == "header" {
                    pick(vec!["_".to_string(), String::new(), "__".to_string()])
                } else {
                    rejected(ty)
                };
                let ci = match place.as_str() {
                    "path" => config.ignore_path_and_query_case,
                    "host" => config.ignore_host_case,
                    _ => config.ignore_header_case,
                };
                marker_strats.push(
                    (val, prop::collection::vec(transformer_strategy(), 0..=2), any::<bool>())
                        .prop_map(move |(value, transformers, swap)| {
                            // under the case flag an accepted value may come in the other case
                            let value = if ok && ci && swap { value.chars().map(|c| if c.is_ascii_lowercase() { c.to_ascii_uppercase() } else { c.to_ascii_lowercase() }).collect() } else { value };
                            MarkerUse { name: name.clone(), ty: ty.to_string(), value, accepted: ok, transformers, place: place.clone() }
                        })
                        .boxed(),
                );
            }
            let used: Vec<String> = names.iter().take(n).map(|s| s.to_string()).collect();
            // declared variables: none (legacy mode) or one per marker under a prefix-related name + request variables
            let var_names = vec!["a", "ab", "abc", "v", "id", "id2"];
            let used2 = used.clone();
            let variables = prop_oneof![
                2 => Just(Vec::<VarSpec>::new()),
                1 => (prop::sample::subsequence(var_names, 3).prop_shuffle(), prop::collection::vec(transformer_strategy(), 0..=1), prop::sample::subsequence(vec!["request_host", "request_scheme", "request_method", "request_path", "request_remote_address", "request_time", "request_header:X-Other:-", "request_header:X-Missing:dflt", "request_header:x-missing:-"], 2))
                    .prop_map(move |(vn, tr, reqv)| {
                        let mut vs: Vec<VarSpec> = used2.iter().zip(vn.iter()).map(|(m, v)| VarSpec { name: v.to_string(), kind: format!("marker:{m}"), transformers: tr.clone() }).collect();
                        for (k, rv) in reqv.iter().enumerate() {
                            vs.push(VarSpec { name: format!("r{k}"), kind: rv.to_string(), transformers: Vec::new() });
                        }
                        vs
                    }),
            ];
            let header_names = pick(vec![("X-Test".to_string(), "X-Test".to_string()), ("X-Test".to_string(), "x-test".to_string()), ("x-test".to_string(), "X-TEST".to_string())]);
            let extra = (
                pick(vec![None, Some("Plain.Example.net".to_string())]),
                pick(vec![None, Some("https".to_string())]),
                pick(vec![None, Some("POST".to_string())]),
                pick(vec![None, Some("10.1.2.3".to_string()), Some("2001:db8::5".to_string())]),
            );
            let mut ref_names = used.clone();
            ref_names.extend(["a".to_string(), "v".to_string(), "r0".to_string(), "r1".to_string(), "id".to_string()]);
            ref_names.sort();
            ref_names.dedup();
            (Just(config), marker_strats, (Just(li), 0u8..8, pickw(vec![(6u32, 0u8), (1, 1), (2, 2), (1, 3)])), variables, header_names, extra, piece_strategy(ref_names.clone()), piece_strategy(ref_names.clone()), piece_strategy(ref_names.clone()), piece_strategy(ref_names))
        })
        .prop_map(|(config, markers, (li, cache, other_line), variables, (hn_rule, hn_req), request_extra, target, header_value, body_text, body_html)| {
            let layout = &LAYOUTS[li];
            Case {
                config,
                markers,
                path_tpl: layout.path.to_string(),
                host_tpl: layout.host.map(|s| s.to_string()),
                header_tpl: layout.header.map(|v| (hn_rule, hn_req, v.to_string())),
                variables,
                target: format!("/t/{target}"),
                header_value,
                body_text,
                body_html,
                request_extra,
                cache,
                other_line,
            }
        })
        .boxed()
}

pub fn run(ctx: &Ctx) -> Report {
    let mut rep = Report::new(
        "C10",
        "case = rule with 1..3 markers (names from the prefix-related pool a/ab/abc/id/id2/lang; types integer, lower, lowerdash, enum, uuid, date, percent-aware, upper, anything) in path / query / host / match_regex header templates that are unambiguous by construction, transformer chains of length 0..2 \
         (camelize, dasherize, underscorize, upper, lower, replace, slice incl. from>to and non-numeric bounds, unknown), optional declared variables of every kind, and target / header-filter / text and HTML body-filter templates mentioning @names adjacent to text and to each other; each marker is instantiated with a generated accepted string, or exactly one with a rejected string; \
         oracle: all accepted <=> the rule matches, and Location, Action::get_target, the custom header, the serialised body-filter values and the text filter output == reference substitution (single left-to-right pass, longest known name at each @, value = transformer chain applied to the string as the normalised request carries it); \
         non-trivial = >=2 markers with a prefix-related name pair, a chain of >=2 transformers, or markers in two of {path, host, header}; distinct by case hash",
    );
    rep.assume("acceptance is judged on the string as the normalised request carries it (values are ASCII in paths; hosts and header values are lower-cased under the respective flag); instantiated values are non-empty (an empty value in a query position meets the normal form `k` of `k=`: observation O13) and contain no '@'; a marker name occurs in one place only; match_regex header conditions are searched (not anchored) by design, so rejected header values contain no accepted fragment; the request carries the conditioned header once, or (round 4) a second time with a value no template fits, before or after the fitting line; heck implements the three case transformers (trusted); slice counts characters");
    rep.add(run_part(ctx, "markers", ctx.cases(200_000, 8_000_000), strategy, check, &[]));
    rep
}

pub fn replay(_part: &str, case: &Value) -> Result<Outcome, String> {
    replay_case::<Case, _>(case, check)
}
