//! C17 — the explain trace agrees with what matching actually does.
use crate::engine::*;
use crate::gen::*;
use crate::mflat::*;
use crate::spec::*;
use redirectionio::action::{Action, TraceAction};
use redirectionio::api::Rule;
use redirectionio::router::Trace;
use serde_json::Value;
use std::collections::BTreeSet;

pub fn check(case: &RouterCase) -> Outcome {
    let mut out = Outcome::new();
    out.evals = 0;
    let router = build_router(&case.config, &case.rules);
    for (k, q) in case.requests.iter().enumerate() {
        out.evals += 1;
        let req = q.build(&router.config);
        let raw = q.raw();
        let matched = router.match_request(&req);
        let matched_ids: BTreeSet<String> = matched.iter().map(|r| r.id().to_string()).collect();

        // clause 1: routes of the trace == routes of the match
        let traces = router.trace_request(if k % 2 == 0 { &raw } else { &req });
        let traced = Trace::<Rule>::get_routes_from_traces(&traces);
        let traced_ids: BTreeSet<String> = traced.iter().map(|r| r.id().to_string()).collect();
        if traced_ids != matched_ids {
            out.fail(format!("request {:?}: trace lists rules {:?}, matching returns {:?}", q, traced_ids, matched_ids));
            return out;
        }

        // clause 2: final route of get_trace has the priority of get_route
        let rt = router.get_trace(if k % 2 == 0 { &raw } else { &req });
        let rtv = serde_json::to_value(&rt).unwrap_or(Value::Null);
        let final_prio = rtv["final_route"]["priority"].as_i64();
        let direct = router.get_route(&req).map(|r| r.priority());
        if final_prio != direct {
            out.fail(format!("request {:?}: get_trace final route priority {:?}, get_route priority {:?}", q, final_prio, direct));
            return out;
        }
        if let Some(p) = direct {
            let max = matched.iter().map(|r| r.priority()).max();
            // "maximal priority" in the statement is the order rules are applied in: highest rank = lowest priority value applied first;
            // get_route picks the greatest priority() value. Both sides must agree; we also record which extreme it is.
            if Some(p) != max {
                out.fail(format!("get_route priority {p} is not the maximum priority() of the matched routes {:?}", max));
                return out;
            }
        }

        // clause 3: last TraceAction step == live action, tie-free ranks only
        let mut ranks: Vec<u16> = case.rules.iter().filter(|r| matched_ids.contains(&r.id)).map(|r| r.rank).collect();
        ranks.sort();
        let tie_free = ranks.windows(2).all(|w| w[0] != w[1]);
        if tie_free {
            let steps = TraceAction::from_trace_rules(&traces, &req);
            let live = Action::from_routes_rule(matched.clone(), &req, None);
            let live_v = serde_json::to_value(&live).unwrap();
            let last_v = match steps.last() {
                Some(s) => serde_json::to_value(s).unwrap()["action"].clone(),
                None => serde_json::to_value(Action::default()).unwrap(),
            };
            if last_v != live_v {
                out.fail(format!("request {:?}: last TraceAction step {} differs from the live action {}", q, last_v, live_v));
                return out;
            }
            if matched.len() >= 2 {
                out.class("trace-action-compared>=2-rules");
            }
        } else {
            out.class("rank-tie(skip clause 3)");
        }

        let (_, verdicts) = expected_matches(&case.config, &case.rules, q);
        let below = verdicts.iter().any(|v| v.scheme && v.host.unwrap_or(true) && !v.below_host());
        if !matched.is_empty() && below {
            out.nontrivial = true;
        }
        if !matched.is_empty() {
            out.class("matched");
        }
    }
    out
}

pub fn run(ctx: &Ctx) -> Report {
    let mut rep = Report::new(
        "C17",
        "case = C01's routers and requests (rules with actions, ranks, reset/stop, deterministic sampling points); oracle = set(ids(get_routes_from_traces(trace_request(q)))) == set(ids(match_request(rebuild(q)))), \
         priority(get_trace(q).final_route) == priority(get_route(rebuild(q))) (absent together), and for tie-free ranks the serialised action of the last TraceAction step == serialised Action::from_routes_rule(match); \
         non-trivial = the request matched >=1 rule and >=1 rule passed scheme+host but was rejected by a layer below (so the trace has matched and unmatched branches below the host layer); distinct by case hash",
    );
    rep.assume("sampling restricted to the deterministic points none/0/>=100; trace_request is given the raw request on even probes and the normalised one on odd probes");
    rep.add(run_part(ctx, "routers", ctx.cases(50_000, 1_500_000), || router_case_strategy(RuleOpts::FULL, 10, 5, 8), check, &[]));
    rep
}

pub fn replay(_part: &str, case: &Value) -> Result<Outcome, String> {
    replay_case::<RouterCase, _>(case, check)
}
