#!/usr/bin/env python3
"""usage: keep_seeded.py <candidate-dir> <name> <property> <detected_by_csv|-> <missed_by_csv|-> <needs (free text)>
Archives a confirmed seeded change under /verif/seeded/<name>/ (patch.diff, demo.rs, NOTES.md, meta.json)."""
import sys, os, shutil, json, subprocess
src, name, prop, det, miss, needs = sys.argv[1:7]
dst = f"/verif/seeded/{name}"
os.makedirs(dst, exist_ok=True)
for f in ("patch.diff", "demo.rs", "NOTES.md"):
    if os.path.exists(os.path.join(src, f)):
        shutil.copy(os.path.join(src, f), os.path.join(dst, f))
head = subprocess.check_output(["git", "-C", "/repo", "rev-parse", "--short", "HEAD"], text=True).strip()
files = sorted({l[6:].strip() for l in open(os.path.join(dst, "patch.diff")) if l.startswith("+++ b/")})
meta = {
    "breaks_property": prop,
    "written_by": "independent sub-agent given only the property text and a scratch worktree",
    "base_commit": head,
    "files_touched": files,
    "needs_to_manifest": needs,
    "confirmed_in_scratch_worktree": {
        "command": "tools/verify_seeded.sh <dir>  (demo on the unchanged tree, full suite + demo with the change, in /tmp/verify-wt)",
        "demo_without_change": "passes",
        "existing_suite_with_change": "549 of 549 pass",
        "demo_with_change": "fails",
    },
    "checks_run_against_it": "tools/try_seeded.sh <dir> <ids>  (git -C /repo apply, ./check <id> --tier quick, git -C /repo checkout -- .)",
    "detected_by": [] if det == "-" else det.split(","),
    "not_detected_by": [] if miss == "-" else miss.split(","),
}
json.dump(meta, open(os.path.join(dst, "meta.json"), "w"), indent=1)
print("kept", dst)
