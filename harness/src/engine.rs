//! Shared engine: seeded proptest drivers, statistics, evidence, replay files, known findings.
//!
//! Every run is a pure function of the tree under test and `VERIF_SEED`.

use proptest::strategy::{BoxedStrategy, Strategy};
use proptest::test_runner::{Config, RngAlgorithm, TestCaseError, TestError, TestRng, TestRunner};
use serde::de::DeserializeOwned;
use serde::Serialize;
use serde_json::{json, Value};
use std::cell::{Cell, RefCell};
use std::collections::{BTreeMap, HashSet};
use std::fmt::Debug;
use std::hash::{Hash, Hasher};
use std::sync::atomic::{AtomicBool, AtomicU64, Ordering};
use std::sync::Mutex;
use std::time::Instant;

#[derive(Clone, Copy, PartialEq, Eq, Debug)]
pub enum Tier {
    Quick,
    Thorough,
}

impl Tier {
    pub fn name(self) -> &'static str {
        match self {
            Tier::Quick => "quick",
            Tier::Thorough => "thorough",
        }
    }
    /// pick a size by tier
    pub fn pick(self, quick: u64, thorough: u64) -> u64 {
        match self {
            Tier::Quick => quick,
            Tier::Thorough => thorough,
        }
    }
}

#[derive(Clone, Debug)]
pub struct Ctx {
    pub prop: &'static str,
    pub tier: Tier,
    pub seed: u64,
    pub threads: usize,
    /// multiplier applied to all case counts (VERIF_SCALE, default 1.0) — used for experiments only
    pub scale: f64,
}

impl Ctx {
    pub fn cases(&self, quick: u64, thorough: u64) -> u64 {
        let n = self.tier.pick(quick, thorough) as f64 * self.scale;
        (n as u64).max(1)
    }
}

/// Result of evaluating one generated case against its oracle.
#[derive(Default, Debug)]
pub struct Outcome {
    /// number of oracle evaluations this case stands for (requests, schedules, lookups ...)
    pub evals: u64,
    pub nontrivial: bool,
    /// set by enumerations whose cases are pairwise distinct by construction: count instead of hashing
    pub distinct_by_construction: bool,
    pub classes: Vec<&'static str>,
    pub failure: Option<String>,
}

impl Outcome {
    pub fn new() -> Self {
        Outcome { evals: 1, ..Default::default() }
    }
    pub fn class(&mut self, c: &'static str) {
        if !self.classes.contains(&c) {
            self.classes.push(c);
        }
    }
    pub fn fail(&mut self, msg: impl Into<String>) {
        if self.failure.is_none() {
            self.failure = Some(msg.into());
        }
    }
    pub fn failed(&self) -> bool {
        self.failure.is_some()
    }
}

/// A known-finding signature: name + predicate on (case, failure message).
pub struct KnownSig<C> {
    pub name: &'static str,
    pub pred: fn(&C, &str) -> bool,
}

#[derive(Debug, Clone)]
pub struct Violation {
    pub part: String,
    pub message: String,
    pub case: Value,
}

#[derive(Debug, Default, Clone)]
pub struct PartStats {
    pub name: String,
    pub cases: u64,
    pub evaluations: u64,
    pub nontrivial: HashSet<u64>,
    /// non-trivial cases counted without hashing (distinct by construction)
    pub nontrivial_counted: u64,
    pub classes: BTreeMap<String, u64>,
    pub samples: Vec<Value>,
    pub known: BTreeMap<String, u64>,
    pub exhaustive: bool,
    pub scope: String,
    pub extra: BTreeMap<String, Value>,
}

impl PartStats {
    pub fn new(name: &str) -> Self {
        PartStats { name: name.to_string(), ..Default::default() }
    }
    pub fn merge(&mut self, other: PartStats) {
        self.cases += other.cases;
        self.evaluations += other.evaluations;
        self.nontrivial.extend(other.nontrivial);
        self.nontrivial_counted += other.nontrivial_counted;
        for (k, v) in other.classes {
            *self.classes.entry(k).or_insert(0) += v;
        }
        for s in other.samples {
            if self.samples.len() < 4 {
                self.samples.push(s);
            }
        }
        for (k, v) in other.known {
            *self.known.entry(k).or_insert(0) += v;
        }
    }
    pub fn record<C: Serialize>(&mut self, case: &C, out: &Outcome) {
        self.cases += 1;
        self.evaluations += out.evals;
        for c in &out.classes {
            *self.classes.entry((*c).to_string()).or_insert(0) += 1;
        }
        if out.nontrivial && out.distinct_by_construction {
            self.nontrivial_counted += 1;
            if self.samples.len() < 2 && self.nontrivial_counted % 1009 == 1 {
                if let Ok(v) = serde_json::to_value(case) {
                    self.samples.push(v);
                }
            }
        } else if out.nontrivial {
            let s = serde_json::to_string(case).unwrap_or_default();
            let h = hash64(&s);
            if self.nontrivial.insert(h) && self.samples.len() < 2 {
                if s.len() < 12_000 {
                    if let Ok(v) = serde_json::from_str::<Value>(&s) {
                        self.samples.push(v);
                    }
                } else {
                    // large cases (histories with 30 rule bodies, long documents): keep the head of the serialised case
                    let head: String = s.chars().take(6000).collect();
                    self.samples.push(json!({"case_json_head": head, "case_json_bytes": s.len()}));
                }
            }
        }
    }
}

pub fn hash64<T: Hash + ?Sized>(t: &T) -> u64 {
    // DefaultHasher::new() uses fixed keys: deterministic across runs.
    #[allow(deprecated)]
    let mut h = std::collections::hash_map::DefaultHasher::new();
    t.hash(&mut h);
    h.finish()
}

fn splitmix(x: &mut u64) -> u64 {
    *x = x.wrapping_add(0x9E3779B97F4A7C15);
    let mut z = *x;
    z = (z ^ (z >> 30)).wrapping_mul(0xBF58476D1CE4E5B9);
    z = (z ^ (z >> 27)).wrapping_mul(0x94D049BB133111EB);
    z ^ (z >> 31)
}

pub fn seed_bytes(seed: u64, prop: &str, part: &str, worker: u64) -> [u8; 32] {
    let mut x = seed ^ hash64(&(prop, part)) ^ worker.wrapping_mul(0xA24BAED4963EE407);
    let mut out = [0u8; 32];
    for i in 0..4 {
        out[i * 8..i * 8 + 8].copy_from_slice(&splitmix(&mut x).to_le_bytes());
    }
    out
}

/// A tiny deterministic RNG for the hand-written sampled enumerations (never used inside proptest strategies).
pub struct Sm(pub u64);
impl Sm {
    pub fn new(seed: u64, prop: &str, part: &str, worker: u64) -> Sm {
        Sm(seed ^ hash64(&(prop, part, "sm")) ^ worker.wrapping_mul(0xD6E8FEB86659FD93))
    }
    pub fn next(&mut self) -> u64 {
        splitmix(&mut self.0)
    }
    pub fn below(&mut self, n: u64) -> u64 {
        if n == 0 {
            0
        } else {
            self.next() % n
        }
    }
}

pub fn runner_config(cases: u32) -> Config {
    Config {
        cases,
        max_local_rejects: 65_536,
        max_global_rejects: 65_536,
        max_flat_map_regens: 1_000_000,
        failure_persistence: None,
        source_file: None,
        test_name: None,
        max_shrink_time: 40_000,
        max_shrink_iters: 1200,
        verbose: 0,
        rng_algorithm: RngAlgorithm::ChaCha,
        ..Config::default()
    }
}

thread_local! {
    static LAST_PANIC: RefCell<Option<String>> = const { RefCell::new(None) };
    static QUIET: Cell<bool> = const { Cell::new(true) };
}

pub fn install_panic_hook() {
    std::panic::set_hook(Box::new(|info| {
        let msg = if let Some(s) = info.payload().downcast_ref::<&str>() {
            (*s).to_string()
        } else if let Some(s) = info.payload().downcast_ref::<String>() {
            s.clone()
        } else {
            "<non-string panic>".to_string()
        };
        let loc = info.location().map(|l| format!("{}:{}", l.file(), l.line())).unwrap_or_default();
        let full = format!("panic at {loc}: {msg}");
        LAST_PANIC.with(|p| *p.borrow_mut() = Some(full.clone()));
        if std::env::var("VERIF_VERBOSE_PANICS").is_ok() {
            eprintln!("{full}");
        }
    }));
}

pub fn take_last_panic() -> Option<String> {
    LAST_PANIC.with(|p| p.borrow_mut().take())
}

/// Run `f`, turning a panic into Err(message with location).
pub fn catch<T>(f: impl FnOnce() -> T) -> Result<T, String> {
    match std::panic::catch_unwind(std::panic::AssertUnwindSafe(f)) {
        Ok(v) => Ok(v),
        Err(_) => Err(take_last_panic().unwrap_or_else(|| "panic (no message)".to_string())),
    }
}

pub struct PartResult {
    pub stats: PartStats,
    pub violation: Option<Violation>,
}

/// Drive `cases` generated cases (split over the worker threads) through `check`.
/// First failing case (not matching a listed known finding) is shrunk by proptest and returned.
// ---- stuck-worker guard --------------------------------------------------------------------------------------------------------
// A case that never returns (a loop in the library) would block a check for ever. Every worker notes the case it has in hand; a monitor
// thread saves a case that has been in work for more than 300 s (VERIF_STUCK_SECS) and ends the run with exit 2: a hang is infrastructure trouble
// for every check but C16 / C07, which own the termination statements and have their own, confirmed, watchdogs (C16: 20 s + two
// isolated replays; C07: child-process probes).
fn stuck_secs() -> u64 {
    std::env::var("VERIF_STUCK_SECS").ok().and_then(|s| s.parse().ok()).unwrap_or(300)
}
type StuckSlot = std::sync::Arc<Mutex<Option<(std::time::Instant, String, String, Box<dyn Fn() -> Value + Send>)>>>;
static STUCK_SLOTS: Mutex<Vec<StuckSlot>> = Mutex::new(Vec::new());
static STUCK_MONITOR: std::sync::Once = std::sync::Once::new();
thread_local! {
    static STUCK_MINE: StuckSlot = {
        let s: StuckSlot = Default::default();
        STUCK_SLOTS.lock().unwrap().push(s.clone());
        s
    };
}

pub struct InWork(StuckSlot);
impl Drop for InWork {
    fn drop(&mut self) {
        *self.0.lock().unwrap() = None;
    }
}

pub fn in_work<C: Serialize + Clone + Send + 'static>(prop: &str, part: &str, case: &C) -> InWork {
    STUCK_MONITOR.call_once(|| {
        std::thread::spawn(|| loop {
            std::thread::sleep(std::time::Duration::from_secs(5));
            let slots: Vec<StuckSlot> = STUCK_SLOTS.lock().unwrap().clone();
            for s in slots {
                let g = s.lock().unwrap();
                if let Some((since, prop, part, case)) = &*g {
                    if since.elapsed().as_secs() >= stuck_secs() {
                        let v = Violation { part: part.clone(), message: format!("in work for more than {} s", stuck_secs()), case: case() };
                        let path = write_replay(prop, &v);
                        eprintln!("infrastructure: a case of part {part} has been in work for more than {} s (saved as {path}); the run is abandoned - a hang is reported as exit 2, never as a violation", stuck_secs());
                        std::process::exit(2);
                    }
                }
            }
        });
    });
    let c = case.clone();
    STUCK_MINE.with(|s| {
        *s.lock().unwrap() = Some((std::time::Instant::now(), prop.to_string(), part.to_string(), Box::new(move || serde_json::to_value(&c).unwrap_or(Value::Null))));
        InWork(s.clone())
    })
}

pub fn run_part<C, F, G>(ctx: &Ctx, part: &str, cases: u64, strategy: G, check: F, known: &[KnownSig<C>]) -> PartResult
where
    C: Serialize + DeserializeOwned + Debug + Clone + Send + 'static,
    F: Fn(&C) -> Outcome + Sync,
    G: Fn() -> BoxedStrategy<C> + Sync,
{
    let threads = ctx.threads.max(1) as u64;
    let per = cases.div_ceil(threads);
    let abort = AtomicBool::new(false);
    let total = Mutex::new(PartStats::new(part));
    let violation: Mutex<Option<Violation>> = Mutex::new(None);
    let active_known: Vec<&KnownSig<C>> = known.iter().filter(|k| crate::known::is_listed(ctx.prop, k.name)).collect();

    std::thread::scope(|scope| {
        for w in 0..threads {
            let abort = &abort;
            let total = &total;
            let violation = &violation;
            let check = &check;
            let strategy = &strategy;
            let active_known = &active_known;
            let ctx = ctx.clone();
            let part = part.to_string();
            std::thread::Builder::new()
                .stack_size(256 << 20)
                .spawn_scoped(scope, move || {
                    let strat = strategy();
                    let rng = TestRng::from_seed(RngAlgorithm::ChaCha, &seed_bytes(ctx.seed, ctx.prop, &part, w));
                    let batch: u64 = 64;
                    let mut runner = TestRunner::new_with_rng(runner_config(batch as u32), rng);
                    let stats = RefCell::new(PartStats::new(&part));
                    let failed = Cell::new(false);
                    let mut done = 0u64;
                    while done < per && !abort.load(Ordering::Relaxed) {
                        let n = batch.min(per - done);
                        {
                            // the runner's success counter is not reset between run() calls: fresh runner per batch,
                            // its rng derived deterministically from the previous one
                            let rng = runner.new_rng();
                            runner = TestRunner::new_with_rng(runner_config(n as u32), rng);
                        }
                        let res = runner.run(&strat, |case: C| {
                            // another worker owns a failure (it is shrinking it): stop exploring, cheaply
                            if abort.load(Ordering::Relaxed) && !failed.get() {
                                return Ok(());
                            }
                            let guard = in_work(ctx.prop, &part, &case);
                            let out = match catch(|| check(&case)) {
                                Ok(o) => o,
                                Err(p) => {
                                    let mut o = Outcome::new();
                                    o.fail(format!("harness or library panicked: {p}"));
                                    o
                                }
                            };
                            drop(guard);
                            if let Some(msg) = &out.failure {
                                for k in active_known.iter() {
                                    if (k.pred)(&case, msg) {
                                        if !failed.get() {
                                            let mut st = stats.borrow_mut();
                                            *st.known.entry(k.name.to_string()).or_insert(0) += 1;
                                            st.cases += 1;
                                            st.evaluations += out.evals;
                                        }
                                        return Ok(());
                                    }
                                }
                                if !failed.get() {
                                    // only one worker shrinks; the others stand down
                                    if abort.swap(true, Ordering::SeqCst) {
                                        return Ok(());
                                    }
                                    failed.set(true);
                                }
                                return Err(TestCaseError::fail(msg.clone()));
                            }
                            if !failed.get() {
                                stats.borrow_mut().record(&case, &out);
                            }
                            Ok(())
                        });
                        done += n;
                        match res {
                            Ok(()) => {}
                            Err(TestError::Fail(reason, case)) => {
                                abort.store(true, Ordering::Relaxed);
                                let mut v = violation.lock().unwrap();
                                if v.is_none() {
                                    *v = Some(Violation {
                                        part: part.clone(),
                                        message: reason.message().to_string(),
                                        case: serde_json::to_value(&case).unwrap_or(Value::Null),
                                    });
                                }
                                break;
                            }
                            Err(TestError::Abort(reason)) => {
                                eprintln!("[{}:{}] generator aborted: {}", ctx.prop, part, reason.message());
                                abort.store(true, Ordering::Relaxed);
                                let mut v = violation.lock().unwrap();
                                if v.is_none() {
                                    *v = Some(Violation {
                                        part: part.clone(),
                                        message: format!("INFRA: proptest aborted: {}", reason.message()),
                                        case: Value::Null,
                                    });
                                }
                                break;
                            }
                        }
                    }
                    total.lock().unwrap().merge(stats.into_inner());
                })
                .expect("spawn worker");
        }
    });

    PartResult { stats: total.into_inner().unwrap(), violation: violation.into_inner().unwrap() }
}

/// Drive an explicit, finite list of work items (exhaustive enumeration or sampled enumeration).
/// `n` items indexed 0..n are distributed round-robin; `make(i)` builds the case.
pub fn run_enum<C, F, M>(ctx: &Ctx, part: &str, n: u64, exhaustive: bool, scope_txt: &str, make: M, check: F, known: &[KnownSig<C>]) -> PartResult
where
    C: Serialize + Debug + Clone + Send + 'static,
    F: Fn(&C) -> Outcome + Sync,
    M: Fn(u64) -> Option<C> + Sync,
{
    let threads = ctx.threads.max(1) as u64;
    let abort = AtomicBool::new(false);
    let first_fail = AtomicU64::new(u64::MAX);
    let total = Mutex::new(PartStats::new(part));
    let violation: Mutex<Option<(u64, Violation)>> = Mutex::new(None);
    let active_known: Vec<&KnownSig<C>> = known.iter().filter(|k| crate::known::is_listed(ctx.prop, k.name)).collect();
    let next = AtomicU64::new(0);
    let chunk: u64 = (n / (threads * 64)).clamp(1, 4096);

    std::thread::scope(|scope| {
        for _w in 0..threads {
            let abort = &abort;
            let total = &total;
            let violation = &violation;
            let check = &check;
            let make = &make;
            let next = &next;
            let first_fail = &first_fail;
            let active_known = &active_known;
            let part = part.to_string();
            std::thread::Builder::new()
                .stack_size(256 << 20)
                .spawn_scoped(scope, move || {
                    let mut stats = PartStats::new(&part);
                    'outer: loop {
                        let start = next.fetch_add(chunk, Ordering::Relaxed);
                        if start >= n || abort.load(Ordering::Relaxed) {
                            break;
                        }
                        for i in start..(start + chunk).min(n) {
                            if i > first_fail.load(Ordering::Relaxed) {
                                break 'outer;
                            }
                            let Some(case) = make(i) else { continue };
                            // C16 enumerates tens of millions of tiny strings and has a watchdog of its own
                            let guard = if ctx.prop == "C16" { None } else { Some(in_work(ctx.prop, &part, &case)) };
                            let out = match catch(|| check(&case)) {
                                Ok(o) => o,
                                Err(p) => {
                                    let mut o = Outcome::new();
                                    o.fail(format!("harness or library panicked: {p}"));
                                    o
                                }
                            };
                            drop(guard);
                            if let Some(msg) = &out.failure {
                                let mut is_known = false;
                                for k in active_known.iter() {
                                    if (k.pred)(&case, msg) {
                                        *stats.known.entry(k.name.to_string()).or_insert(0) += 1;
                                        stats.cases += 1;
                                        stats.evaluations += out.evals;
                                        is_known = true;
                                        break;
                                    }
                                }
                                if is_known {
                                    continue;
                                }
                                // keep the smallest failing index: enumeration orders are small-first
                                first_fail.fetch_min(i, Ordering::Relaxed);
                                let mut v = violation.lock().unwrap();
                                if v.as_ref().map(|(j, _)| i < *j).unwrap_or(true) {
                                    *v = Some((
                                        i,
                                        Violation {
                                            part: part.clone(),
                                            message: msg.clone(),
                                            case: serde_json::to_value(&case).unwrap_or(Value::Null),
                                        },
                                    ));
                                }
                                break 'outer;
                            }
                            stats.record(&case, &out);
                        }
                    }
                    total.lock().unwrap().merge(stats);
                })
                .expect("spawn worker");
        }
    });
    let mut stats = total.into_inner().unwrap();
    stats.exhaustive = exhaustive;
    stats.scope = scope_txt.to_string();
    PartResult { stats, violation: violation.into_inner().unwrap().map(|(_, v)| v) }
}

/// Everything a property run produced.
pub struct Report {
    pub prop: &'static str,
    pub rule: String,
    pub assumptions: Vec<String>,
    pub parts: Vec<PartStats>,
    pub violations: Vec<Violation>,
    pub known_lines: Vec<String>,
    pub infra_errors: Vec<String>,
    pub extra: BTreeMap<String, Value>,
    pub started: Instant,
}

impl Report {
    pub fn new(prop: &'static str, rule: &str) -> Report {
        Report {
            prop,
            rule: rule.to_string(),
            assumptions: Vec::new(),
            parts: Vec::new(),
            violations: Vec::new(),
            known_lines: Vec::new(),
            infra_errors: Vec::new(),
            extra: BTreeMap::new(),
            started: Instant::now(),
        }
    }
    pub fn assume(&mut self, s: &str) {
        self.assumptions.push(s.to_string());
    }
    pub fn add(&mut self, r: PartResult) {
        self.parts.push(r.stats);
        if let Some(v) = r.violation {
            if v.message.starts_with("INFRA:") {
                self.infra_errors.push(format!("{}: {}", v.part, v.message));
            } else {
                self.violations.push(v);
            }
        }
    }
    pub fn has_violation(&self) -> bool {
        !self.violations.is_empty()
    }

    pub fn evidence(&self, ctx: &Ctx) -> Value {
        let evaluations: u64 = self.parts.iter().map(|p| p.evaluations).sum();
        let cases: u64 = self.parts.iter().map(|p| p.cases).sum();
        let mut all = HashSet::new();
        let counted: u64 = self.parts.iter().map(|p| p.nontrivial_counted).sum();
        for p in &self.parts {
            for h in &p.nontrivial {
                all.insert(hash64(&(p.name.as_str(), *h)));
            }
        }
        let mut samples = Vec::new();
        for p in &self.parts {
            for s in p.samples.iter().take(2) {
                samples.push(json!({"part": p.name, "case": s}));
            }
        }
        let parts: Vec<Value> = self
            .parts
            .iter()
            .map(|p| {
                json!({
                    "part": p.name,
                    "cases": p.cases,
                    "evaluations": p.evaluations,
                    "distinct_nontrivial": p.nontrivial.len() as u64 + p.nontrivial_counted,
                    "classes": p.classes,
                    "exhaustive": p.exhaustive,
                    "scope": p.scope,
                    "excluded_known": p.known,
                    "extra": p.extra,
                })
            })
            .collect();
        let all_exhaustive = !self.parts.is_empty() && self.parts.iter().all(|p| p.exhaustive);
        json!({
            "property_id": self.prop,
            "tier": ctx.tier.name(),
            "seed": ctx.seed,
            "level": "exploration",
            "coverage": {
                "evaluations": evaluations,
                "cases": cases,
                "distinct_nontrivial": all.len() as u64 + counted,
                "rule": self.rule,
                "samples": samples,
                "exhaustive": all_exhaustive,
                "parts": parts,
                "known_findings_reported": self.known_lines,
                "extra": self.extra,
            },
            "assumptions": self.assumptions,
            "wall_s": self.started.elapsed().as_secs_f64(),
            "violations": self.violations.len(),
        })
    }
}

pub fn verif_dir() -> std::path::PathBuf {
    std::env::var("VERIF_DIR").map(Into::into).unwrap_or_else(|_| "/verif".into())
}

pub fn write_replay(prop: &str, v: &Violation) -> String {
    let dir = verif_dir().join("replays").join(prop);
    let _ = std::fs::create_dir_all(&dir);
    let body = json!({"property": prop, "part": v.part, "message": v.message, "case": v.case});
    let s = serde_json::to_string_pretty(&body).unwrap();
    let path = dir.join(format!("{:016x}.json", hash64(&s)));
    let _ = std::fs::write(&path, s);
    path.to_string_lossy().to_string()
}

/// Re-run one serialised case through a part's check (replays, regressions, known-finding witnesses).
pub fn replay_case<C, F>(case: &Value, check: F) -> Result<Outcome, String>
where
    C: DeserializeOwned,
    F: Fn(&C) -> Outcome,
{
    let c: C = serde_json::from_value(case.clone()).map_err(|e| format!("cannot decode case: {e}"))?;
    match catch(|| check(&c)) {
        Ok(o) => Ok(o),
        Err(p) => {
            let mut o = Outcome::new();
            o.fail(format!("harness or library panicked: {p}"));
            Ok(o)
        }
    }
}

/// Helper to build a strategy choosing an index into a pool (shrinks towards index 0).
pub fn pick<T: Clone + Debug + 'static>(pool: Vec<T>) -> BoxedStrategy<T> {
    let n = pool.len();
    (0..n).prop_map(move |i| pool[i].clone()).boxed()
}

/// Weighted choice among pool entries: (weight, value)
pub fn pickw<T: Clone + Debug + 'static>(pool: Vec<(u32, T)>) -> BoxedStrategy<T> {
    let mut expanded = Vec::new();
    for (w, v) in pool {
        for _ in 0..w {
            expanded.push(v.clone());
        }
    }
    pick(expanded)
}
