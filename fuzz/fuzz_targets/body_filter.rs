#![no_main]
//! C04 (+C03 on valid UTF-8). Input layout: [8 bytes: seed of the structured part (filters, headers) through the
//! proptest strategy] [1 byte: schedule kind; bits 5-6 both set: declare an encoding, bit 4: send the body mislabelled] [2 bytes: schedule parameter] [rest: the response body, verbatim].
use libfuzzer_sys::fuzz_target;
use proptest::strategy::BoxedStrategy;
use rio_verif::dom::Schedule;
use rio_verif::fuzzsupport::{from_seed, report, Bytes};
use rio_verif::props::{c03, c04, c16};

thread_local! {
    static S04: BoxedStrategy<c04::Case> = c04::strategy();
    static S03: BoxedStrategy<c03::Case> = c03::strategy();
}

fuzz_target!(init: { rio_verif::engine::install_panic_hook(); }, |data: &[u8]| {
    if data.len() < 12 {
        return;
    }
    let mut b = Bytes::new(data);
    let seed = &data[..8];
    b.pos = 8;
    let kind = b.u8();
    let param = b.u16() as usize;
    let body = b.rest();
    let n = body.len();
    let schedule = match kind % 6 {
        0 => Schedule::Whole,
        1 => Schedule::Bytewise,
        2 => Schedule::Two(param % (n + 1)),
        3 => Schedule::Stride(1 + param % 16),
        4 => Schedule::Cuts(vec![param % (n + 1), (param / 7) % (n + 1), (param / 7) % (n + 1)]),
        _ => Schedule::Two((param % 8).min(n)),
    };
    if kind & 0x80 == 0 {
        if let Some(mut case) = S04.with(|s| from_seed(s, seed)) {
            case.body = c16::Case::from_bytes(body.to_vec());
            case.schedule = schedule;
            case.fault = None;
            // a quarter of the inputs: the same body behind a declared gzip / deflate / br encoding (part declared-encodings)
            if kind & 0x60 == 0x60 {
                let codec = ["gzip", "deflate", "br"][(param >> 8) % 3];
                case.headers %= 3;
                case.encoding = Some(c04::Enc { codec: codec.to_string(), spelled: codec.to_string(), mislabelled: kind & 0x10 != 0, level: (param % 10) as u8 });
            }
            let out = c04::check(&case);
            if let Some(m) = out.failure {
                // known finding D26 (error inside a chain with codec stages) is tolerated while it is listed
                if c04::is_d26(&case, &m) && rio_verif::known::is_listed("C04", c04::D26) {
                    return;
                }
                report("C04", if case.encoding.is_some() { "declared-encodings" } else { "bytes" }, &case, &m);
            }
        }
    } else if let Ok(text) = std::str::from_utf8(body) {
        if n > 300 {
            return;
        }
        if let Some(mut case) = S03.with(|s| from_seed(s, seed)) {
            case.body = text.to_string();
            case.schedules = vec![schedule];
            let out = c03::check(&case);
            if let Some(m) = out.failure {
                report("C03", "bodies", &case, &m);
            }
        }
    }
});
