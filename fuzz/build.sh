#!/usr/bin/env bash
# Builds the four libFuzzer targets (nightly, AddressSanitizer, debug assertions) offline.
set -u
HERE="$(cd "$(dirname "$0")" && pwd)"
export CARGO_NET_OFFLINE=true PUBLISH_SKIP_BUILD=1
mkdir -p "$HERE/../work"
cd "$HERE" && cargo +nightly fuzz build --fuzz-dir . --target-dir "$HERE/../work/fuzz-target" > "$HERE/../work/fuzz-build.log" 2>&1 || { grep -E -A8 "^error" "$HERE/../work/fuzz-build.log" | head -40 >&2; exit 1; }
