// Inputs for which the UNCHANGED library does not satisfy C19 (see NOTES.md next to this file).
//
// 1. `explain_traces_after_a_change_set_which_removes_rules` (main finding)
//    The `match_traces` of ExplainRequestOutput computed from a project router plus a change-set are
//    not those computed from scratch on the resulting rule list: `batch_remove` (used by
//    `Router::apply_change_set`) never decrements the `count` of the matchers, so
//      - the `count` reported for a bucket still includes the rules the change-set removed or updated,
//      - a bucket which lost all its rules is kept (its `is_empty()` is `count == 0`) and is traced.
// 2. `redirect_chain_made_of_303` : a 303 is not followed by the redirect-chain analysis, a loop
//    of two 303 rules is reported as "no redirect at all".
// 3. `rule_with_sampling` : analyses of a rule with 0 < sampling < 100 are random, so the project and
//    the stand-alone result (or two runs of the same one) disagree. Probably by design, listed for completeness.

use redirectionio::RouterConfig;
use redirectionio::api::{ExplainRequestInput, ExplainRequestOutput, ExplainRequestProjectInput, Rule};
use redirectionio::router::Router;
use serde_json::{Value, json};
use std::sync::Arc;

fn config() -> Value {
    json!({
        "ignore_host_case": false,
        "ignore_header_case": false,
        "ignore_path_and_query_case": false,
        "ignore_marketing_query_params": true,
        "marketing_query_params": ["utm_source"],
        "pass_marketing_query_params_to_target": true,
        "always_match_any_host": true
    })
}

fn router(rules: &[Value]) -> Router<Rule> {
    let mut router = Router::<Rule>::from_config(serde_json::from_value::<RouterConfig>(config()).unwrap());

    for rule in rules {
        router.insert(serde_json::from_value::<Rule>(rule.clone()).expect("valid rule"));
    }

    router
}

/// (explain from router(base) + change_set, explain from scratch on `resulting`)
fn explain_both(base: &[Value], change_set: Value, resulting: &[Value], example: &Value) -> (Value, Value) {
    let from_project = ExplainRequestOutput::create_result_from_project(
        serde_json::from_value::<ExplainRequestProjectInput>(json!({
            "example": example, "change_set": change_set, "max_hops": 5, "project_domains": []
        }))
        .unwrap(),
        Arc::new(router(base)),
    )
    .expect("explain from project");
    let from_scratch = ExplainRequestOutput::create_result_without_project(
        serde_json::from_value::<ExplainRequestInput>(json!({
            "router_config": config(), "example": example, "rules": resulting, "max_hops": 5, "project_domains": []
        }))
        .unwrap(),
    )
    .expect("explain from scratch");

    (serde_json::to_value(&from_project).unwrap(), serde_json::to_value(&from_scratch).unwrap())
}

/// Traces of buckets kept in hash maps come in any order: sort every list of traces
fn normalize(value: &Value) -> Value {
    match value {
        Value::Array(items) => {
            let mut items: Vec<Value> = items.iter().map(normalize).collect();
            items.sort_by_key(|item| item.to_string());
            Value::Array(items)
        }
        Value::Object(members) => Value::Object(members.iter().map(|(key, member)| (key.clone(), normalize(member))).collect()),
        other => other.clone(),
    }
}

fn redirect(id: &str, path: &str, method: &str, status: u16, target: &str) -> Value {
    json!({ "id": id, "rank": 1, "source": { "path": path, "methods": [method] }, "target": target, "status_code": status })
}

#[test]
fn explain_traces_after_a_change_set_which_removes_rules() {
    let r1 = redirect("R1", "/a", "GET", 301, "/t");
    let r2 = redirect("R2", "/b", "GET", 301, "/t");
    let r3 = redirect("R3", "/c", "POST", 301, "/t");
    let example = json!({ "url": "/a", "method": "GET", "must_match": true });

    // control: with an empty change-set both families give the same traces
    let (project, scratch) = explain_both(
        &[r1.clone()],
        json!({ "added": [], "updated": [], "deleted": [] }),
        &[r1.clone()],
        &example,
    );
    assert_eq!(normalize(&project["match_traces"]), normalize(&scratch["match_traces"]));

    // B = [R1, R2, R3], D deletes R2 and R3, apply(B, D) = [R1]
    let (project, scratch) = explain_both(
        &[r1.clone(), r2, r3],
        json!({ "added": [], "updated": [], "deleted": ["R2", "R3"] }),
        &[r1],
        &example,
    );

    // the response is the same ...
    assert_eq!(project["response"], scratch["response"]);
    // ... but not the traces: the project ones say that the GET bucket holds 2 rules (it holds 1) and show a
    // POST bucket holding 1 rule (there is no POST rule anymore)
    assert_eq!(
        normalize(&project["match_traces"]),
        normalize(&scratch["match_traces"]),
        "match_traces of explain differ between the project and the stand-alone entry point"
    );
}

#[test]
fn redirect_chain_made_of_303() {
    // /a -> /b -> /a with 303 See Other, which every client follows (with GET)
    let r1 = json!({ "id": "R1", "rank": 1, "source": { "path": "/a" }, "target": "/b", "status_code": 303 });
    let r2 = json!({ "id": "R2", "rank": 1, "source": { "path": "/b" }, "target": "/a", "status_code": 303 });
    let example = json!({ "url": "/a", "method": "GET", "must_match": true });

    let rules = [r1, r2];
    let (project, scratch) = explain_both(&rules, json!({ "added": [], "updated": [], "deleted": [] }), &rules, &example);

    assert_eq!(project["response"]["status_code"], json!(303));
    assert_eq!(project["redirection_loop"], scratch["redirection_loop"]);
    // (/a, GET) is requested again after two hops: observed `{"error":null,"hops":[{"method":"GET","status_code":0,"url":"/a"}]}`
    assert_eq!(project["redirection_loop"]["error"], json!("Loop"), "redirection_loop: {}", project["redirection_loop"]);
}

#[test]
fn rule_with_sampling() {
    let r1 = json!({ "id": "R1", "rank": 1, "source": { "path": "/a", "sampling": 50 }, "target": "/t", "status_code": 301 });
    let example = json!({ "url": "/a", "method": "GET", "must_match": true });
    let rules = [r1];

    for run in 0..64 {
        let (project, scratch) = explain_both(&rules, json!({ "added": [], "updated": [], "deleted": [] }), &rules, &example);

        assert_eq!(project["response"], scratch["response"], "run {run}: project and stand-alone explain disagree");
    }
}
