#!/usr/bin/env bash
# usage: tools/coverage.sh [scale] [ids...]
# Measures which lines of /repo/src the generated checks execute (source-based coverage, nightly + llvm-tools):
# builds rio-check / rio-probe instrumented in a target directory of its own, runs the quick tier of the given checks
# (default: all) at VERIF_SCALE=<scale> (default 0.05) with the evidence redirected to work/cov/evidence, merges the
# profiles and writes work/cov/summary.txt (per file) and work/cov/uncovered.txt (uncovered line ranges per file).
# This is a generator diagnostic ("measure what the generator actually produces"), not a check: nothing registered in
# MANIFEST.json depends on it.
set -u
HERE="$(cd "$(dirname "$0")/.." && pwd)"
scale="${1:-0.05}"; shift || true
ids=("$@"); [ ${#ids[@]} -eq 0 ] && ids=(C01 C02 C03 C04 C05 C06 C07 C08 C09 C10 C11 C12 C13 C14 C15 C16 C17 C18 C19)
export CARGO_NET_OFFLINE=true PUBLISH_SKIP_BUILD=1 CARGO_TERM_COLOR=never
export CARGO_TARGET_DIR="$HERE/work/target-cov"
export VERIF_DIR="$HERE"
tools="$(dirname "$(rustc +nightly --print target-libdir)")/bin"
cov="$HERE/work/cov"; rm -rf "$cov"; mkdir -p "$cov/prof" "$cov/evidence"
(cd "$HERE/harness" && LLVM_PROFILE_FILE="$cov/build-%p-%m.profraw" RUSTFLAGS="-C instrument-coverage" cargo +nightly build --release --bin rio-check --bin rio-probe > "$cov/build.log" 2>&1) \
  || { tail -20 "$cov/build.log"; echo "coverage build failed"; exit 2; }
mkdir -p "$CARGO_TARGET_DIR/probe"; cp "$CARGO_TARGET_DIR/release/rio-probe" "$CARGO_TARGET_DIR/probe/rio-probe"
export LLVM_PROFILE_FILE="$cov/prof/%p-%m.profraw"
export VERIF_EVIDENCE_DIR="$cov/evidence" VERIF_SCALE="$scale"
for id in "${ids[@]}"; do
  "$CARGO_TARGET_DIR/release/rio-check" "$id" --tier quick > "$cov/run-$id.log" 2>&1
  echo "$id exit=$? $(grep -E "^$id " "$cov/run-$id.log" | tail -1 | cut -c1-120)"
done
"$tools/llvm-profdata" merge -sparse "$cov"/prof/*.profraw -o "$cov/all.profdata" 2> "$cov/merge.log" || { tail "$cov/merge.log"; exit 2; }
rm -rf "$cov/prof" "$cov"/build-*.profraw
objs=(-object "$CARGO_TARGET_DIR/release/rio-check" -object "$CARGO_TARGET_DIR/release/rio-probe")
"$tools/llvm-cov" report "${objs[@]}" -instr-profile="$cov/all.profdata" --ignore-filename-regex='(\.cargo|rustc|/verif/)' > "$cov/summary.txt" 2>/dev/null
"$tools/llvm-cov" export "${objs[@]}" -instr-profile="$cov/all.profdata" -format=lcov --ignore-filename-regex='(\.cargo|rustc|/verif/)' > "$cov/all.lcov" 2>/dev/null
python3 - "$cov/all.lcov" > "$cov/uncovered.txt" <<'EOF'
import sys,collections
cur=None; un=collections.defaultdict(list); tot=collections.Counter(); hit=collections.Counter()
for l in open(sys.argv[1]):
    l=l.strip()
    if l.startswith('SF:'): cur=l[3:]
    elif l.startswith('DA:'):
        n,c=l[3:].split(',')[:2]; tot[cur]+=1
        if int(c)>0: hit[cur]+=1
        else: un[cur].append(int(n))
for f in sorted(tot):
    ranges=[];
    for n in un[f]:
        if ranges and n==ranges[-1][1]+1: ranges[-1][1]=n
        else: ranges.append([n,n])
    print(f"{f} {hit[f]}/{tot[f]} uncovered: "+" ".join(f"{a}-{b}" if a!=b else str(a) for a,b in ranges))
EOF
tail -3 "$cov/summary.txt"
echo "details: $cov/summary.txt $cov/uncovered.txt"
