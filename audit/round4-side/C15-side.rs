// Inputs for which the UNCHANGED library violates property C15 (or aborts). See NOTES.md next to this file.
//
// Finding A (tests table_*): the css selector of a filter is evaluated with
// `scraper::Html::parse_fragment(buffered element)` (src/filter/html_body_action/mod.rs, fn evaluate).
// parse_fragment parses with a <body> context element. In that insertion mode the HTML tree builder IGNORES
// the start tags caption, col, colgroup, tbody, td, tfoot, th, thead, tr (and head, body, html). When the
// buffered target IS such an element (replace on td / tr / col ...) or contains them without their <table>
// (append / prepend on tr, tbody ...), those elements do not exist in the parsed fragment and a selector
// that names them can never match:
//   - replace with a selector that really matches the target does not replace;
//   - append_child / prepend_child with a selector that really matches a child act anyway (duplicate).
//
// Finding B (test long_inline_script, ignored by default because it ABORTS the test process): the script
// states of the tokenizer (src/html/mod.rs, read_script_data & co) call each other once per byte of script
// text; a 100 kB inline script overflows a 2 MiB stack (debug build) - "thread ... has overflowed its stack,
// fatal runtime error: stack overflow", SIGABRT.

use redirectionio::api::BodyFilter;
use redirectionio::filter::FilterBodyAction;

fn run(document: &str, filters: &str) -> String {
    let filters: Vec<BodyFilter> = serde_json::from_str(filters).expect("cannot deserialize filters");
    let mut filter = FilterBodyAction::new(filters, &[]);
    let mut out = filter.filter(document.as_bytes().to_vec(), None);
    out.extend(filter.end(None));

    String::from_utf8(out).expect("utf-8")
}

// replace, selector matching one of the sibling occurrences of the target: that one must be replaced
#[test]
fn table_cell_replace_with_matching_selector() {
    let document = r#"<html><body><table><tr><td>a</td><td class="x">b</td></tr></table></body></html>"#;
    let filters = r#"[{"action":"replace","element_tree":["html","body","table","tr","td"],"css_selector":"td.x","value":"<td>N</td>"}]"#;
    let expected = r#"<html><body><table><tr><td>a</td><td>N</td></tr></table></body></html>"#;

    // observed: the document unchanged
    assert_eq!(run(document, filters), expected);
}

// the same with a selector that does not name the element type: `.x` - the <td> tags are dropped by the
// fragment parser, the class goes with them
#[test]
fn table_cell_replace_with_class_selector() {
    let document = r#"<table><tr><td>a</td><td class="x">b</td></tr></table>"#;
    let filters = r#"[{"action":"replace","element_tree":["table","tr","td"],"css_selector":".x","value":"<td>N</td>"}]"#;
    let expected = r#"<table><tr><td>a</td><td>N</td></tr></table>"#;

    assert_eq!(run(document, filters), expected);
}

// void target: <col>
#[test]
fn table_col_replace_with_matching_selector() {
    let document = r#"<table><colgroup><col><col class="x"></colgroup><tr><td>a</td></tr></table>"#;
    let filters = r#"[{"action":"replace","element_tree":["table","colgroup","col"],"css_selector":"col.x","value":"<col span=\"2\">"}]"#;
    let expected = r#"<table><colgroup><col><col span="2"></colgroup><tr><td>a</td></tr></table>"#;

    assert_eq!(run(document, filters), expected);
}

// append_child, an element of the target matches the selector: must NOT act
#[test]
fn table_row_append_with_matching_selector() {
    let document = r#"<html><body><table><tr><td>a</td><td class="x">b</td></tr></table></body></html>"#;
    let filters = r#"[{"action":"append_child","element_tree":["html","body","table","tr"],"css_selector":"td.x","value":"<td class=\"x\">N</td>"}]"#;

    // observed: <td class="x">N</td> appended in front of </tr> although td.x is there
    assert_eq!(run(document, filters), document);
}

// prepend_child, an element of the target matches the selector: must NOT act
#[test]
fn table_body_prepend_with_matching_selector() {
    let document = r#"<table><tbody><tr id="first"><td>a</td></tr></tbody></table>"#;
    let filters = r##"[{"action":"prepend_child","element_tree":["table","tbody"],"css_selector":"tr#first","value":"<tr id=\"first\"><td>N</td></tr>"}]"##;

    assert_eq!(run(document, filters), document);
}

// control (passes): one level up, the buffered fragment starts with <table> and the rows / cells exist
#[test]
fn control_table_append_with_matching_selector() {
    let document = r#"<html><body><table><tr><td>a</td><td class="x">b</td></tr></table></body></html>"#;
    let filters = r#"[{"action":"append_child","element_tree":["html","body","table"],"css_selector":"td.x","value":"<tr><td>N</td></tr>"}]"#;

    assert_eq!(run(document, filters), document);
}

// Finding B. Run with:  cargo test --test zz_demo -- --ignored long_inline_script
// expected: the value in front of </body>; observed: the process aborts on a stack overflow.
#[test]
#[ignore]
fn long_inline_script() {
    let script = "a".repeat(100_000);
    let document = format!("<html><head><script>{}</script></head><body><p>x</p></body></html>", script);
    let filters = r#"[{"action":"append_child","element_tree":["html","body"],"value":"<i>V</i>"}]"#;
    let expected = document.replace("</body>", "<i>V</i></body>");

    assert_eq!(run(document.as_str(), filters), expected);
}
