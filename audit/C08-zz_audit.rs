extern crate redirectionio;

use rand::rngs::StdRng;
use rand::{Rng, SeedableRng};
use redirectionio::regex_radix_tree::{RegexTreeMap, UniqueRegexTreeMap};
use regex::RegexBuilder;
use std::collections::HashSet;

// (regex of the marker, sample strings)
fn markers() -> Vec<(&'static str, Vec<&'static str>)> {
    vec![
        ("(?:.+?)", vec!["x", "a/b", "é", ""]),
        ("(?:.*)", vec!["", "zz"]),
        ("(?:[0-9]+)", vec!["1", "42", "x"]),
        ("(?:([\\p{Ll}]|\\-)+?)", vec!["abc", "a-b", "A"]),
        ("(?:(?:a|b|ab))", vec!["a", "b", "ab", "c"]),
        ("(?:[()]+)", vec!["(", ")", "()", "a"]),
        ("(?:[^)]+)", vec!["a", ")", "(("]),
        ("(?:[]]x)", vec!["]x", "x"]),
        ("(?:[^]]x)", vec!["ax", "]x"]),
        ("(?:[\\]()]+)", vec!["]", "()", "a"]),
        ("(?:\\(a\\))", vec!["(a)", "a"]),
        ("(?:[[:alpha:](]+)", vec!["a(", "1"]),
        ("(?:[a-z&&[^(]]+)", vec!["abc", "("]),
        ("(?:(a)(b))", vec!["ab", "a"]),
        ("(?:a)(b)", vec!["ab", "a"]),
        ("(?:(?i)q)", vec!["q", "Q"]),
        ("(?:\\\\)", vec!["\\", "a"]),
        ("(?:[\\\\]\\))", vec!["\\)", ")"]),
        ("(?:🤘|é)", vec!["🤘", "é", "É"]),
        ("(?:[0-9a-f]{8}\\-[0-9a-f]{4})", vec!["0123abcd-0a0b", "x"]),
        ("(?:)", vec![""]),
    ]
}

fn literals() -> Vec<(&'static str, &'static str)> {
    vec![
        ("/", "/"),
        ("a", "a"),
        ("b", "b"),
        ("A", "A"),
        ("ab", "ab"),
        ("\\.", "."),
        ("\\-", "-"),
        ("\\(", "("),
        ("\\)", ")"),
        ("\\[", "["),
        ("\\]", "]"),
        ("\\\\", "\\"),
        ("\\?", "?"),
        ("=", "="),
        ("\\&", "&"),
        ("%C3%A9", "%C3%A9"),
        ("é", "é"),
        ("É", "É"),
        ("🤘", "🤘"),
        ("ß", "ß"),
        ("K", "K"),
        ("\u{212A}", "\u{212A}"),
    ]
}

fn gen_pattern(rng: &mut StdRng) -> (String, String) {
    let ms = markers();
    let ls = literals();
    let n = rng.gen_range(1..6);
    let mut p = String::new();
    let mut s = String::new();
    let mut has_marker = false;
    for i in 0..n {
        if rng.gen_bool(0.35) || (i == n - 1 && !has_marker) {
            let m = &ms[rng.gen_range(0..ms.len())];
            p.push_str(m.0);
            s.push_str(m.1[rng.gen_range(0..m.1.len())]);
            has_marker = true;
        } else {
            // few distinct literals so that prefixes are shared
            let l = &ls[if rng.gen_bool(0.7) { rng.gen_range(0..4) } else { rng.gen_range(0..ls.len()) }];
            p.push_str(l.0);
            s.push_str(l.1);
        }
    }
    (p, s)
}

thread_local! {
    static CACHE: std::cell::RefCell<std::collections::HashMap<(String, bool), Option<regex::Regex>>> = std::cell::RefCell::new(std::collections::HashMap::new());
}

fn oracle(model: &[(String, String, u32)], ic: bool, h: &str) -> Vec<u32> {
    let mut out = Vec::new();
    for (p, _, v) in model {
        let m = CACHE.with(|c| {
            let mut c = c.borrow_mut();
            let re = c
                .entry((p.clone(), ic))
                .or_insert_with(|| RegexBuilder::new(&format!("^{}$", p)).case_insensitive(ic).build().ok());
            match re {
                Some(re) => re.is_match(h),
                None => false,
            }
        });
        if m {
            out.push(*v);
        }
    }
    out.sort();
    out
}

fn check(tree: &RegexTreeMap<u32>, model: &[(String, String, u32)], ic: bool, hay: &[String], pats: &[String], ctx: &str) -> Result<(), String> {
    if tree.len() != model.len() {
        return Err(format!("{ctx}: len {} expected {}", tree.len(), model.len()));
    }
    if tree.is_empty() != model.is_empty() {
        return Err(format!("{ctx}: is_empty"));
    }
    let mut it: Vec<u32> = tree.iter().cloned().collect();
    it.sort();
    let mut exp: Vec<u32> = model.iter().map(|m| m.2).collect();
    exp.sort();
    if it != exp {
        return Err(format!("{ctx}: iter {:?} expected {:?}", it, exp));
    }
    for h in hay {
        let mut got: Vec<u32> = tree.find(h).into_iter().cloned().collect();
        got.sort();
        let exp = oracle(model, ic, h);
        if got != exp {
            return Err(format!("{ctx}: find({:?}) = {:?} expected {:?}", h, got, exp));
        }
    }
    for p in pats {
        let mut got: Vec<u32> = tree.get(p).into_iter().cloned().collect();
        got.sort();
        let mut exp: Vec<u32> = model.iter().filter(|m| &m.0 == p).map(|m| m.2).collect();
        exp.sort();
        if got != exp {
            return Err(format!("{ctx}: get({:?}) = {:?} expected {:?}", p, got, exp));
        }
    }
    Ok(())
}

#[test]
fn fuzz_tree() {
    let iters: u64 = std::env::var("ZZ_ITERS").ok().and_then(|s| s.parse().ok()).unwrap_or(300);
    let mut failures = 0;
    for seed in 0..iters {
        let mut rng = StdRng::seed_from_u64(seed);
        let ic = rng.gen_bool(0.5);
        let npool = rng.gen_range(2..10);
        let mut pats = Vec::new();
        let mut hay: Vec<String> = vec!["".to_string(), "/".to_string(), "\n".to_string(), "/a\n".to_string()];
        for _ in 0..npool {
            let (p, s) = gen_pattern(&mut rng);
            // other samples for the same pattern shape
            hay.push(s.clone());
            hay.push(s.to_uppercase());
            hay.push(s.to_lowercase());
            if !s.is_empty() {
                let cut = s.char_indices().map(|c| c.0).nth(rng.gen_range(0..s.chars().count())).unwrap();
                hay.push(s[..cut].to_string());
                hay.push(format!("{}x", s));
            }
            pats.push(p);
        }
        for _ in 0..4 {
            hay.push(gen_pattern(&mut rng).1);
        }
        let mut tree = RegexTreeMap::<u32>::new(ic);
        let mut model: Vec<(String, String, u32)> = Vec::new();
        let mut next_id = 0u32;
        let mut next_v = 0u32;
        let mut log = Vec::new();
        let nops = rng.gen_range(3..25);
        let mut failed = None;
        for _ in 0..nops {
            let k = rng.gen_range(0..100);
            if k < 50 || model.is_empty() {
                let p = pats[rng.gen_range(0..pats.len())].clone();
                let reuse = !model.is_empty() && rng.gen_bool(0.2);
                let (p, id) = if reuse {
                    let m = &model[rng.gen_range(0..model.len())];
                    (m.0.clone(), m.1.clone())
                } else {
                    next_id += 1;
                    (p, format!("id{}", next_id))
                };
                next_v += 1;
                tree.insert(&p, &id, next_v);
                model.retain(|m| !(m.0 == p && m.1 == id));
                model.push((p.clone(), id.clone(), next_v));
                log.push(format!("insert({:?},{:?},{})", p, id, next_v));
            } else if k < 70 {
                let id = if rng.gen_bool(0.9) { model[rng.gen_range(0..model.len())].1.clone() } else { "nope".to_string() };
                let r = tree.remove(&id);
                let exp = model.iter().find(|m| m.1 == id).map(|m| m.2);
                model.retain(|m| m.1 != id);
                log.push(format!("remove({:?})", id));
                if r != exp {
                    failed = Some(format!("remove returned {:?} expected {:?}", r, exp));
                    break;
                }
            } else if k < 82 {
                let modulo = rng.gen_range(1..4);
                let rem = rng.gen_range(0..modulo);
                tree.retain(&|_id: &str, v: &mut u32| *v % modulo != rem);
                model.retain(|m| m.2 % modulo != rem);
                log.push(format!("retain(v%{}!={})", modulo, rem));
            } else if k < 95 {
                let limit = rng.gen_range(0..6);
                let level = if rng.gen_bool(0.5) { None } else { Some(rng.gen_range(0..4)) };
                tree.cache(limit, level);
                log.push(format!("cache({},{:?})", limit, level));
            } else {
                tree = tree.clone();
                log.push("clone".to_string());
            }
            if let Err(e) = check(&tree, &model, ic, &hay, &pats, "") {
                failed = Some(e);
                break;
            }
        }
        if let Some(e) = failed {
            failures += 1;
            if failures <= 5 {
                println!("SEED {} ic={} FAIL {}\n  ops: {}", seed, ic, e, log.join("; "));
            }
        }
    }
    println!("failures: {}/{}", failures, iters);
    assert_eq!(failures, 0);
}

#[test]
fn unique_basic() {
    let mut t = UniqueRegexTreeMap::<u32>::new(true);
    t.insert("/a(?:.+?)", 1);
    t.insert("/a(?:.+?)", 2);
    t.insert("/A(?:.+?)", 3);
    assert_eq!(t.len(), 2);
    assert_eq!(t.get("/a(?:.+?)"), Some(&2));
    let mut f: Vec<u32> = t.find("/AB").into_iter().cloned().collect();
    f.sort();
    assert_eq!(f, vec![2, 3]);
    let _ = HashSet::<u32>::new();
}

// Borderline 1: a marker expression in verbose mode whose comment holds a parenthesis
#[test]
fn verbose_comment_paren() {
    let a = "/a/(?:(?x)x # )\n|y)/1";
    let b = "/a/(?:(?x)x # )\n|z)/1";
    for p in [a, b] {
        let re = RegexBuilder::new(&format!("^{}$", p)).build().expect("valid");
        assert!(re.is_match("/a/x/1"));
    }
    let mut t = RegexTreeMap::<u32>::new(false);
    t.insert(a, "1", 1);
    println!("alone: {:?}", t.find("/a/x/1"));
    t.insert(b, "2", 2);
    println!("both: {:?} (expected [1, 2])", t.find("/a/x/1"));
}

// Borderline 2: recursion depth
#[test]
fn deep_chain() {
    let depth: usize = std::env::var("ZZ_DEPTH").ok().and_then(|s| s.parse().ok()).unwrap_or(2000);
    let mut t = RegexTreeMap::<u32>::new(false);
    let mut p = String::from("/(?:.+?)");
    for i in 0..depth {
        p.push_str("/a");
        t.insert(&p, &format!("{}", i), i as u32);
    }
    println!("len {}", t.len());
    let mut h = String::from("/x");
    for _ in 0..depth {
        h.push_str("/a");
    }
    println!("find {}", t.find(&h).len());
    println!("iter {}", t.iter().count());
}

// Patterns built through the public rule-side API (regex::escape + marker substitution)
#[test]
fn fuzz_via_marker_string() {
    use redirectionio::marker::{Marker, MarkerString};
    let iters: u64 = std::env::var("ZZ_ITERS2").ok().and_then(|s| s.parse().ok()).unwrap_or(400);
    let pieces = ["/", "a", "b", "A", ".", "-", "(", ")", "[", "]", "\\", "?", "=", "&", "%C3%A9", "+", "*", "{2}", "|", "^", "$", "#", " ", "@", "@m", "@mm", "@n", "@id"];
    let regs = [".+?", "[0-9]+", "([\\p{Ll}]|\\-)+?", "(?:a|b|ab)", "[()]+", "[^)]+", "\\(a\\)", "(a)(b)", "a|b", "[\\]()]+", "", ".*"];
    let mut failures = 0;
    for seed in 0..iters {
        let mut rng = StdRng::seed_from_u64(1_000_000 + seed);
        let ic = rng.gen_bool(0.5);
        let mk = |rng: &mut StdRng| -> Vec<Marker> {
            let mut v = Vec::new();
            for name in ["m", "mm", "n", "id"] {
                if rng.gen_bool(0.8) {
                    v.push(Marker::new(name.to_string(), regs[rng.gen_range(0..regs.len())].to_string()));
                }
            }
            v
        };
        let mut pats: Vec<String> = Vec::new();
        let mut hay: Vec<String> = vec!["".into(), "/".into()];
        let mut tries = 0;
        while pats.len() < 8 && tries < 100 {
            tries += 1;
            let n = rng.gen_range(1..7);
            let mut s = String::new();
            for _ in 0..n {
                let i = if rng.gen_bool(0.6) { rng.gen_range(0..4) } else { rng.gen_range(0..pieces.len()) };
                s.push_str(pieces[i]);
            }
            let markers = mk(&mut rng);
            if let Some(ms) = MarkerString::new(&s, markers, ic) {
                pats.push(ms.regex.clone());
                // haystacks: the source text with markers replaced by plausible values
                for val in ["x", "1", "a", "ab", "(", "(a)", ""] {
                    hay.push(s.replace("@mm", val).replace("@m", val).replace("@n", val).replace("@id", val));
                }
            }
        }
        if pats.is_empty() {
            continue;
        }
        let mut tree = RegexTreeMap::<u32>::new(ic);
        let mut model: Vec<(String, String, u32)> = Vec::new();
        let mut log = Vec::new();
        let mut failed = None;
        let mut next = 0u32;
        for _ in 0..rng.gen_range(3..20) {
            let k = rng.gen_range(0..100);
            if k < 55 || model.is_empty() {
                next += 1;
                let p = pats[rng.gen_range(0..pats.len())].clone();
                let id = format!("r{}", next);
                tree.insert(&p, &id, next);
                model.push((p.clone(), id.clone(), next));
                log.push(format!("insert({:?},{:?})", p, id));
            } else if k < 75 {
                let id = model[rng.gen_range(0..model.len())].1.clone();
                tree.remove(&id);
                model.retain(|m| m.1 != id);
                log.push(format!("remove({:?})", id));
            } else if k < 85 {
                tree.retain(&|_id: &str, v: &mut u32| *v % 2 == 0);
                model.retain(|m| m.2 % 2 == 0);
                log.push("retain(even)".into());
            } else {
                let limit = rng.gen_range(0..6);
                let level = if rng.gen_bool(0.5) { None } else { Some(rng.gen_range(0..4)) };
                tree.cache(limit, level);
                log.push(format!("cache({},{:?})", limit, level));
            }
            if let Err(e) = check(&tree, &model, ic, &hay, &pats, "") {
                failed = Some(e);
                break;
            }
        }
        if let Some(e) = failed {
            failures += 1;
            if failures <= 5 {
                println!("SEED {} ic={} FAIL {}\n  ops: {}", seed, ic, e, log.join("; "));
            }
        }
    }
    println!("failures: {}/{}", failures, iters);
    assert_eq!(failures, 0);
}
