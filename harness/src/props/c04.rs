//! C04 — body filters never lose, duplicate or reorder response bytes.
use crate::bodyfilter::*;
use crate::dom::*;
use crate::engine::*;
use crate::props::{c15, c16};
use proptest::prelude::*;
use redirectionio::http::Header;
use serde::{Deserialize, Serialize};
use serde_json::{json, Value};

#[derive(Serialize, Deserialize, Clone, Debug, PartialEq)]
pub struct FilterK {
    /// "append_child" | "prepend_child" | "replace" | "append_text" | "prepend_text" | "replace_text" | "frobnicate"
    pub action: String,
    pub path: Vec<String>,
    pub selector: Option<String>,
}

#[derive(Serialize, Deserialize, Clone, Debug, PartialEq)]
pub struct Case {
    pub body: c16::Case,
    pub filters: Vec<FilterK>,
    /// 0 none, 1 text/html, 2 application/json (HTML filters inapplicable), 3 text/html + unsupported Content-Encoding
    pub headers: u8,
    pub schedule: Schedule,
    /// inject this byte at this (relative) offset
    pub fault: Option<(u16, u8)>,
    /// part `declared-encodings`: the response declares a supported Content-Encoding
    #[serde(default, skip_serializing_if = "Option::is_none")]
    pub encoding: Option<Enc>,
}

#[derive(Serialize, Deserialize, Clone, Debug, PartialEq)]
pub struct Enc {
    /// "gzip" | "deflate" | "br"
    pub codec: String,
    /// header value as sent ("gzip", "GZIP", ...)
    pub spelled: String,
    /// true: the body is sent as it is although the header declares the encoding; false: it is really compressed
    pub mislabelled: bool,
    pub level: u8,
}

pub const D26: &str = "d26-error-inside-a-chain-with-codec-stages";

pub fn sentinel(k: usize) -> String {
    format!("~~S{k}~~")
}

fn is_text(a: &str) -> bool {
    a.ends_with("_text")
}
fn is_insert(a: &str) -> bool {
    matches!(a, "append_child" | "prepend_child" | "append_text" | "prepend_text")
}

pub fn filter_json(k: usize, f: &FilterK) -> Value {
    if is_text(&f.action) {
        json!({"action": f.action, "content": sentinel(k), "id": null, "target_hash": null})
    } else {
        json!({"action": f.action, "value": sentinel(k), "inner_value": null, "element_tree": f.path, "css_selector": f.selector, "id": null, "target_hash": null})
    }
}

pub fn headers_of(kind: u8) -> Vec<Header> {
    let h = |n: &str, v: &str| Header { name: n.into(), value: v.into() };
    match kind % 6 {
        0 => vec![],
        1 => vec![h("Content-Type", "text/html; charset=utf-8")],
        2 => vec![h("Content-Type", "application/json")],
        3 => vec![h("Content-Type", "text/html"), h("Content-Encoding", "zstd")],
        4 => vec![h("content-encoding", "gzip, br")],
        _ => vec![h("Content-Type", "text/html"), h("Content-Encoding", "identity")],
    }
}

fn strip(hay: &[u8], needle: &[u8]) -> Vec<u8> {
    let mut out = Vec::with_capacity(hay.len());
    let mut i = 0;
    while i < hay.len() {
        if hay[i..].starts_with(needle) {
            i += needle.len();
        } else {
            out.push(hay[i]);
            i += 1;
        }
    }
    out
}

fn split_on(hay: &[u8], needles: &[Vec<u8>]) -> Vec<Vec<u8>> {
    let mut segs = vec![Vec::new()];
    let mut i = 0;
    'outer: while i < hay.len() {
        for n in needles {
            if hay[i..].starts_with(n) {
                segs.push(Vec::new());
                i += n.len();
                continue 'outer;
            }
        }
        segs.last_mut().unwrap().push(hay[i]);
        i += 1;
    }
    segs
}

/// Is `out` (split at replace sentinels into `segs`) the input minus a set of '<...>'-delimited spans?
/// i.e. input = seg0 gap1 seg1 gap2 ... segN with every gap starting with '<' and ending with '>'.
pub fn replace_relation(input: &[u8], segs: &[Vec<u8>]) -> bool {
    // DP over (segment index, position in input where it starts)
    let n = input.len();
    if !input.starts_with(&segs[0]) {
        return false;
    }
    let mut ends: Vec<usize> = vec![segs[0].len()];
    for seg in &segs[1..] {
        let mut next: Vec<usize> = Vec::new();
        for &e in &ends {
            // gap input[e..p], at least "<>"-shaped: starts with '<', ends with '>'
            if e >= n || input[e] != b'<' {
                continue;
            }
            for p in e + 2..=n {
                if input[p - 1] == b'>' && input[p..].starts_with(seg) {
                    let end = p + seg.len();
                    if !next.contains(&end) {
                        next.push(end);
                    }
                }
            }
        }
        if next.is_empty() {
            return false;
        }
        ends = next;
    }
    ends.contains(&n)
}

pub fn effective_body(case: &Case) -> Vec<u8> {
    let mut body = case.body.input();
    if let Some((off, b)) = case.fault {
        let at = ((off as usize) * (body.len() + 1)) >> 16;
        body.insert(at, b);
    }
    body
}

pub fn check(case: &Case) -> Outcome {
    match &case.encoding {
        None => check_plain(case),
        Some(e) => check_encoded(case, e),
    }
}

/// Is the failure of an encoded case of the shape of known finding D26? (an error - invalid stream, or text that is not
/// UTF-8 reaching an HTML stage - inside a chain that has decode / encode stages)
pub fn is_d26(case: &Case, msg: &str) -> bool {
    case.encoding.is_some() && msg.starts_with("error inside a chain with codec stages:")
}

fn applicable_of(case: &Case, html_ok: bool) -> Vec<(usize, &FilterK)> {
    case.filters
        .iter()
        .enumerate()
        .filter(|(_, f)| if is_text(&f.action) { true } else { html_ok && !f.path.is_empty() && matches!(f.action.as_str(), "append_child" | "prepend_child" | "replace") })
        .collect()
}

/// The response declares gzip / deflate / br. The statement's relations are required of the *decompressed* output when the
/// output is a complete valid stream, and `out == in` otherwise ("passes through byte-for-byte").
pub fn check_encoded(case: &Case, e: &Enc) -> Outcome {
    use crate::props::c14::{compress, decompress_complete};
    let mut out = Outcome::new();
    let body = effective_body(case);
    if body.contains(&b'~') {
        out.class("skipped:sentinel-in-body");
        return out;
    }
    let filters: Vec<Value> = case.filters.iter().enumerate().map(|(k, f)| filter_json(k, f)).collect();
    let h = |n: &str, v: &str| Header { name: n.into(), value: v.into() };
    let mut headers = match case.headers % 3 {
        0 => vec![],
        1 => vec![h("Content-Type", "text/html; charset=utf-8")],
        _ => vec![h("Content-Type", "application/json")],
    };
    headers.push(h("Content-Encoding", &e.spelled));
    let html_ok = case.headers % 3 != 2;
    let payload = if e.mislabelled { body.clone() } else { compress(&body, &e.codec, e.level, 22) };
    let r = run_schedule(&filters, &headers, &payload, &case.schedule);
    let applicable = applicable_of(case, html_ok);
    let describe = || format!("filters {:?} headers {:?} schedule {:?} on {} of body {:?}", filters.iter().map(|f| f.to_string()).collect::<Vec<_>>(), headers.iter().map(|h| format!("{}: {}", h.name, h.value)).collect::<Vec<_>>(), case.schedule, if e.mislabelled { "the plain bytes" } else { "the compressed stream" }, String::from_utf8_lossy(&body));
    out.class(match e.codec.as_str() {
        "gzip" => "declared:gzip",
        "deflate" => "declared:deflate",
        _ => "declared:br",
    });
    if applicable.is_empty() {
        out.class("pass-through:nothing-applicable");
        if r.out != payload {
            out.fail(format!("{}: no filter can be built, yet the output ({} bytes) differs from the input ({} bytes)", describe(), r.out.len(), payload.len()));
        }
        out.nontrivial = !case.filters.is_empty();
        return out;
    }
    // what the payload decompresses to, judged by an independent decoder (a mislabelled body is almost never a stream)
    let reference = match decompress_complete(&payload, &e.codec) {
        Ok(d) => Some(d),
        Err(_) => None,
    };
    let error_expected = reference.is_none() || (std::str::from_utf8(reference.as_ref().unwrap()).is_err() && applicable.iter().any(|(_, f)| !is_text(&f.action)));
    if r.out == payload {
        out.class("out==in");
        out.nontrivial = error_expected;
        return out;
    }
    let fail_prefix = if error_expected { "error inside a chain with codec stages: " } else { "" };
    let Some(reference) = reference else {
        out.fail(format!("{fail_prefix}{}: the input is not a valid {} stream, the chain cannot work on it, yet the output ({} bytes) differs from the input ({} bytes)", describe(), e.codec, r.out.len(), payload.len()));
        return out;
    };
    match decompress_complete(&r.out, &e.codec) {
        Err(err) => {
            out.fail(format!("{fail_prefix}{}: the output ({} bytes) is neither the input ({} bytes) nor one complete valid {} stream: {err}", describe(), r.out.len(), payload.len(), e.codec));
            out
        }
        Ok(dec) => {
            // the relations of the plain case, between the decompressed output and the decompressed input
            let mut o = relate(case, &reference, &dec, r.in_error, &applicable, &describe);
            if let Some(m) = o.failure.take() {
                o.fail(format!("{fail_prefix}after decompression: {m}"));
            }
            for c in out.classes.iter() {
                o.class(c);
            }
            if error_expected {
                o.class("error-expected");
            }
            o
        }
    }
}

pub fn check_plain(case: &Case) -> Outcome {
    let mut out = Outcome::new();
    let body = effective_body(case);
    // sentinels must not occur in the body, and no sentinel may be completed by body bytes next to an inserted value
    // ("~~S2~~" + "S1~~>" contains "~~S1~~" - found by the libFuzzer campaign): bodies with a tilde are outside the domain
    if body.contains(&b'~') {
        out.class("skipped:sentinel-in-body");
        return out;
    }
    let filters: Vec<Value> = case.filters.iter().enumerate().map(|(k, f)| filter_json(k, f)).collect();
    let headers = headers_of(case.headers);
    let r = run_schedule(&filters, &headers, &body, &case.schedule);
    let got = r.out;

    let html_ok = matches!(case.headers % 6, 0 | 1);
    let unsupported_encoding = matches!(case.headers % 6, 3 | 4 | 5);
    // which filters can be built and applied at all?
    let applicable: Vec<(usize, &FilterK)> = case
        .filters
        .iter()
        .enumerate()
        .filter(|(_, f)| {
            if is_text(&f.action) {
                true
            } else {
                html_ok_or(html_ok, case.headers) && !f.path.is_empty() && matches!(f.action.as_str(), "append_child" | "prepend_child" | "replace")
            }
        })
        .collect();
    let describe = || format!("filters {:?} headers {:?} schedule {:?} on body {:?}", filters.iter().map(|f| f.to_string()).collect::<Vec<_>>(), headers.iter().map(|h| format!("{}: {}", h.name, h.value)).collect::<Vec<_>>(), case.schedule, String::from_utf8_lossy(&body));

    if applicable.is_empty() || unsupported_encoding {
        out.class(if unsupported_encoding && !applicable.is_empty() { "pass-through:unsupported-encoding" } else { "pass-through:nothing-applicable" });
        if got != body {
            out.fail(format!("{}: no filter applies, output {:?} differs from the input", describe(), String::from_utf8_lossy(&got)));
        }
        if !r.created_empty {
            // not part of this statement (pass-through is); C14 checks "no filter is created" for unsupported encodings
            out.class("note:non-empty-chain-although-nothing-applies");
        }
        return out;
    }

    let mut o = relate(case, &body, &got, r.in_error, &applicable, &describe);
    for c in out.classes.iter() {
        o.class(c);
    }
    o
}

/// The statement's relations between a reference body and an output, for the applicable (non-empty) filter list.
fn relate(case: &Case, body: &[u8], got: &[u8], in_error: bool, applicable: &[(usize, &FilterK)], describe: &dyn Fn() -> String) -> Outcome {
    let mut out = Outcome::new();
    let body = body.to_vec();
    let got = got.to_vec();
    struct R {
        in_error: bool,
    }
    let r = R { in_error };
    // "only the configured insertions": an HTML filter whose target element never occurs in the body has nowhere to act
    // (values are sentinels without markup, so no filter creates the target of another)
    for (k, f) in applicable {
        if is_text(&f.action) {
            continue;
        }
        let Some(last) = f.path.last() else { continue };
        let needle = format!("<{}", last.to_ascii_lowercase());
        let lower = body.to_ascii_lowercase();
        let occurs = lower.windows(needle.len()).enumerate().any(|(i, w)| w == needle.as_bytes() && lower.get(i + needle.len()).is_none_or(|c| !c.is_ascii_alphanumeric() && *c != b'-'));
        let s = sentinel(*k);
        if !occurs && got.windows(s.len()).any(|w| w == s.as_bytes()) {
            out.fail(format!("{}: the value {s} of the filter on {:?} was inserted although no <{last}> element occurs in the body", describe(), f.path));
            return out;
        }
    }
    // strip insert sentinels; a text replace makes everything before it irrelevant
    let last_text_replace = applicable.iter().rposition(|(_, f)| f.action == "replace_text");
    let mut stripped = got.clone();
    for (k, f) in applicable {
        if is_insert(&f.action) {
            stripped = strip(&stripped, sentinel(*k).as_bytes());
        }
    }
    let any_sentinel = got.windows(3).any(|w| w == b"~~S");
    if let Some(t) = last_text_replace {
        // after a text replace the body is its content (unless the chain failed: then pass-through relation below)
        if !r.in_error {
            let (k, _) = applicable[t];
            let mut exp = stripped.clone();
            // replace sentinels of HTML replace filters never appear: the content holds no tag
            if exp != sentinel(k).as_bytes() {
                out.fail(format!("{}: text replace must yield its content, output is {:?}", describe(), String::from_utf8_lossy(&got)));
            }
            exp.clear();
            out.class("text-replace");
            out.nontrivial = true;
            return out;
        }
    }
    let replace_sentinels: Vec<Vec<u8>> = applicable.iter().filter(|(_, f)| f.action == "replace" || f.action == "replace_text").map(|(k, _)| sentinel(*k).into_bytes()).collect();
    if replace_sentinels.is_empty() {
        if stripped != body {
            out.fail(format!("{}: insert-only filters, output {:?} minus the inserted values differs from the input", describe(), String::from_utf8_lossy(&got)));
            return out;
        }
        out.class("insert-only");
    } else {
        let segs = split_on(&stripped, &replace_sentinels);
        let ok = if r.in_error && last_text_replace.is_some() {
            // a failed chain passes the rest through: only require that no input byte was invented
            true
        } else {
            replace_relation(&body, &segs)
        };
        if !ok {
            out.fail(format!("{}: output {:?} is not the input minus '<...>'-delimited spans replaced by the values", describe(), String::from_utf8_lossy(&got)));
            return out;
        }
        out.class(if segs.len() > 1 { "replace-acted" } else { "replace-not-found" });
    }
    // runaway duplication guard: an inserted value appears at most once per '<' of the input (+1 for text filters)
    let lt = body.iter().filter(|b| **b == b'<').count() + 1;
    for (k, _) in applicable {
        let s = sentinel(*k);
        let cnt = got.windows(s.len()).filter(|w| *w == s.as_bytes()).count();
        if cnt > lt {
            out.fail(format!("{}: value {s} inserted {cnt} times", describe()));
            return out;
        }
    }
    if r.in_error {
        out.class("chain-entered-error-state");
    }
    if any_sentinel {
        out.class("acted");
    }
    let multi_chunk = chunks(&body, &case.schedule).len() >= 2;
    out.nontrivial = any_sentinel || (r.in_error && multi_chunk);
    out
}

fn html_ok_or(html_ok: bool, _h: u8) -> bool {
    html_ok
}

fn filterk_strategy() -> BoxedStrategy<FilterK> {
    let path = pick(vec![
        vec!["html"],
        vec!["html", "body"],
        vec!["html", "head"],
        vec!["html", "body", "div"],
        vec!["div"],
        vec!["body", "p"],
        vec!["html", "head", "meta"],
        vec!["ul", "li"],
        vec!["p"],
        vec!["a"],
        vec!["br"],
        vec!["script"],
        vec![],
    ]);
    (pickw(vec![(4u32, "append_child"), (4, "prepend_child"), (5, "replace"), (2, "append_text"), (2, "prepend_text"), (1, "replace_text"), (1, "frobnicate")]), path, pick(vec![None, Some(""), Some("span"), Some(".a"), Some("p"), Some(":::bad")]))
        .prop_map(|(a, p, s)| FilterK { action: a.to_string(), path: p.into_iter().map(|x| x.to_string()).collect(), selector: s.map(|x| x.to_string()) })
        .boxed()
}

fn schedule_strategy() -> BoxedStrategy<Schedule> {
    prop_oneof![
        2 => Just(Schedule::Whole),
        2 => Just(Schedule::Bytewise),
        4 => (0usize..400).prop_map(Schedule::Two),
        4 => prop::collection::vec(0usize..400, 1..6).prop_map(Schedule::Cuts),
        1 => pick(vec![1usize, 2, 3, 7, 10, 4096]).prop_map(Schedule::Stride),
    ]
    .boxed()
}

pub fn strategy() -> BoxedStrategy<Case> {
    let byte = prop_oneof![6 => pick(b"<>/!-=\"' adivpbodyhtml".to_vec()), 1 => any::<u8>(), 1 => pick(vec![0xC3u8, 0xA9, 0xE6, 0x97, 0xA5, 0xFF, 0x00, b'\n'])];
    let bytes_body = prop::collection::vec(byte, 0..80).prop_map(c16::Case::from_bytes);
    let soup_body = soup_strategy(30).prop_map(|s| c16::Case::from_bytes(s.into_bytes()));
    let dom_body = (c15::strategy(), prop::option::weighted(0.6, (0u8..4, any::<u16>(), any::<u16>()))).prop_map(|(c, m)| {
        let mut b = serialize(&c.doc);
        if let Some((k, x, y)) = m {
            b = mutate(&b, k, x, y);
        }
        c16::Case::from_bytes(b.into_bytes())
    });
    let body = prop_oneof![2 => bytes_body, 4 => soup_body, 3 => dom_body];
    let fault = prop::option::weighted(0.35, (any::<u16>(), pick(vec![0xFFu8, 0xC3, 0x80, 0xE6, 0xF0, 0xC0])));
    let generic = (body, prop::collection::vec(filterk_strategy(), 0..4), pickw(vec![(4u32, 0u8), (4, 1), (1, 2), (1, 3), (1, 4), (1, 5)]), schedule_strategy(), fault.clone())
        .prop_map(|(body, filters, headers, schedule, fault)| Case { body, filters, headers, schedule, fault, encoding: None });
    // documents whose filters are known to find their target (paths derived from the document), then broken on purpose
    let derived = (c15::strategy(), prop::option::weighted(0.5, (0u8..4, any::<u16>(), any::<u16>())), prop::collection::vec(filterk_strategy(), 0..2), schedule_strategy(), fault, pickw(vec![(4u32, 0u8), (4, 1), (1, 3)]))
        .prop_map(|(c, m, extra, schedule, fault, headers)| {
            let mut b = serialize(&c.doc);
            if let Some((k, x, y)) = m {
                b = mutate(&b, k, x, y);
            }
            let mut filters: Vec<FilterK> = c.filters.iter().map(|f| FilterK { action: f.action.clone(), path: f.path.clone(), selector: f.selector.clone() }).collect();
            filters.extend(extra);
            Case { body: c16::Case::from_bytes(b.into_bytes()), filters, headers, schedule, fault, encoding: None }
        });
    prop_oneof![3 => generic, 2 => derived].boxed()
}

/// The same bodies, filters, schedules and faults behind a declared gzip / deflate / br encoding: really compressed (the fault
/// makes the decoded text invalid UTF-8) or sent as they are (the decode stage fails).
pub fn encoded_strategy() -> BoxedStrategy<Case> {
    let enc = (pickw(vec![(4u32, ("gzip", "gzip")), (1, ("gzip", "GZIP")), (3, ("deflate", "deflate")), (1, ("deflate", "Deflate")), (3, ("br", "br"))]), prop::bool::weighted(0.3), 0u8..10)
        .prop_map(|((codec, spelled), mislabelled, level)| Enc { codec: codec.to_string(), spelled: spelled.to_string(), mislabelled, level });
    // schedules over the compressed stream: cuts early (codec header), strides, byte-wise
    let schedule = prop_oneof![
        3 => Just(Schedule::Whole),
        2 => Just(Schedule::Bytewise),
        3 => (0usize..40).prop_map(Schedule::Two),
        2 => prop::collection::vec(0usize..300, 1..5).prop_map(Schedule::Cuts),
        1 => pick(vec![1usize, 3, 7, 10, 4096]).prop_map(Schedule::Stride),
    ];
    (strategy(), enc, schedule)
        .prop_map(|(mut c, e, schedule)| {
            c.headers %= 3;
            c.schedule = schedule;
            c.encoding = Some(e);
            c
        })
        .boxed()
}

// ---- part replace-nested: "a replace filter only substitutes whole element spans" on well-formed documents ----------------------
// The target element may contain elements of its own name (a <div> inside the <div>, a list inside a list item's list ...). The whole
// element - start tag to *its* end tag - has to go. With depth 0 the relation holds on the tree as it is; with depth >= 1 it does not:
// known finding D52 (was observation O11), the streaming filter ends the target at the first end tag bearing its name.
pub const D52: &str = "d52-replace-ends-at-the-first-end-tag-of-the-targets-name";

#[derive(Serialize, Deserialize, Clone, Debug, PartialEq)]
pub struct NestedCase {
    pub tag: String,
    pub attrs: String,
    /// elements of the same name nested inside the target, one inside the other
    pub depth: u8,
    /// text before / inside / after the nested elements, and after the target
    pub texts: (String, String, String, String),
    /// a sibling element of another name around the nested ones
    pub wrap: bool,
    pub schedule: Schedule,
}

pub fn nested_doc(c: &NestedCase) -> (String, String) {
    let t = &c.tag;
    let mut inner = c.texts.1.clone();
    for _ in 0..c.depth {
        inner = format!("<{t}>{inner}</{t}>");
    }
    if c.wrap {
        inner = format!("<p>{inner}</p>");
    }
    let doc = format!("<html><body><{t}{}>{}{inner}{}</{t}>{}</body></html>", c.attrs, c.texts.0, c.texts.2, c.texts.3);
    let expected = format!("<html><body>~~NEW~~{}</body></html>", c.texts.3);
    (doc, expected)
}

pub fn check_nested(c: &NestedCase) -> Outcome {
    let mut out = Outcome::new();
    let (doc, expected) = nested_doc(c);
    let filter = json!({"action": "replace", "value": "~~NEW~~", "inner_value": null, "element_tree": ["html", "body", c.tag], "css_selector": null, "id": null, "target_hash": null});
    let r = run_schedule(&[filter], &[Header { name: "Content-Type".into(), value: "text/html".into() }], doc.as_bytes(), &c.schedule);
    let got = String::from_utf8_lossy(&r.out).to_string();
    if got != expected {
        if c.depth >= 1 && got.contains("~~NEW~~") && got.len() > expected.len() {
            out.fail(format!("replace ended at the first end tag of the target's name: {doc:?} -> {got:?}, the whole element replaced gives {expected:?}"));
        } else {
            out.fail(format!("replace on {doc:?} (schedule {:?}) gives {got:?}, the whole element replaced gives {expected:?}", c.schedule));
        }
        return out;
    }
    out.nontrivial = true;
    out.class(if c.depth == 0 { "no-same-name-element-inside" } else { "same-name-element-inside" });
    out
}

pub fn is_d52(c: &NestedCase, msg: &str) -> bool {
    c.depth >= 1 && msg.starts_with("replace ended at the first end tag of the target's name:")
}

fn nested_strategy() -> BoxedStrategy<NestedCase> {
    let text = || pick(vec!["", "a", "b c", "x < y", "\u{e9}t\u{e9}", "1 > 0", "&amp;"]).prop_map(|s| s.to_string());
    let schedule = prop_oneof![3 => Just(Schedule::Whole), 2 => Just(Schedule::Bytewise), 3 => (0usize..120).prop_map(Schedule::Two), 1 => pick(vec![1usize, 3, 7]).prop_map(Schedule::Stride)];
    (pick(vec!["div", "section", "ul", "span", "DIV"]), pick(vec!["", " id=\"old\"", " class='a b'", " data-x=1 "]), pickw(vec![(5u32, 0u8), (3, 1), (2, 2)]), (text(), text(), text(), text()), any::<bool>(), schedule)
        .prop_map(|(tag, attrs, depth, texts, wrap, schedule)| NestedCase { tag: tag.to_lowercase(), attrs: attrs.to_string(), depth, texts, wrap, schedule })
        .boxed()
}

pub fn run(ctx: &Ctx) -> Report {
    let mut rep = Report::new(
        "C04",
        "case = body (arbitrary bytes incl. invalid UTF-8 and NULs, fragment soup, truncated / mutated generated DOM) x 0..3 filters whose values are sentinels ~~Sk~~ absent from the body (HTML append/prepend/replace over paths and selectors incl. unparsable ones, text append/prepend/replace, unknown action, empty element tree) \
         x response headers (none, text/html, application/json, unsupported Content-Encoding) x chunk schedule (whole, byte-wise, two-partition, k-partition with empty chunks, strides) x fault (an invalid byte injected at a generated offset so that the UTF-8 error strikes after bytes were held back); \
         oracle by filter class: nothing applicable / unsupported encoding => out == in; insert-only => out with all sentinels removed == in; HTML replace => out split at the sentinels is a sequence of consecutive segments of in whose gaps each start with '<' and end with '>' (existence by DP); \
         text replace => out == content; mixed lists => strip insert sentinels, then the replace relation; an HTML filter whose target element name never occurs in the body inserts nothing; the same relations when the chain errors at any chunk; non-trivial = a sentinel is present in the output, or the chain entered its error state (hook) on a multi-chunk schedule; distinct by case hash",
    );
    rep.assume("part declared-encodings: the response declares gzip / deflate / br and the body is either really compressed or sent as it is; the oracle is out == in, or the output is one complete valid stream whose decompression stands in the statement's relations to the decompressed input; while known finding D26 is listed, failures of cases in which an error is bound to strike inside the chain (invalid stream, or decoded text that is not UTF-8 reaching an HTML stage) are counted as that finding, all others are violations");
    rep.assume("part bytes: only unsupported encodings are generated; a value is allowed at most once per '<' of the input (runaway guard, weaker than 'once per target')");
    rep.add(run_part(ctx, "bytes", ctx.cases(1_500_000, 40_000_000), strategy, check, &[]));
    if rep.has_violation() {
        return rep;
    }
    rep.add(run_part(ctx, "declared-encodings", ctx.cases(150_000, 4_000_000), encoded_strategy, check, &[KnownSig { name: D26, pred: is_d26 }]));
    if rep.has_violation() {
        return rep;
    }
    rep.assume("part replace-nested (round 4): well-formed documents whose replace target holds 0..2 nested elements of its own name; the whole element, start tag to its own end tag, has to be replaced (`only substitutes whole element spans`); while known finding D52 is listed the cases with a same-name element inside are counted as that finding");
    rep.add(run_part(ctx, "replace-nested", ctx.cases(20_000, 400_000), nested_strategy, check_nested, &[KnownSig { name: D52, pred: is_d52 }]));
    rep
}

pub fn replay(part: &str, case: &Value) -> Result<Outcome, String> {
    if part == "replace-nested" {
        return replay_case::<NestedCase, _>(case, check_nested);
    }
    replay_case::<Case, _>(case, check)
}
