// Side findings for property C05: inputs for which the UNCHANGED library does not do what the
// property states.  Every test below FAILS on the unchanged tree.  See NOTES.md next to this file.

use redirectionio::RouterConfig;
use redirectionio::action::Action;
use redirectionio::api::Rule;
use redirectionio::http::{Header, PathAndQueryWithSkipped, Request};
use redirectionio::router::Router;

fn action_for(rules: &[&str]) -> Action {
    let mut router = Router::<Rule>::from_config(RouterConfig::default());

    for rule in rules {
        let rule: Rule = serde_json::from_str(rule).expect("cannot deserialize");
        router.insert(rule);
    }

    let default_config = RouterConfig::default();
    let request = Request::new(
        PathAndQueryWithSkipped::from_config(&default_config, "/foo"),
        "/foo".to_string(),
        None,
        None,
        None,
        None,
        None,
    );
    let request_configured = Request::rebuild_with_config(&router.config, &request);
    let matched = router.match_request(&request_configured);
    assert_eq!(matched.len(), rules.len(), "every rule matches the request");

    Action::from_routes_rule(matched, &request_configured, None)
}

fn location(headers: &[Header]) -> Option<&str> {
    headers.iter().find(|h| h.name == "Location").map(|h| h.value.as_str())
}

// fold order (rank desc): U, C1, C2 - C2 has the highest priority
const U: &str = r#"{"id":"u","rank":3,"source":{"path":"/foo"},"status_code":301,"target":"/u","log_override":false}"#;
const C1: &str = r#"{"id":"c1","rank":2,"source":{"path":"/foo","response_status_codes":[404]},"status_code":302,"target":"/c1","log_override":false}"#;
const C2: &str = r#"{"id":"c2","rank":1,"source":{"path":"/foo","response_status_codes":[500]},"status_code":307,"target":"/c2","log_override":false}"#;

// ---------------------------------------------------------------------------------------------
// S1. Two conditional status rules: the lower-priority one is dropped altogether by the merge,
//     even for the codes that only IT admits.  Its Location rewrite is still applied, so the
//     action is a Location header without a redirect status.
// ---------------------------------------------------------------------------------------------
#[test]
fn s1_status_of_the_only_rule_admitting_the_code_two_conditional_rules() {
    let mut action = action_for(&[C1, C2]);

    // 404 is admitted by c1 only; c1 carries a status code and is the highest-priority rule whose
    // condition admits 404
    let headers = action.filter_headers(Vec::new(), 404, false, None);
    assert_eq!(location(&headers), Some("/c1")); // holds: the header rewrite of c1 is there
    assert_eq!(action.get_status_code(404, None), 302); // fails: 0
}

#[test]
fn s1_log_override_of_the_only_rule_admitting_the_code_two_conditional_rules() {
    let mut action = action_for(&[C1, C2]);

    // same thing for the logging override: c1 says "do not log" for 404, c2 says nothing about 404
    assert_eq!(action.should_log_request(true, 404, None), false); // fails: true
}

// ---------------------------------------------------------------------------------------------
// S2. An unconditional rule under TWO conditional rules is no longer their fallback: adding c2,
//     which does not admit 200, changes the outcome for 200.
// ---------------------------------------------------------------------------------------------
#[test]
fn s2_control_unconditional_rule_is_the_fallback_of_one_conditional_rule() {
    // this one PASSES: it shows the behaviour with a single conditional rule
    let mut action = action_for(&[U, C1]);

    assert_eq!(action.get_status_code(200, None), 301);
    assert_eq!(action.should_log_request(true, 200, None), false);
}

#[test]
fn s2_unconditional_rule_is_the_fallback_of_two_conditional_rules_status() {
    let mut action = action_for(&[U, C1, C2]);

    let headers = action.filter_headers(Vec::new(), 200, false, None);
    assert_eq!(location(&headers), Some("/u")); // holds
    assert_eq!(action.get_status_code(200, None), 301); // fails: 0
}

#[test]
fn s2_unconditional_rule_is_the_fallback_of_two_conditional_rules_log() {
    let mut action = action_for(&[U, C1, C2]);

    assert_eq!(action.should_log_request(true, 200, None), false); // fails: true
}

// ---------------------------------------------------------------------------------------------
// S3. exclude_response_status_codes:true without any code: the rule has no response-status
//     condition (filters, merge and log override all treat it as unconditional), but its status
//     code is ALSO produced at response time, unlike the same rule without the flag.
// ---------------------------------------------------------------------------------------------
#[test]
fn s3_exclude_flag_without_codes_is_an_unconditional_rule() {
    let plain = r#"{"id":"a","rank":1,"source":{"path":"/foo"},"status_code":301,"target":"/a"}"#;
    let flagged = r#"{"id":"a","rank":1,"source":{"path":"/foo","exclude_response_status_codes":true},"status_code":301,"target":"/a"}"#;
    let flagged_empty =
        r#"{"id":"a","rank":1,"source":{"path":"/foo","exclude_response_status_codes":true,"response_status_codes":[]},"status_code":301,"target":"/a"}"#;

    for code in [0u16, 200, 404] {
        let expected = action_for(&[plain]).get_status_code(code, None); // 301 at 0, else 0
        assert_eq!(action_for(&[flagged]).get_status_code(code, None), expected, "code {code}"); // fails at 200: 301
        assert_eq!(action_for(&[flagged_empty]).get_status_code(code, None), expected, "code {code}");
    }
}
