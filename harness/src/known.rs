//! Known findings (`/verif/known_findings.json`): read once, never written at run time.
use serde::Deserialize;
use serde_json::Value;
use std::sync::OnceLock;

#[derive(Deserialize, Debug, Clone)]
pub struct KnownEntry {
    pub property: String,
    /// name of the signature predicate implemented in the harness
    pub signature: String,
    /// part (sub-check) whose oracle the witness is replayed through
    pub part: String,
    pub witness: Value,
    pub what: String,
}

#[derive(Deserialize, Debug, Clone)]
pub struct FixedEntry {
    pub property: String,
    pub commit: String,
    pub what: String,
}

#[derive(Deserialize, Debug, Clone, Default)]
pub struct KnownFile {
    #[serde(default)]
    pub known: Vec<KnownEntry>,
    #[serde(default)]
    pub fixed: Vec<FixedEntry>,
}

static FILE: OnceLock<KnownFile> = OnceLock::new();

pub fn load() -> &'static KnownFile {
    FILE.get_or_init(|| {
        let path = crate::engine::verif_dir().join("known_findings.json");
        match std::fs::read_to_string(&path) {
            Ok(s) => serde_json::from_str(&s).unwrap_or_else(|e| {
                eprintln!("cannot parse {}: {e}", path.display());
                std::process::exit(2);
            }),
            Err(_) => KnownFile::default(),
        }
    })
}

pub fn is_listed(prop: &str, signature: &str) -> bool {
    load().known.iter().any(|k| k.property == prop && k.signature == signature)
}

pub fn entries(prop: &str) -> Vec<&'static KnownEntry> {
    load().known.iter().filter(|k| k.property == prop).collect()
}
