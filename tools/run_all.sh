#!/usr/bin/env bash
# usage: tools/run_all.sh [quick|thorough]   (VERIF_SEED honoured) - runs every check, prints one line each
tier="${1:-quick}"
cd "$(dirname "$0")/.."
rc=0
for id in C01 C02 C03 C04 C05 C06 C07 C08 C09 C10 C11 C12 C13 C14 C15 C16 C17 C18 C19; do
  start=$(date +%s)
  out=$(./check $id --tier $tier 2>&1); code=$?
  end=$(date +%s)
  echo "$id exit=$code $((end-start))s $(echo "$out" | grep -E "^$id " | tail -1 | cut -c1-160)"
  echo "$out" | grep -E "^(VIOLATION|KNOWN-FINDING|infrastructure)" | cut -c1-200
  [ $code -ne 0 ] && rc=1
done
exit $rc
