// Violations of property C03 by the UNCHANGED library (each test below fails on the clean tree).
//
// Property C03: for every body (valid UTF-8 documents, including scripts, comments, malformed and
// truncated markup), every filter list and every partition of the body into chunks,
//   filter(c1) + .. + filter(ck) + end() == filter(b) + end()
//
// Common cause: HtmlFilterBodyAction::filter builds a NEW html::Tokenizer for every call, over
// "held back bytes + new chunk". The only thing carried from one call to the next is `last_buffer`,
// and it is filled only when the tokenizer answers ErrorToken. Two kinds of tokenizer state are lost:
//
//  A. Raw text context. After `<script>`, `<style>`, `<title>`, `<textarea>`, `<xmp>`, `<iframe>`,
//     `<noscript>`, `<noembed>`, `<noframes>`, `<plaintext>` the tokenizer is in raw text mode
//     (`raw_tag`). When the start tag is the last complete token of a call (or when the raw text seen
//     so far is emitted / held back without its start tag), the next call tokenises the rest of the
//     raw text as ordinary markup: a `<div>` inside a string of a script, inside a textarea, after
//     `<plaintext>` .. is taken for an element.
//
//  B. Comment context. For a comment cut by the end of the input the tokenizer answers CommentToken,
//     not ErrorToken (`<!`, `<!-`, `<!--`, `<!-- abc`, and the bogus comments `</ `, `<?`), so the filter
//     emits the piece as a finished token and tokenises the rest of the comment as ordinary markup in
//     the next call.
//
// In both cases the whole-body run does not see the element and the chunked run does (or the other way
// round for an end tag swallowed by a bogus comment), so the filter acts at a different place.
use redirectionio::api::{BodyFilter, HTMLBodyFilter};
use redirectionio::filter::FilterBodyAction;

fn html_filter(action: &str, tree: &[&str], selector: Option<&str>, value: &str) -> BodyFilter {
    BodyFilter::HTML(HTMLBodyFilter {
        action: action.to_string(),
        value: value.to_string(),
        inner_value: None,
        element_tree: tree.iter().map(|s| s.to_string()).collect(),
        css_selector: selector.map(|s| s.to_string()),
        id: None,
        target_hash: None,
    })
}

fn run(filters: &[BodyFilter], chunks: &[&str]) -> String {
    let mut action = FilterBodyAction::new(filters.to_vec(), &[]);
    let mut out = Vec::new();

    for chunk in chunks {
        out.extend(action.filter(chunk.as_bytes().to_vec(), None));
    }

    out.extend(action.end(None));

    String::from_utf8(out).unwrap()
}

fn check(filters: &[BodyFilter], chunks: &[&str], expected_whole: &str) {
    let body = chunks.concat();
    let whole = run(filters, &[body.as_str()]);

    // What the library answers for the body in one chunk (this part holds)
    assert_eq!(whole, expected_whole);
    // C03 (this part fails)
    assert_eq!(run(filters, chunks), whole, "chunks {:?}", chunks);
}

// ---- A. raw text context lost -------------------------------------------------------------------

#[test]
fn a1_script_start_tag_ends_the_first_chunk() {
    // observed: "<html><body><script>var a = '<div><i>X</i>';</script><div>Yolo</div></body></html>"
    check(
        &[html_filter("prepend_child", &["html", "body", "div"], None, "<i>X</i>")],
        &["<html><body><script>", "var a = '<div>';</script><div>Yolo</div></body></html>"],
        "<html><body><script>var a = '<div>';</script><div><i>X</i>Yolo</div></body></html>",
    );
}

#[test]
fn a2_cut_inside_the_script_text() {
    // The text seen so far is emitted (no `<` in it), the rest is tokenised as markup
    check(
        &[html_filter("prepend_child", &["html", "body", "div"], None, "<i>X</i>")],
        &["<html><body><script>var a", " = '<div>';</script><div>Yolo</div></body></html>"],
        "<html><body><script>var a = '<div>';</script><div><i>X</i>Yolo</div></body></html>",
    );
}

#[test]
fn a3_textarea_with_replace() {
    // observed: the `<div>` typed in the textarea is replaced, up to the `</div>` of the real element
    check(
        &[html_filter("replace", &["html", "body", "div"], None, "<i>X</i>")],
        &["<html><body><textarea>", "<div></textarea><div>Yolo</div></body></html>"],
        "<html><body><textarea><div></textarea><i>X</i></body></html>",
    );
}

#[test]
fn a4_plaintext() {
    // Everything after <plaintext> is text, for ever
    check(
        &[html_filter("append_child", &["html", "body", "div"], None, "<i>X</i>")],
        &["<html><body><plaintext>", "<div></div></body></html>"],
        "<html><body><plaintext><div></div></body></html>",
    );
}

#[test]
fn a5_title_holding_a_less_than_sign_one_byte_at_a_time() {
    // One byte at a time; the text `a<b` of the title is held back WITHOUT its start tag (it has a `<`),
    // then tokenised as markup: `<b</title>` becomes a start tag and the end tag of the title is not seen,
    // so the title is not replaced
    let body = "<html><head><title>a<b</title></head><body></body></html>";
    let filters = [html_filter("replace", &["html", "head", "title"], None, "<title>New</title>")];
    let whole = run(&filters, &[body]);

    assert_eq!(whole, "<html><head><title>New</title></head><body></body></html>");

    let bytes: Vec<&str> = (0..body.len()).map(|i| &body[i..i + 1]).collect();

    assert_eq!(run(&filters, &bytes), whole);
}

// ---- B. comment context lost --------------------------------------------------------------------

#[test]
fn b1_cut_after_the_comment_opener() {
    // observed: "<html><body><!-- <div><i>X</i> --><div>Yolo</div></body></html>"
    // Same for the cuts `<!|`, `<!-|`, `<!-- |`
    check(
        &[html_filter("prepend_child", &["html", "body", "div"], None, "<i>X</i>")],
        &["<html><body><!--", " <div> --><div>Yolo</div></body></html>"],
        "<html><body><!-- <div> --><div><i>X</i>Yolo</div></body></html>",
    );
}

#[test]
fn b2_cut_inside_the_comment_text() {
    check(
        &[html_filter("replace", &["html", "body", "div"], None, "<i>X</i>")],
        &["<html><body><!-- old layout: ", "<div>a</div> --><div>Yolo</div></body></html>"],
        "<html><body><!-- old layout: <div>a</div> --><i>X</i></body></html>",
    );
}

#[test]
fn b3_bogus_comment_swallowing_an_end_tag() {
    // `</ ` opens a bogus comment which ends at the next `>`: in one chunk it swallows `</div>` and the
    // div is closed by the second `</div>`; cut after `</ `, the piece is emitted as a finished comment and
    // the first `</div>` closes the div.
    check(
        &[html_filter("append_child", &["html", "body", "div"], None, "<i>X</i>")],
        &["<html><body><div>a</ ", "</div>b</div></body></html>"],
        "<html><body><div>a</ </div>b<i>X</i></div></body></html>",
    );
}

#[test]
fn b4_processing_instruction() {
    check(
        &[html_filter("append_child", &["html", "body", "div"], None, "<i>X</i>")],
        &["<html><body><?php echo '", "<div></div>'; ?><div>Yolo</div></body></html>"],
        "<html><body><?php echo '<div></div>'; ?><div>Yolo<i>X</i></div></body></html>",
    );
}
