#!/usr/bin/env bash
# usage: fuzz/campaign.sh <target> <property> <seconds> <jobs>
# Runs a libFuzzer campaign (fresh corpus + committed seeds), prints "VIOLATION ..." lines found by the in-target oracle,
# appends the campaign statistics to evidence/<property>.json. Exit 0 = nothing found, 1 = violation, 2 = infrastructure.
set -u
target="$1"; prop="$2"; secs="$3"; jobs="$4"
HERE="$(cd "$(dirname "$0")" && pwd)"; ROOT="$HERE/.."
export VERIF_DIR="$ROOT"
"$HERE/build.sh" || { echo "infrastructure: fuzz build failed" >&2; exit 2; }
bin="$ROOT/work/fuzz-target/x86_64-unknown-linux-gnu/release/$target"
[ -x "$bin" ] || { echo "infrastructure: $bin missing" >&2; exit 2; }
corpus="$ROOT/work/corpus-$prop-$target"; art="$ROOT/work/artifacts-$prop-$target"
rm -rf "$corpus" "$art"; mkdir -p "$corpus" "$art"
[ -d "$HERE/seeds/$target" ] && cp "$HERE/seeds/$target"/* "$corpus"/ 2>/dev/null
log="$ROOT/work/fuzz-$prop-$target.log"
seed=$(( (${VERIF_SEED:-0} % 2147483646) + 1 ))
( cd "$ROOT/work" && "$bin" "$corpus" -fork="$jobs" -max_total_time="$secs" -len_control=0 -max_len=4096 -seed="$seed" -artifact_prefix="$art/" -ignore_crashes=0 -ignore_ooms=1 -ignore_timeouts=1 -timeout=60 -rss_limit_mb=4096 > "$log" 2>&1 )
viol=$(grep -a -E "^VIOLATION property=" "$log" | sort -u)
stats=$(grep -a -E "^#[0-9]+: cov:" "$log" | tail -1)
runs=$(echo "$stats" | sed -E 's/^#([0-9]+):.*/\1/'); cov=$(echo "$stats" | sed -E 's/.*cov: ([0-9]+).*/\1/'); ft=$(echo "$stats" | sed -E 's/.*ft: ([0-9]+).*/\1/'); corp=$(echo "$stats" | sed -E 's/.*corp: ([0-9]+).*/\1/')
python3 - "$ROOT/evidence/$prop.json" "$target" "${runs:-0}" "${cov:-0}" "${ft:-0}" "${corp:-0}" "$secs" "$jobs" "$(echo "$viol" | grep -c VIOLATION)" <<'PY'
import json, sys
path, target, runs, cov, ft, corp, secs, jobs, nviol = sys.argv[1:10]
try:
    e = json.load(open(path))
except Exception:
    sys.exit(0)
def num(x):
    try: return int(x)
    except Exception: return 0
e.setdefault("coverage", {}).setdefault("fuzz_campaigns", []).append({"target": target, "engine": "libFuzzer (cargo-fuzz, AddressSanitizer, debug assertions)", "executions": num(runs), "edge_coverage": num(cov), "features": num(ft), "corpus_entries": num(corp), "seconds": num(secs), "fork_jobs": num(jobs), "violations": num(nviol), "note": "time-bounded campaign: reaching the limit is inconclusive, never a violation"})
e["coverage"]["evaluations"] = e["coverage"].get("evaluations", 0) + num(runs)
e["violations"] = e.get("violations", 0) + num(nviol)
json.dump(e, open(path, "w"), indent=2)
PY
echo "fuzz $target: runs=${runs:-?} cov=${cov:-?} corpus=${corp:-?} in ${secs}s x ${jobs} jobs"
if [ -n "$viol" ]; then echo "$viol"; exit 1; fi
# a crash without an oracle line (sanitizer report, abort inside the library)
crash=$(ls "$art" 2>/dev/null | grep -E "^(crash|leak)-" | head -1)
if [ -n "$crash" ]; then
  mkdir -p "$ROOT/replays/$prop"; cp "$art/$crash" "$ROOT/replays/$prop/fuzz-$target-$crash"
  grep -a -E "ERROR: AddressSanitizer|SUMMARY|panicked" "$log" | head -5
  echo "VIOLATION property=$prop replay=$ROOT/replays/$prop/fuzz-$target-$crash"
  exit 1
fi
exit 0
