use rio_verif::engine::{self, Ctx, Tier};
use rio_verif::{known, props};
use serde_json::Value;

fn usage() -> ! {
    eprintln!("usage: rio-check <Cxx> [--tier quick|thorough] [--replay <file>]");
    std::process::exit(2);
}

fn main() {
    let args: Vec<String> = std::env::args().skip(1).collect();
    if args.is_empty() {
        usage();
    }
    let id = args[0].clone();
    let mut tier = match std::env::var("VERIF_TIER").as_deref() {
        Ok("thorough") => Tier::Thorough,
        _ => Tier::Quick,
    };
    let mut replay: Option<String> = None;
    let mut i = 1;
    while i < args.len() {
        match args[i].as_str() {
            "--tier" => {
                i += 1;
                tier = match args.get(i).map(|s| s.as_str()) {
                    Some("quick") => Tier::Quick,
                    Some("thorough") => Tier::Thorough,
                    _ => usage(),
                };
            }
            "--replay" => {
                i += 1;
                replay = Some(args.get(i).cloned().unwrap_or_else(|| usage()));
            }
            _ => usage(),
        }
        i += 1;
    }
    let seed: u64 = std::env::var("VERIF_SEED").ok().and_then(|s| s.trim().parse::<i128>().ok()).map(|v| v as u64).unwrap_or(0);
    let threads: usize = std::env::var("VERIF_THREADS")
        .ok()
        .and_then(|s| s.parse().ok())
        .unwrap_or_else(|| std::thread::available_parallelism().map(|n| n.get()).unwrap_or(8).min(16));
    let scale: f64 = std::env::var("VERIF_SCALE").ok().and_then(|s| s.parse().ok()).unwrap_or(1.0);

    engine::install_panic_hook();
    let all = props::all();
    let Some(prop) = all.iter().find(|p| p.id == id) else {
        eprintln!("unknown property {id}");
        std::process::exit(2);
    };
    let ctx = Ctx { prop: prop.id, tier, seed, threads, scale };

    // ---- replay mode -------------------------------------------------------------------
    if let Some(path) = replay {
        let (part, case) = load_case(&path);
        match (prop.replay)(&part, &case) {
            Ok(out) => {
                if let Some(msg) = out.failure {
                    println!("replay {path}: FAIL: {msg}");
                    println!("VIOLATION property={} replay={}", prop.id, path);
                    std::process::exit(1);
                }
                println!("replay {path}: property held");
                std::process::exit(0);
            }
            Err(e) => {
                eprintln!("replay {path}: {e}");
                std::process::exit(2);
            }
        }
    }

    let mut exit_code = 0;
    let mut extra_violations = 0usize;

    // ---- regressions (seconds-long replay tier) ---------------------------------------------
    let reg_dir = engine::verif_dir().join("regressions").join(prop.id);
    let mut regressions_run = 0u64;
    if let Ok(rd) = std::fs::read_dir(&reg_dir) {
        let mut files: Vec<_> = rd.flatten().map(|e| e.path()).filter(|p| p.extension().map(|e| e == "json").unwrap_or(false)).collect();
        files.sort();
        for f in files {
            let path = f.to_string_lossy().to_string();
            let (part, case) = load_case(&path);
            regressions_run += 1;
            match (prop.replay)(&part, &case) {
                Ok(out) => {
                    if let Some(msg) = out.failure {
                        println!("regression {path}: FAIL: {msg}");
                        println!("VIOLATION property={} replay={}", prop.id, path);
                        exit_code = 1;
                        extra_violations += 1;
                    }
                }
                Err(e) => {
                    eprintln!("regression {path}: {e}");
                    std::process::exit(2);
                }
            }
        }
    }

    // ---- known findings: replay witnesses ---------------------------------------------------
    let mut known_lines = Vec::new();
    for k in known::entries(prop.id) {
        match (prop.replay)(&k.part, &k.witness) {
            Ok(out) => {
                if out.failure.is_some() {
                    let line = format!("KNOWN-FINDING: property={} {} [{}]", prop.id, k.what, k.signature);
                    println!("{line}");
                    known_lines.push(line);
                } else {
                    println!("note: known finding '{}' no longer reproduces on this tree", k.signature);
                }
            }
            Err(e) => {
                eprintln!("known finding {}: {e}", k.signature);
                std::process::exit(2);
            }
        }
    }

    // ---- generated search ------------------------------------------------------------------
    let mut report = (prop.run)(&ctx);
    report.known_lines = known_lines;
    report.extra.insert("regressions_replayed".into(), regressions_run.into());
    let mut ev = report.evidence(&ctx);
    if extra_violations > 0 {
        let v = ev["violations"].as_u64().unwrap_or(0) + extra_violations as u64;
        ev["violations"] = v.into();
    }
    // sensitivity trials against a changed copy of the library write their evidence elsewhere
    let ev_dir = std::env::var("VERIF_EVIDENCE_DIR").map(std::path::PathBuf::from).unwrap_or_else(|_| engine::verif_dir().join("evidence"));
    let _ = std::fs::create_dir_all(&ev_dir);
    let ev_path = ev_dir.join(format!("{}.json", prop.id));
    std::fs::write(&ev_path, serde_json::to_string_pretty(&ev).unwrap()).expect("write evidence");

    for v in &report.violations {
        let path = engine::write_replay(prop.id, v);
        println!("failure in part {}: {}", v.part, v.message);
        println!("VIOLATION property={} replay={}", prop.id, path);
        exit_code = 1;
    }
    if !report.infra_errors.is_empty() && exit_code == 0 {
        for e in &report.infra_errors {
            eprintln!("infrastructure error: {e}");
        }
        exit_code = 2;
    }
    let cov = &ev["coverage"];
    println!(
        "{} {} seed={} cases={} evaluations={} distinct_nontrivial={} violations={} wall={:.1}s",
        prop.id,
        ctx.tier.name(),
        ctx.seed,
        cov["cases"],
        cov["evaluations"],
        cov["distinct_nontrivial"],
        ev["violations"],
        ev["wall_s"].as_f64().unwrap_or(0.0)
    );
    std::process::exit(exit_code);
}

fn load_case(path: &str) -> (String, Value) {
    let s = std::fs::read_to_string(path).unwrap_or_else(|e| {
        eprintln!("cannot read {path}: {e}");
        std::process::exit(2);
    });
    let v: Value = serde_json::from_str(&s).unwrap_or_else(|e| {
        eprintln!("cannot parse {path}: {e}");
        std::process::exit(2);
    });
    let part = v["part"].as_str().unwrap_or("").to_string();
    (part, v["case"].clone())
}
