#![no_main]
//! C07: adversarial rule / request / response pipelines; any unwind out of a public entry point is a violation.
use libfuzzer_sys::fuzz_target;
use rio_verif::fuzzsupport::{from_bytes, report};
use rio_verif::props::c07;

fuzz_target!(|data: &[u8]| {
    if let Some(case) = from_bytes(&c07::strategy(), data) {
        let out = c07::check(&case);
        if let Some(m) = out.failure {
            report("C07", "pipelines", &case, &m);
        }
    }
});
