extern crate redirectionio;

use redirectionio::RouterConfig;
use redirectionio::action::Action;
use redirectionio::api::Rule;
use redirectionio::http::{Header, PathAndQueryWithSkipped, Request};
use redirectionio::router::Router;

fn router(config: &str, rules: &[&str]) -> Router<Rule> {
    let config: RouterConfig = serde_json::from_str(config).expect("config");
    let mut router = Router::<Rule>::from_config(config);
    for r in rules {
        let rule: Rule = serde_json::from_str(r).expect("rule");
        router.insert(rule);
    }
    router
}

fn obs(a: &Action, code: u16, headers: &[Header], body: &str) -> String {
    let mut a = a.clone();
    let sc = a.get_status_code(code, None);
    let hs = a.filter_headers(headers.to_vec(), code, true, None);
    let hs: Vec<String> = hs.iter().map(|h| format!("{}: {}", h.name, h.value)).collect();
    let out = match a.create_filter_body(code, headers) {
        None => None,
        Some(mut f) => {
            let mut o = f.filter(body.as_bytes().to_vec(), None);
            o.extend(f.end(None));
            Some(String::from_utf8_lossy(&o).to_string())
        }
    };
    let log_t = a.should_log_request(true, code, None);
    let log_f = a.should_log_request(false, code, None);
    format!("sc={sc} hs={hs:?} body={out:?} log={log_t}/{log_f} applied={:?}", a.get_applied_rule_ids())
}

fn check_action(a: &Action) {
    let s1 = serde_json::to_string(a).expect("ser");
    let b: Action = serde_json::from_str(&s1).unwrap_or_else(|e| panic!("de failed: {e} for {s1}"));
    let s2 = serde_json::to_string(&b).expect("ser2");
    assert_eq!(s1, s2);
    let headers = vec![
        Header { name: "Content-Type".to_string(), value: "text/html".to_string() },
        Header { name: "X-Foo".to_string(), value: "bar".to_string() },
    ];
    for code in [0u16, 200, 301, 404, 500] {
        let body = "<html><head><title>t</title></head><body><p>x</p></body></html>";
        assert_eq!(obs(a, code, &headers, body), obs(&b, code, &headers, body), "code {code} json {s1}");
    }
}

#[test]
fn baseline() {
    let r = router(
        r#"{"ignore_marketing_query_params":true,"pass_marketing_query_params_to_target":true}"#,
        &[
            r#"{"id":"r1","rank":0,"source":{"path":"/foo"},"status_code":302,"target":"/bar","header_filters":[{"action":"add","header":"X-A","value":"1"}],"body_filters":[{"action":"append_child","value":"<b>z</b>","element_tree":["html","body"]},{"action":"append_text","content":"TAIL"}],"log_override":false}"#,
            r#"{"id":"r2","rank":1,"source":{"path":"/foo","response_status_codes":[404]},"status_code":410,"log_override":true}"#,
        ],
    );
    let req = Request::from_config(&r.config, "/foo?utm_source=x".to_string(), None, None, None, None, None);
    let m = r.match_request(&req);
    assert_eq!(m.len(), 2);
    let a = Action::from_routes_rule(m, &req, None);
    println!("{}", serde_json::to_string(&a).unwrap());
    check_action(&a);
}

#[test]
fn request_dates() {
    for d in [
        "2024-01-01T00:00:00Z",
        "2016-12-31T23:59:60Z",
        "2016-12-31T23:59:60.5Z",
        "+10000-01-01T00:00:00Z",
        "+262142-12-31T23:59:59.999999999Z",
        "0000-01-01T00:00:00Z",
        "-0001-01-01T00:00:00Z",
        "-262143-01-01T00:00:00Z",
        "2024-01-01T00:00:00.123456789+14:00",
    ] {
        let mut q = Request::new(PathAndQueryWithSkipped::from_static("/"), "/".to_string(), None, None, None, None, None);
        q.created_at = None;
        q.set_created_at(Some(d.to_string()));
        let s = serde_json::to_string(&q).unwrap();
        let back: Result<Request, _> = serde_json::from_str(&s);
        match back {
            Err(e) => println!("DATE {d}: set={:?} ser={s} DE ERROR {e}", q.created_at),
            Ok(b) => println!("DATE {d}: set={:?} back={:?} same={}", q.created_at, b.created_at, q.created_at == b.created_at),
        }
    }
}

// ---------------------------------------------------------------------------------------------
// randomised differential: action and request round trips
// ---------------------------------------------------------------------------------------------

struct Rng(u64);
impl Rng {
    fn next(&mut self) -> u64 {
        self.0 ^= self.0 << 13;
        self.0 ^= self.0 >> 7;
        self.0 ^= self.0 << 17;
        self.0
    }
    fn below(&mut self, n: usize) -> usize {
        (self.next() % n as u64) as usize
    }
    fn chance(&mut self, pct: usize) -> bool {
        self.below(100) < pct
    }
    fn pick<'a>(&mut self, v: &[&'a str]) -> &'a str {
        v[self.below(v.len())]
    }
}

const NASTY: &[&str] = &[
    "plain", "", " ", "a\"b", "back\\slash", "nul\u{0}byte", "tab\there", "nl\nnl", "\u{7f}del", "\u{2028}ls\u{2029}", "\u{feff}bom",
    "é", "日本語", "😀", "\u{10ffff}", "\u{fffd}", "</script>", "<b>@x</b>", "@a", "@a@b", "%C3%A9", "a+b c", "\\u0041", "\u{1}\u{1f}",
    "{\"action\":\"append_text\",\"content\":\"x\"}", "null", "\u{d7ff}\u{e000}",
];

fn j(s: &str) -> String {
    serde_json::to_string(s).unwrap()
}

fn gen_rule(rng: &mut Rng, n: usize) -> String {
    let paths = ["/foo", "/foo/@a", "/@a/@b", "/é", "/Foo", "/foo bar", "/"];
    let path = rng.pick(&paths);
    let mut source = format!("\"path\":{}", j(path));
    if rng.chance(20) {
        source.push_str(&format!(",\"query\":{}", j(rng.pick(&["a=b", "b=2&a=1", "x=@a", "é=ü"]))));
    }
    if rng.chance(20) {
        source.push_str(&format!(",\"host\":{}", j(rng.pick(&["example.org", "EXAMPLE.org", "@a.example.org", "é.example"]))));
    }
    if rng.chance(15) {
        source.push_str(&format!(",\"scheme\":{}", j(rng.pick(&["http", "https"]))));
    }
    if rng.chance(15) {
        source.push_str(",\"methods\":[\"GET\",\"POST\"]");
        if rng.chance(50) {
            source.push_str(",\"exclude_methods\":true");
        }
    }
    if rng.chance(40) {
        let codes = ["[]", "[404]", "[200,404]", "[0]", "[301,302,65535]", "[404,404]"];
        source.push_str(&format!(",\"response_status_codes\":{}", rng.pick(&codes)));
        if rng.chance(50) {
            source.push_str(&format!(",\"exclude_response_status_codes\":{}", rng.pick(&["true", "false", "null"])));
        }
    }
    if rng.chance(10) {
        source.push_str(&format!(",\"sampling\":{}", rng.pick(&["0", "100", "50", "4000000000"])));
    }
    if rng.chance(10) {
        source.push_str(",\"headers\":[{\"type\":\"is_defined\",\"name\":\"X-T\",\"value\":null}]");
    }
    if rng.chance(10) {
        source.push_str(",\"ips\":[{\"in_range\":\"10.0.0.0/8\"}]");
    }
    if rng.chance(10) {
        source.push_str(",\"datetime\":[[\"2020-01-01T00:00:00Z\",\"2030-01-01T00:00:00Z\"]]");
    }
    let mut rule = format!("{{\"id\":{},\"rank\":{},\"source\":{{{}}}", j(&format!("r{}{}", n, rng.pick(&["", "\"", "é", ";", "\u{0}"]))), rng.below(3), source);
    if rng.chance(60) {
        rule.push_str(&format!(",\"status_code\":{}", rng.pick(&["301", "302", "0", "404", "65535", "200", "null"])));
    }
    if rng.chance(50) {
        let targets = ["/bar", "/bar/@a", "", "/b?x=@b", "https://é.example/@a#frag", "/@a@b"];
        let t = if rng.chance(70) { rng.pick(&targets) } else { rng.pick(NASTY) };
        rule.push_str(&format!(",\"target\":{}", j(t)));
    }
    if path.contains('@') || rng.chance(10) {
        rule.push_str(",\"markers\":[{\"name\":\"a\",\"regex\":\"[a-zé]+\",\"transformers\":[{\"type\":\"uppercase\",\"options\":null}]},{\"name\":\"b\",\"regex\":\".+?\"}]");
        if rng.chance(30) {
            rule.push_str(",\"variables\":[{\"name\":\"a\",\"type\":{\"marker\":\"a\"}},{\"name\":\"b\",\"type\":\"request_host\",\"transformers\":[{\"type\":\"replace\",\"options\":{\"something\":\"e\",\"with\":\"\\u0000\"}}]}]");
        }
    }
    if rng.chance(50) {
        let mut hf = Vec::new();
        for _ in 0..rng.below(3) + 1 {
            hf.push(format!(
                "{{\"action\":{},\"header\":{},\"value\":{}{}}}",
                j(rng.pick(&["add", "remove", "replace", "override", "default", "unknown", ""])),
                j(rng.pick(&["X-Foo", "x-foo", "Location", "Set-Cookie", "é", "", "a b", "X\u{0}"])),
                j(rng.pick(NASTY)),
                rng.pick(&["", ",\"id\":\"u1\"", ",\"id\":null,\"target_hash\":\"th\"", ",\"id\":\"\",\"target_hash\":\"\""]),
            ));
        }
        rule.push_str(&format!(",\"header_filters\":[{}]", hf.join(",")));
    }
    if rng.chance(50) {
        let mut bf = Vec::new();
        for _ in 0..rng.below(3) + 1 {
            if rng.chance(50) {
                bf.push(format!(
                    "{{\"action\":{},\"content\":{}{}}}",
                    j(rng.pick(&["append_text", "prepend_text", "replace_text"])),
                    j(rng.pick(NASTY)),
                    rng.pick(&["", ",\"id\":\"t1\"", ",\"id\":null,\"target_hash\":\"th\"", ",\"value\":\"<i/>\",\"element_tree\":[\"html\"]"]),
                ));
            } else {
                bf.push(format!(
                    "{{\"action\":{},\"value\":{},\"element_tree\":{}{}{}}}",
                    j(rng.pick(&["append_child", "prepend_child", "replace", "append_text", "replace_text", "bogus", ""])),
                    j(rng.pick(NASTY)),
                    rng.pick(&["[\"html\",\"body\"]", "[\"html\",\"head\",\"title\"]", "[]", "[\"html\",\"body\",\"p\"]", "[\"HTML\"]", "[\"\"]"]),
                    rng.pick(&["", ",\"css_selector\":\"\"", ",\"css_selector\":\"p.x\"", ",\"css_selector\":null", ",\"css_selector\":\"[\""]),
                    rng.pick(&["", ",\"inner_value\":\"IN\"", ",\"inner_value\":null", ",\"id\":\"h1\",\"target_hash\":\"hh\"", ",\"inner_value\":\"\""]),
                ));
            }
        }
        rule.push_str(&format!(",\"body_filters\":[{}]", bf.join(",")));
    }
    if rng.chance(40) {
        rule.push_str(&format!(",\"log_override\":{}", rng.pick(&["true", "false", "null"])));
    }
    if rng.chance(15) {
        rule.push_str(&format!(",\"reset\":{}", rng.pick(&["true", "false"])));
    }
    if rng.chance(15) {
        rule.push_str(&format!(",\"stop\":{}", rng.pick(&["true", "false"])));
    }
    if rng.chance(30) {
        rule.push_str(",\"redirect_unit_id\":\"ru\",\"configuration_log_unit_id\":\"lu\",\"configuration_reset_unit_id\":\"cu\",\"target_hash\":\"tt\"");
    }
    rule.push('}');
    rule
}

fn gen_request(rng: &mut Rng, config: &RouterConfig) -> Request {
    let paths = [
        "/foo", "/foo/abc", "/abc/def", "/é", "/%C3%A9", "/Foo", "/foo bar", "/", "/foo?utm_source=x&a=1", "/foo?b=2&a=1", "/foo/é?x=é&utm_medium=%00",
        "/foo/abc?utm_source=a%26b", "/FOO/ABC?UTM_SOURCE=1", "/foo\u{0}", "//", "/foo?", "/foo#frag", "not-a-path", "/foo?a=b=c&&", "/foo/\u{10ffff}",
    ];
    let p = rng.pick(&paths).to_string();
    let host = if rng.chance(50) { Some(rng.pick(&["example.org", "EXAMPLE.ORG", "abc.example.org", "é.example", "", "a\"b"]).to_string()) } else { None };
    let scheme = if rng.chance(50) { Some(rng.pick(&["http", "https", "HTTP", ""]).to_string()) } else { None };
    let method = if rng.chance(50) { Some(rng.pick(&["GET", "POST", "get", "PUT", ""]).to_string()) } else { None };
    let ip = if rng.chance(40) { Some(rng.pick(&["10.1.2.3", "::1", "::ffff:10.1.2.3", "fe80::1", "192.168.0.1", "::10.1.2.3"]).parse().unwrap()) } else { None };
    let so = match rng.below(3) {
        0 => None,
        1 => Some(true),
        _ => Some(false),
    };
    let mut q = match rng.below(3) {
        0 => Request::from_config(config, p.clone(), host, scheme, method, ip, so),
        1 => Request::new(PathAndQueryWithSkipped::from_config(&RouterConfig::default(), &p), p.clone(), host, scheme, method, ip, so),
        _ => Request::new(PathAndQueryWithSkipped::from_static(&p), p.clone(), host, scheme, method, ip, so),
    };
    for _ in 0..rng.below(3) {
        q.add_header(
            rng.pick(&["X-T", "x-t", "Host", "X-Forwarded-For", "é", ""]).to_string(),
            rng.pick(NASTY).to_string(),
            rng.chance(50),
        );
    }
    match rng.below(4) {
        0 => q.created_at = None,
        1 => q.set_created_at(Some(rng.pick(&["2025-06-01T12:00:00.000000001Z", "2016-12-31T23:59:60Z", "+12345-01-01T00:00:00Z", "1969-12-31T23:59:59.999Z"]).to_string())),
        _ => (),
    }
    if rng.chance(50) {
        q = Request::rebuild_with_config(config, &q);
    }
    if rng.chance(10) {
        q.path_and_query = None;
    }
    q
}

fn ids(r: &Router<Rule>, q: &Request) -> Vec<String> {
    let mut v: Vec<String> = r.match_request(q).iter().map(|x| x.id().to_string()).collect();
    v.sort();
    v
}

#[test]
fn random_roundtrip() {
    let configs = [
        r#"{}"#,
        r#"{"ignore_marketing_query_params":true,"pass_marketing_query_params_to_target":true}"#,
        r#"{"ignore_host_case":true,"ignore_header_case":true,"ignore_path_and_query_case":true,"ignore_marketing_query_params":true,"pass_marketing_query_params_to_target":true,"always_match_any_host":true}"#,
        r#"{"ignore_marketing_query_params":true,"pass_marketing_query_params_to_target":true,"marketing_query_params":["a","é","x"]}"#,
    ];
    let mut rng = Rng(0x9E3779B97F4A7C15);
    let mut actions = 0;
    let mut nonempty = 0;
    for round in 0..1500 {
        let cfg = configs[round % configs.len()];
        let mut rules = Vec::new();
        for n in 0..rng.below(6) + 1 {
            rules.push(gen_rule(&mut rng, n));
        }
        let refs: Vec<&str> = rules.iter().map(|s| s.as_str()).collect();
        let r = router(cfg, &refs);
        for _ in 0..8 {
            let q = gen_request(&mut rng, &r.config);
            let s = serde_json::to_string(&q).unwrap();
            let q2: Request = serde_json::from_str(&s).unwrap_or_else(|e| panic!("request de failed {e}: {s}"));
            assert_eq!(s, serde_json::to_string(&q2).unwrap());
            assert_eq!(ids(&r, &q), ids(&r, &q2), "request {s}");
            let qr = Request::rebuild_with_config(&r.config, &q);
            let qr2 = Request::rebuild_with_config(&r.config, &q2);
            assert_eq!(serde_json::to_string(&qr).unwrap(), serde_json::to_string(&qr2).unwrap());
            let m = r.match_request(&q);
            if !m.is_empty() {
                nonempty += 1;
            }
            let a = Action::from_routes_rule(m, &q, None);
            actions += 1;
            check_action(&a);
            // the action after it was used must survive too
            let mut used = a.clone();
            used.get_status_code(0, None);
            used.filter_headers(Vec::new(), 404, true, None);
            used.should_log_request(true, 200, None);
            check_action(&used);
        }
    }
    println!("actions checked {actions}, with at least one rule {nonempty}");
}

// ---------------------------------------------------------------------------------------------
// the same round trips through the C entry points
// ---------------------------------------------------------------------------------------------

use std::ffi::{CStr, CString};
use std::os::raw::c_char;

unsafe extern "C" {
    fn redirectionio_action_json_deserialize(s: *mut c_char) -> *const Action;
    fn redirectionio_action_json_serialize(a: *mut Action) -> *const c_char;
    fn redirectionio_action_get_status_code(a: *mut Action, code: u16) -> u16;
    fn redirectionio_action_should_log_request(a: *mut Action, allow: bool, code: u16) -> bool;
}

#[test]
fn ffi_roundtrip() {
    use redirectionio::http::ffi::{redirectionio_request_json_deserialize, redirectionio_request_json_serialize};
    let r = router(
        r#"{"ignore_marketing_query_params":true,"pass_marketing_query_params_to_target":true}"#,
        &[
            r#"{"id":"r\u0000\"1","rank":0,"source":{"path":"/foo/@a"},"markers":[{"name":"a","regex":".+?"}],"status_code":302,"target":"/bar/@a","header_filters":[{"action":"add","header":"X-A","value":"nul\u0000 é 😀  "}],"body_filters":[{"action":"append_child","value":"<b>\u0000</b>","element_tree":["html","body"]},{"action":"append_text","content":"TAIL\u0000"}],"log_override":false}"#,
            r#"{"id":"r2","rank":1,"source":{"path":"/foo/@a","response_status_codes":[404]},"markers":[{"name":"a","regex":".+?"}],"status_code":410,"log_override":true}"#,
        ],
    );
    let mut q = Request::from_config(&r.config, "/foo/%00é?utm_source=\u{0}x".to_string(), Some("h\u{0}".to_string()), None, None, Some("::ffff:1.2.3.4".parse().unwrap()), None);
    q.add_header("X\u{0}".to_string(), "v\u{0}".to_string(), false);
    unsafe {
        let cs = redirectionio_request_json_serialize(&q as *const Request);
        assert!(!cs.is_null());
        let s = CStr::from_ptr(cs).to_str().unwrap().to_string();
        assert_eq!(s, serde_json::to_string(&q).unwrap());
        let q2 = redirectionio_request_json_deserialize(cs as *mut c_char);
        assert!(!q2.is_null());
        assert_eq!(ids(&r, &q), ids(&r, &*q2));
        assert_eq!(ids(&r, &q).len(), 2);

        let a = Action::from_routes_rule(r.match_request(&q), &q, None);
        let mut a_box = a.clone();
        let cs = redirectionio_action_json_serialize(&mut a_box as *mut Action);
        assert!(!cs.is_null());
        let s = CStr::from_ptr(cs).to_str().unwrap().to_string();
        assert_eq!(s, serde_json::to_string(&a).unwrap());
        let input = CString::new(s.clone()).unwrap();
        let a2 = redirectionio_action_json_deserialize(input.as_ptr() as *mut c_char) as *mut Action;
        assert!(!a2.is_null());
        let cs2 = redirectionio_action_json_serialize(a2);
        assert_eq!(CStr::from_ptr(cs2).to_str().unwrap(), s);
        for code in [0u16, 200, 404] {
            assert_eq!(redirectionio_action_get_status_code(a2, code), a_box.get_status_code(code, None));
            assert_eq!(redirectionio_action_should_log_request(a2, true, code), a_box.should_log_request(true, code, None));
        }
        check_action(&*a2);
    }
}

// ---------------------------------------------------------------------------------------------
// neighbours of Action in src/action: UnitTrace and TraceAction
// ---------------------------------------------------------------------------------------------

#[test]
fn unit_trace_roundtrip() {
    use redirectionio::action::UnitTrace;
    let mut t = UnitTrace::default();
    t.add_unit_id("u1".to_string());
    t.add_value_computed_by_unit("k", "v");
    let s = serde_json::to_string(&t).unwrap();
    println!("UnitTrace JSON: {s}");
    let back: Result<UnitTrace, _> = serde_json::from_str(&s);
    println!("UnitTrace de(ser(t)): {:?}", back.as_ref().map(|_| "ok").map_err(|e| e.to_string()));
    assert!(back.is_ok(), "UnitTrace does not survive its own JSON: {}", back.err().unwrap());
}

#[test]
fn trace_action_roundtrip() {
    use redirectionio::action::TraceAction;
    let r = router(
        r#"{}"#,
        &[r#"{"id":"r1","rank":0,"source":{"path":"/foo/@a"},"markers":[{"name":"a","regex":".+?","transformers":[{"type":"replace","options":{"something":"a","with":"b"}}]}],"status_code":302,"target":"/bar/@a"}"#],
    );
    let q = Request::from_config(&r.config, "/foo/aaa".to_string(), None, None, None, None, None);
    let traces = r.trace_request(&q);
    let tas = TraceAction::from_trace_rules(&traces, &q);
    assert_eq!(tas.len(), 1);
    let s1 = serde_json::to_string(&tas[0]).unwrap();
    let mut differs = 0;
    for _ in 0..40 {
        let back: TraceAction = serde_json::from_str(&s1).unwrap();
        let s2 = serde_json::to_string(&back).unwrap();
        if s1 != s2 {
            differs += 1;
            if differs == 1 {
                println!("TraceAction JSON changes:\n  {s1}\n  {s2}");
            }
        }
    }
    println!("TraceAction: {differs}/40 restorations re-serialise differently");
    assert_eq!(differs, 0);
}
