//! Glue for the cargo-fuzz targets: structured cases from fuzzer bytes, failure reporting.
//!
//! proptest's pass-through RNG cannot drive the large strategies of this harness (every lazily built union alternative
//! halves the remaining byte budget, and rand's uniform sampler never terminates on the zeros that follow), so the targets
//! decode their input by hand: a few leading bytes choose the *structured* part of the case (through the same proptest
//! strategies, seeded), the remaining bytes are used verbatim as the byte-level part (body, URI, operation stream).
use proptest::strategy::{Strategy, ValueTree};
use proptest::test_runner::{RngAlgorithm, TestRng, TestRunner};
use serde::Serialize;

/// Generate the structured part of a case from a short seed taken from the fuzzer's bytes.
pub fn from_seed<S: Strategy>(strategy: &S, seed: &[u8]) -> Option<S::Value> {
    let mut bytes = [0u8; 32];
    let mut x = crate::engine::hash64(seed);
    for c in bytes.chunks_mut(8) {
        x = x.wrapping_mul(0x9E3779B97F4A7C15).wrapping_add(0x632BE59BD9B4E019);
        c.copy_from_slice(&(x ^ (x >> 29)).to_le_bytes());
    }
    let rng = TestRng::from_seed(RngAlgorithm::ChaCha, &bytes);
    let mut runner = TestRunner::new_with_rng(crate::engine::runner_config(1), rng);
    strategy.new_tree(&mut runner).ok().map(|t| t.current())
}

/// Minimal byte reader for hand-decoded cases.
pub struct Bytes<'a> {
    pub data: &'a [u8],
    pub pos: usize,
}

impl<'a> Bytes<'a> {
    pub fn new(data: &'a [u8]) -> Self {
        Bytes { data, pos: 0 }
    }
    pub fn u8(&mut self) -> u8 {
        let b = self.data.get(self.pos).copied().unwrap_or(0);
        self.pos += 1;
        b
    }
    pub fn u16(&mut self) -> u16 {
        u16::from_le_bytes([self.u8(), self.u8()])
    }
    pub fn done(&self) -> bool {
        self.pos >= self.data.len()
    }
    pub fn pick<'b, T>(&mut self, pool: &'b [T]) -> &'b T {
        &pool[self.u8() as usize % pool.len()]
    }
    pub fn rest(&mut self) -> &'a [u8] {
        let r = &self.data[self.pos.min(self.data.len())..];
        self.pos = self.data.len();
        r
    }
}

/// Write the replay file and abort (libFuzzer then saves the input as a crash artifact).
pub fn report<C: Serialize>(prop: &str, part: &str, case: &C, message: &str) -> ! {
    let v = crate::engine::Violation { part: part.to_string(), message: message.to_string(), case: serde_json::to_value(case).unwrap_or(serde_json::Value::Null) };
    let path = crate::engine::write_replay(prop, &v);
    eprintln!("VIOLATION property={prop} replay={path}");
    eprintln!("{message}");
    std::process::abort();
}
