#![no_main]
//! C16: losslessness / progress / accessor totality of the tokenizer on raw bytes.
use libfuzzer_sys::fuzz_target;
use rio_verif::engine::Outcome;
use rio_verif::props::c16;

fuzz_target!(init: { rio_verif::engine::install_panic_hook(); }, |data: &[u8]| {
    let mut out = Outcome::new();
    c16::check_bytes(data, &mut out);
    if let Some(m) = out.failure {
        rio_verif::fuzzsupport::report("C16", "random-bytes", &c16::Case::from_bytes(data.to_vec()), &m);
    }
});
