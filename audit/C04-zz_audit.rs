use redirectionio::api::{BodyFilter, HTMLBodyFilter, TextAction, TextBodyFilter};
use redirectionio::filter::FilterBodyAction;
use redirectionio::http::Header;

struct Rng(u64);
impl Rng {
    fn next(&mut self) -> u64 {
        self.0 ^= self.0 << 13;
        self.0 ^= self.0 >> 7;
        self.0 ^= self.0 << 17;
        self.0
    }
    fn below(&mut self, n: usize) -> usize {
        (self.next() % (n as u64)) as usize
    }
}

fn html(action: &str, tree: &[&str], css: Option<&str>, value: &str) -> BodyFilter {
    BodyFilter::HTML(HTMLBodyFilter {
        action: action.to_string(),
        element_tree: tree.iter().map(|s| s.to_string()).collect(),
        css_selector: css.map(|s| s.to_string()),
        value: value.to_string(),
        inner_value: None,
        id: Some("id".to_string()),
        target_hash: Some("th".to_string()),
    })
}

fn text(action: TextAction, value: &str) -> BodyFilter {
    BodyFilter::Text(TextBodyFilter {
        action,
        content: value.to_string(),
        id: Some("id".to_string()),
        target_hash: None,
    })
}

fn run(filters: Vec<BodyFilter>, headers: &[Header], chunks: &[Vec<u8>]) -> Vec<u8> {
    let mut f = FilterBodyAction::new(filters, headers);
    let mut out = Vec::new();
    for c in chunks {
        out.extend(f.filter(c.clone(), None));
    }
    out.extend(f.end(None));
    out
}

fn strip(mut out: Vec<u8>, values: &[String]) -> Vec<u8> {
    // values may be inserted inside other values by downstream filters: remove to a fixpoint
    loop {
        let before = out.len();
        for v in values {
            let v = v.as_bytes();
            if v.is_empty() {
                continue;
            }
            let mut res = Vec::new();
            let mut i = 0;
            while i < out.len() {
                if out[i..].starts_with(v) {
                    i += v.len();
                } else {
                    res.push(out[i]);
                    i += 1;
                }
            }
            out = res;
        }
        if out.len() == before {
            return out;
        }
    }
}

// out is input minus a set of '<...>' spans ?
fn is_span_deletion(input: &[u8], out: &[u8]) -> bool {
    let n = input.len();
    let m = out.len();
    let mut memo = vec![vec![None; m + 1]; n + 1];
    fn go(i: usize, j: usize, a: &[u8], b: &[u8], memo: &mut Vec<Vec<Option<bool>>>) -> bool {
        if let Some(r) = memo[i][j] {
            return r;
        }
        let r = if i == a.len() {
            j == b.len()
        } else {
            let mut ok = false;
            if j < b.len() && a[i] == b[j] {
                ok = go(i + 1, j + 1, a, b, memo);
            }
            if !ok && a[i] == b'<' {
                for k in i + 1..a.len() {
                    if a[k] == b'>' && go(k + 1, j, a, b, memo) {
                        ok = true;
                        break;
                    }
                }
            }
            ok
        };
        memo[i][j] = Some(r);
        r
    }
    go(0, 0, input, out, &mut memo)
}

const VOCAB: &[&[u8]] = &[
    b"<html>", b"<head>", b"</head>", b"<body>", b"</body>", b"</html>", b"<div>", b"</div>", b"<meta name=\"description\">",
    b"<meta/>", b"<meta>", b"<title>", b"</title>", b"<script>", b"</script>", b"<!--", b"-->", b"<", b"</", b">", b"\"", b"'", b"=", b" ",
    b"a", b"\xc3\xa9", b"\xe2\x82\xac", b"<p", b"<br>", b"<br/>", b"<![CDATA[", b"]]>", b"<!DOCTYPE html>", b"<HEAD>", b"<Body class=\"x\">",
    b"<textarea>", b"</textarea>", b"/", b"<a href=/x/>", b"<div/>", b"<body/>", b"<head/>", b"<html/>", b"</meta>", b"<title/>", b"<div", b"</div",
    b"<html>", b"<head>", b"<body>", b"<div>", b"</div>", b"</body>", b"</head>", b"<h1>", b"</h1>", b"text", b"</br>", b"<style>", b"</style>",
    b"\xe2", b"\x82", b"\xf0\x9f", b"<!-->", b"<?", b"<!", b"--!>", b"<svg/>", b"<script/>", b"<plaintext>", b"<xmp>", b"</xmp>", b"<noscript>", b"</noscript>",
    b"<iframe>", b"</iframe>", b"<!--<script>", b"<script><!--", b"<script><!--<script>", b"</SCRIPT >", b"</script/>", b"<div a=\"", b"<div a='", b"<div a=", b"<div a=b/>",
    b"<div\n>", b"</div\n>", b"</div x>", b"</ div>", b"</>", b"<DIV>", b"</DIV>", b"<BODY>", b"</BODY>", b"<HTML>", b"<br/ >", b"<br /", b"\x00", b"<\x00", b"<di\x00v>",
    b"<html>", b"<body>", b"<div>", b"</div>", b"<html>", b"<body>", b"<div>", b"</div>",
];

fn gen_doc(rng: &mut Rng, allow_bad_utf8: bool) -> Vec<u8> {
    let n = 1 + rng.below(18);
    let mut d = Vec::new();
    for _ in 0..n {
        if allow_bad_utf8 && rng.below(12) == 0 {
            d.push(0xff);
            continue;
        }
        d.extend_from_slice(VOCAB[rng.below(VOCAB.len())]);
    }
    d
}

fn gen_chunks(rng: &mut Rng, d: &[u8]) -> Vec<Vec<u8>> {
    let mut chunks = Vec::new();
    let mode = rng.below(4);
    if mode == 0 {
        chunks.push(d.to_vec());
        return chunks;
    }
    let mut i = 0;
    while i < d.len() {
        let l = match mode {
            1 => 1,
            2 => 1 + rng.below(4),
            _ => 1 + rng.below(d.len()),
        };
        let e = (i + l).min(d.len());
        chunks.push(d[i..e].to_vec());
        i = e;
        if rng.below(10) == 0 {
            chunks.push(Vec::new());
        }
    }
    chunks
}

const TREES: &[&[&str]] = &[
    &["html"], &["html", "head"], &["html", "body"], &["html", "head", "meta"], &["html", "head", "title"], &["html", "body", "div"], &["div"],
    &["html", "body", "div", "div"], &["html", "body", "br"], &["body"], &["html", "body", "h1"],
];
const CSS: &[Option<&str>] = &[None, Some(""), Some("meta[name=\"description\"]"), Some("div"), Some("title"), Some("h1"), Some("[[bad")];

fn gen_filters(rng: &mut Rng, allow_replace: bool) -> (Vec<BodyFilter>, Vec<String>, bool) {
    let n = 1 + rng.below(3);
    let mut filters = Vec::new();
    let mut values = Vec::new();
    let mut has_replace = false;
    for k in 0..n {
        let value = match if allow_replace { 0 } else { rng.below(3) } {
            0 => format!("@@S{}@@", k),
            1 => format!("<meta name=\"description\" content=\"@@S{}@@\" />", k),
            _ => format!("<div>@@S{}@@</div>", k),
        };
        values.push(value.clone());
        let kind = rng.below(if allow_replace { 5 } else { 4 });
        let tree = TREES[rng.below(TREES.len())];
        let css = CSS[rng.below(CSS.len())];
        filters.push(match kind {
            0 => html("append_child", tree, css, &value),
            1 => html("prepend_child", tree, css, &value),
            2 => text(TextAction::Append, &value),
            3 => text(TextAction::Prepend, &value),
            _ => {
                has_replace = true;
                html("replace", tree, css, &value)
            }
        });
    }
    (filters, values, has_replace)
}

fn show(b: &[u8]) -> String {
    String::from_utf8_lossy(b).to_string()
}

#[test]
fn fuzz_insert_only() {
    let mut rng = Rng(0x1234_5678_9abc_def1);
    let mut failures = 0;
    for it in 0..150000 {
        let doc = gen_doc(&mut rng, it % 3 == 0);
        let chunks = gen_chunks(&mut rng, &doc);
        let (filters, values, _) = gen_filters(&mut rng, false);
        let dbg = format!("{:?}", filters);
        let out = run(filters, &[], &chunks);
        let stripped = strip(out.clone(), &values);
        if stripped != doc {
            failures += 1;
            if failures <= 8 {
                println!("--- FAIL it={}\n doc   ={:?}\n chunks={:?}\n out   ={:?}\n filters={}", it, show(&doc), chunks.iter().map(|c| show(c)).collect::<Vec<_>>(), show(&out), dbg);
            }
        }
    }
    assert_eq!(failures, 0);
}

#[test]
fn fuzz_with_replace() {
    let mut rng = Rng(0x9999_5678_9abc_def1);
    let mut failures = 0;
    for it in 0..150000 {
        let doc = gen_doc(&mut rng, it % 3 == 0);
        let chunks = gen_chunks(&mut rng, &doc);
        let (filters, values, has_replace) = gen_filters(&mut rng, true);
        if !has_replace {
            continue;
        }
        let dbg = format!("{:?}", filters);
        let out = run(filters, &[], &chunks);
        let stripped = strip(out.clone(), &values);
        if !is_span_deletion(&doc, &stripped) {
            failures += 1;
            if failures <= 8 {
                println!("--- FAIL it={}\n doc   ={:?}\n chunks={:?}\n out   ={:?}\n filters={}", it, show(&doc), chunks.iter().map(|c| show(c)).collect::<Vec<_>>(), show(&out), dbg);
            }
        }
    }
    assert_eq!(failures, 0);
}

// A large inline script in one chunk: Tokenizer::read_script_data recurses once per byte
// FINDING 1. Aborts the whole test process (stack overflow) in the unoptimised profile: run it alone with
//   cargo test --offline -j2 --test zz_audit -- --ignored big_script
#[test]
#[ignore]
fn big_script_single_chunk() {
    let n: usize = std::env::var("SCRIPT_BYTES").ok().and_then(|v| v.parse().ok()).unwrap_or(400_000);
    let stack: usize = std::env::var("STACK_BYTES").ok().and_then(|v| v.parse().ok()).unwrap_or(8 * 1024 * 1024);
    let handle = std::thread::Builder::new()
        .stack_size(stack)
        .spawn(move || {
            let mut doc = b"<html><head><script>".to_vec();
            doc.extend(std::env::var("SCRIPT_PREFIX").unwrap_or_default().into_bytes());
            let fill = std::env::var("SCRIPT_FILL").unwrap_or("a".to_string()).into_bytes();
            while doc.len() < n {
                doc.extend_from_slice(&fill);
            }
            doc.extend_from_slice(b"</script></head><body></body></html>");
            let value = "@@S0@@".to_string();
            let out = run(vec![html("append_child", &["html", "body"], None, &value)], &[], &[doc.clone()]);
            assert_eq!(strip(out, &[value]), doc);
        })
        .unwrap();
    handle.join().unwrap();
}

fn compress(kind: usize, data: &[u8], rng: &mut Rng) -> Vec<u8> {
    use std::io::{Read, Write};
    match kind {
        0 => {
            // possibly multi-member, possibly with sync flushes
            let mut out = Vec::new();
            let parts = 1 + rng.below(3);
            let mut i = 0;
            for p in 0..parts {
                let e = if p + 1 == parts { data.len() } else { i + rng.below(data.len() - i + 1) };
                let mut enc = flate2::write::GzEncoder::new(Vec::new(), flate2::Compression::new(rng.below(10) as u32));
                let mid = i + rng.below(e - i + 1);
                enc.write_all(&data[i..mid]).unwrap();
                if rng.below(2) == 0 {
                    enc.flush().unwrap();
                }
                enc.write_all(&data[mid..e]).unwrap();
                out.extend(enc.finish().unwrap());
                i = e;
            }
            out
        }
        1 => {
            let mut enc = flate2::write::ZlibEncoder::new(Vec::new(), flate2::Compression::new(rng.below(10) as u32));
            let mid = rng.below(data.len() + 1);
            enc.write_all(&data[..mid]).unwrap();
            if rng.below(2) == 0 {
                enc.flush().unwrap();
            }
            enc.write_all(&data[mid..]).unwrap();
            enc.finish().unwrap()
        }
        _ => {
            let mut out = Vec::new();
            let mut reader = brotli::CompressorReader::new(data, 4096, rng.below(12) as u32, 22);
            reader.read_to_end(&mut out).unwrap();
            out
        }
    }
}

fn decompress(kind: usize, data: &[u8]) -> Result<Vec<u8>, String> {
    use std::io::Read;
    let mut out = Vec::new();
    match kind {
        0 => flate2::read::MultiGzDecoder::new(data).read_to_end(&mut out).map_err(|e| e.to_string())?,
        1 => flate2::read::ZlibDecoder::new(data).read_to_end(&mut out).map_err(|e| e.to_string())?,
        _ => brotli::Decompressor::new(data, 4096).read_to_end(&mut out).map_err(|e| e.to_string())?,
    };
    Ok(out)
}

#[test]
fn fuzz_compressed() {
    let mut rng = Rng(0x7777_5678_9abc_def1);
    let mut failures = 0;
    let names = ["gzip", "deflate", "br"];
    for it in 0..6000 {
        let mut doc = gen_doc(&mut rng, false);
        if it % 50 == 0 {
            doc.clear();
        }
        // keep valid utf-8 only: the non utf-8 case with a decode stage is a known defect
        if std::str::from_utf8(&doc).is_err() {
            continue;
        }
        let kind = rng.below(3);
        let comp = compress(kind, &doc, &mut rng);
        let chunks = gen_chunks(&mut rng, &comp);
        let (filters, values, _) = gen_filters(&mut rng, false);
        let dbg = format!("{:?}", filters);
        let headers = vec![
            Header { name: "Content-Type".to_string(), value: "text/html; charset=utf-8".to_string() },
            Header { name: "Content-Encoding".to_string(), value: names[kind].to_string() },
        ];
        let out = run(filters, &headers, &chunks);
        let ok = match decompress(kind, &out) {
            Ok(dec) => strip(dec, &values) == doc,
            Err(_) => false,
        };
        if !ok {
            failures += 1;
            if failures <= 6 {
                println!("--- FAIL it={} enc={}\n doc   ={:?}\n nchunks={:?}\n out   ={:?}\n filters={}", it, names[kind], show(&doc), chunks.iter().map(|c| c.len()).collect::<Vec<_>>(), decompress(kind, &out).map(|d| show(&d)), dbg);
            }
        }
    }
    assert_eq!(failures, 0);
}

#[test]
fn empty_body_with_content_encoding() {
    for enc in ["gzip", "deflate", "br"] {
        for with_empty_chunk in [false, true] {
            let headers = vec![
                Header { name: "Content-Type".to_string(), value: "text/html".to_string() },
                Header { name: "Content-Encoding".to_string(), value: enc.to_string() },
            ];
            let chunks: Vec<Vec<u8>> = if with_empty_chunk { vec![Vec::new()] } else { vec![] };
            let out = run(vec![html("append_child", &["html", "body"], None, "@@S0@@")], &headers, &chunks);
            println!("{} empty_chunk={} -> {} bytes {:?}", enc, with_empty_chunk, out.len(), out);
        }
    }
}

#[test]
fn borderline_misplaced_insertions() {
    let v = "@@V@@";
    for doc in [
        "<html><body>a</body><body>b</body></html>",
        "<html><body/><p>x</p></html>",
        "<html><head></head></html><body>late</body>",
        "<html><body><div>a<div>b</div>c</div></body></html>",
    ] {
        let out = run(vec![html("append_child", &["html", "body"], None, v)], &[], &[doc.as_bytes().to_vec()]);
        println!("append [html,body]  {:?} -> {:?}", doc, show(&out));
        let out = run(vec![html("replace", &["html", "body", "div"], None, v)], &[], &[doc.as_bytes().to_vec()]);
        println!("replace [html,body,div] {:?} -> {:?}", doc, show(&out));
    }
}


// FINDING 2: replace ends at the first end tag of the same name, it does not count nested elements
#[test]
fn finding2_replace_nested_same_name_is_not_a_whole_element() {
    let doc = "<html><body><div id=\"old\">a<div>b</div>c</div><p>after</p></body></html>";
    for chunks in [vec![doc.as_bytes().to_vec()], doc.as_bytes().iter().map(|b| vec![*b]).collect::<Vec<_>>()] {
        let out = run(vec![html("replace", &["html", "body", "div"], None, "@@NEW@@")], &[], &chunks);
        println!("replace -> {:?}", show(&out));
        assert_eq!(show(&out), "<html><body>@@NEW@@<p>after</p></body></html>");
    }
}

// FINDING 3: append_child fires on the end tag of an ancestor when the last element of the path was never entered,
// and fires a second time after the target was left once
#[test]
fn finding3_append_child_fires_without_target_and_twice() {
    let v = "<meta name=\"description\" content=\"@@V@@\" />";
    // no <head> in the document: nothing to append to
    let doc = "<html><body><p>x</p></body></html>";
    let out = run(vec![html("append_child", &["html", "head"], Some("meta[name=\"description\"]"), v)], &[], &[doc.as_bytes().to_vec()]);
    println!("no head -> {:?}", show(&out));
    let no_target_ok = show(&out) == doc;
    // one filter, one insertion expected; two elements named body
    let doc2 = "<html><body>a</body><body>b</body></html>";
    let out2 = run(vec![html("append_child", &["html", "body"], None, "@@V@@")], &[], &[doc2.as_bytes().to_vec()]);
    println!("two bodies -> {:?}", show(&out2));
    let count = show(&out2).matches("@@V@@").count();
    assert!(no_target_ok, "value inserted although html > head never matched: {:?}", show(&out));
    assert_eq!(count, 1);
}
