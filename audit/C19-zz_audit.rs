#![allow(dead_code)]
extern crate redirectionio;

use redirectionio::RouterConfig;
use redirectionio::action::{Action, UnitTrace};
use redirectionio::api::{
    Example, ExplainRequestInput, ExplainRequestOutput, ExplainRequestProjectInput, ImpactInput, ImpactOutput, ImpactProjectInput, Rule,
    TestExamplesInput, TestExamplesOutput, TestExamplesProjectInput, UnitIdsInput, UnitIdsOutput, UnitIdsProjectInput,
};
use redirectionio::http::Request;
use redirectionio::router::Router;
use serde_json::{Value, json};
use std::sync::Arc;

fn config(v: Value) -> RouterConfig {
    serde_json::from_value(v).expect("config")
}

fn default_config_json() -> Value {
    json!({"always_match_any_host":false,"ignore_header_case":false,"ignore_host_case":false,"ignore_marketing_query_params":true,"ignore_path_and_query_case":false,"marketing_query_params":["utm_source","utm_medium","utm_campaign","utm_term","utm_content"],"pass_marketing_query_params_to_target":true})
}

fn rules(v: &Value) -> Vec<Rule> {
    serde_json::from_value(v.clone()).expect("rules")
}

thread_local! {
    static BASE_MODE: std::cell::Cell<u8> = std::cell::Cell::new(0);
}

fn router_of(cfg: &Value, rs: &Value) -> Arc<Router<Rule>> {
    let mode = BASE_MODE.with(|m| m.get());
    let mut router = Router::<Rule>::from_config(config(cfg.clone()));
    let list = rules(rs);
    if mode == 2 {
        // history: the base router itself comes from change-sets (everything added, half deleted and added again)
        router.apply_change_set(list.clone(), Vec::new(), std::collections::HashSet::new());
        let ids: std::collections::HashSet<String> = list.iter().step_by(2).map(|r| r.id.clone()).collect();
        router.apply_change_set(Vec::new(), Vec::new(), ids);
        router.apply_change_set(list.iter().step_by(2).cloned().collect(), Vec::new(), std::collections::HashSet::new());
        router.apply_change_set(Vec::new(), list.iter().skip(1).step_by(2).cloned().collect(), std::collections::HashSet::new());
    } else {
        for r in list {
            router.insert(r);
        }
    }
    if mode == 1 {
        router.cache(None);
    }
    Arc::new(router)
}

fn explain_project(cfg: &Value, base: &Value, change_set: &Value, example: &Value, max_hops: u8) -> Value {
    let input: ExplainRequestProjectInput =
        serde_json::from_value(json!({"example": example, "change_set": change_set, "max_hops": max_hops})).expect("input");
    match ExplainRequestOutput::create_result_from_project(input, router_of(cfg, base)) {
        Ok(o) => serde_json::to_value(&o).unwrap(),
        Err(e) => json!({"error": e.message}),
    }
}

fn explain_standalone(cfg: &Value, rs: &Value, example: &Value, max_hops: u8) -> Value {
    let input: ExplainRequestInput =
        serde_json::from_value(json!({"router_config": cfg, "example": example, "rules": rs, "max_hops": max_hops})).expect("input");
    match ExplainRequestOutput::create_result_without_project(input) {
        Ok(o) => serde_json::to_value(&o).unwrap(),
        Err(e) => json!({"error": e.message}),
    }
}

fn test_examples_standalone(cfg: &Value, rs: &Value, max_hops: u8) -> Value {
    let input: TestExamplesInput = serde_json::from_value(json!({"router_config": cfg, "rules": rs, "max_hops": max_hops})).expect("input");
    serde_json::to_value(TestExamplesOutput::create_result_without_project(input)).unwrap()
}

fn test_examples_project(cfg: &Value, base: &Value, change_set: &Value, max_hops: u8) -> Value {
    let input: TestExamplesProjectInput = serde_json::from_value(json!({"change_set": change_set, "max_hops": max_hops})).expect("input");
    serde_json::to_value(TestExamplesOutput::from_project(input, router_of(cfg, base))).unwrap()
}

fn unit_ids_standalone(cfg: &Value, rs: &Value) -> Value {
    let input: UnitIdsInput = serde_json::from_value(json!({"router_config": cfg, "rules": rs})).expect("input");
    serde_json::to_value(UnitIdsOutput::create_result_without_project(input)).unwrap()
}

fn unit_ids_project(cfg: &Value, base: &Value, change_set: &Value) -> Value {
    let input: UnitIdsProjectInput = serde_json::from_value(json!({"change_set": change_set})).expect("input");
    serde_json::to_value(UnitIdsOutput::create_result_from_project(input, router_of(cfg, base))).unwrap()
}

fn impact_standalone(cfg: &Value, rs: &Value, rule: &Value, action: &str, max_hops: u8) -> Value {
    let input: ImpactInput = serde_json::from_value(
        json!({"router_config": cfg, "rules": rs, "rule": rule, "action": action, "max_hops": max_hops, "with_redirection_loop": true}),
    )
    .expect("input");
    serde_json::to_value(ImpactOutput::create_result(input)).unwrap()
}

fn impact_project(cfg: &Value, base: &Value, change_set: &Value, rule: &Value, action: &str, max_hops: u8) -> Value {
    let input: ImpactProjectInput = serde_json::from_value(
        json!({"change_set": change_set, "rule": rule, "action": action, "max_hops": max_hops, "with_redirection_loop": true}),
    )
    .expect("input");
    serde_json::to_value(ImpactOutput::from_impact_project(input, router_of(cfg, base))).unwrap()
}

fn empty_cs() -> Value {
    json!({"added": [], "updated": [], "deleted": []})
}

fn ex(url: &str) -> Value {
    json!({"url": url, "must_match": true, "unit_ids_applied": []})
}

// ---------------------------------------------------------------------------------------------
// E1: counts in match_traces after a change-set that updates / deletes rules
// ---------------------------------------------------------------------------------------------
fn trace_summary(traces: &Value, depth: usize, out: &mut Vec<String>) {
    // siblings come out of hash maps: sort them to compare
    let mut lines = Vec::new();
    for t in traces.as_array().unwrap() {
        let mut sub = Vec::new();
        trace_summary(&t["children"], depth + 1, &mut sub);
        let routes: Vec<String> = t
            .get("routes")
            .and_then(|r| r.as_array())
            .map(|r| r.iter().map(|x| x["id"].as_str().unwrap().to_string()).collect())
            .unwrap_or_default();
        lines.push(format!(
            "{}{} against={} matched={} executed={} count={} routes={:?}\n{}",
            "  ".repeat(depth),
            t["type"].as_str().unwrap(),
            t.get("against").unwrap_or(&Value::Null),
            t["matched"],
            t["executed"],
            t["count"],
            routes,
            sub.join("")
        ));
    }
    lines.sort();
    out.extend(lines);
}

fn summary(traces: &Value) -> String {
    let mut out = Vec::new();
    trace_summary(traces, 0, &mut out);
    out.join("")
}

#[test]
fn e1_explain_project_vs_standalone_traces_after_update() {
    let cfg = default_config_json();
    let base = json!([
        {"id":"r1","rank":0,"source":{"scheme":"https","host":"example.org","path":"/old"},"status_code":301,"target":"/new"}
    ]);
    // the rule is edited: only its target changes
    let edited = json!([
        {"id":"r1","rank":0,"source":{"scheme":"https","host":"example.org","path":"/old"},"status_code":301,"target":"/newer"}
    ]);
    let cs = json!({"added": [], "updated": edited, "deleted": []});
    let example = ex("https://example.org/old");

    let p = explain_project(&cfg, &base, &cs, &example, 5);
    let s = explain_standalone(&cfg, &edited, &example, 5);

    assert_eq!(p["response"], s["response"]);
    println!("project:\n{}", summary(&p["match_traces"]));
    println!("standalone:\n{}", summary(&s["match_traces"]));
    assert_eq!(summary(&p["match_traces"]), summary(&s["match_traces"]));
}

#[test]
fn e1_explain_project_vs_standalone_traces_after_delete() {
    let cfg = default_config_json();
    let base = json!([
        {"id":"r-https","rank":0,"source":{"scheme":"https","host":"example.org","path":"/old"},"status_code":301,"target":"/new"},
        {"id":"r-any","rank":0,"source":{"path":"/foo"},"status_code":302,"target":"/bar"}
    ]);
    let cs = json!({"added": [], "updated": [], "deleted": ["r-https"]});
    let after = json!([
        {"id":"r-any","rank":0,"source":{"path":"/foo"},"status_code":302,"target":"/bar"}
    ]);
    let example = ex("https://example.org/foo");

    let p = explain_project(&cfg, &base, &cs, &example, 5);
    let s = explain_standalone(&cfg, &after, &example, 5);

    assert_eq!(p["response"], s["response"]);
    println!("project:\n{}", summary(&p["match_traces"]));
    println!("standalone:\n{}", summary(&s["match_traces"]));
    assert_eq!(summary(&p["match_traces"]), summary(&s["match_traces"]));
}

// ---------------------------------------------------------------------------------------------
// Random differential: project vs standalone vs own pipeline replay
// ---------------------------------------------------------------------------------------------
struct Rng(u64);
impl Rng {
    fn next(&mut self) -> u64 {
        self.0 ^= self.0 << 13;
        self.0 ^= self.0 >> 7;
        self.0 ^= self.0 << 17;
        self.0
    }
    fn below(&mut self, n: u64) -> u64 {
        self.next() % n
    }
    fn chance(&mut self, percent: u64) -> bool {
        self.below(100) < percent
    }
    fn pick<'a, T>(&mut self, items: &'a [T]) -> &'a T {
        &items[self.below(items.len() as u64) as usize]
    }
}

fn gen_example(rng: &mut Rng) -> Value {
    let urls = [
        "/a", "/b", "/c", "/a/b", "/A", "/a%20b", "/foo/xyz", "/foo/xyz/bar", "/foo/12", "/x1", "/xab",
        "http://example.org/a", "https://example.org/b", "https://EXAMPLE.org/a/b?b=2&a=1", "http://www.example.org/c",
        "http://example.org/a?utm_source=x", "/a?k=v", "/a?b=2&a=1", "/a?a=1&b=2", "http://other.net/a", "/foo/XYZ",
        "http://example.org", "http://example.org:8080/a", "/é",
    ];
    let mut e = json!({"url": *rng.pick(&urls), "must_match": rng.chance(70)});
    if rng.chance(30) {
        e["method"] = json!(*rng.pick(&["GET", "POST", "PUT"]));
    }
    if rng.chance(30) {
        e["headers"] = json!([{"name": *rng.pick(&["X-Test", "x-test", "X-Other"]), "value": *rng.pick(&["Foo", "foo", "bar"])}]);
    }
    if rng.chance(30) {
        e["response_status_code"] = json!(*rng.pick(&[200, 404, 301, 500]));
    }
    if rng.chance(20) {
        e["ip_address"] = json!(*rng.pick(&["10.0.0.1", "192.168.1.1", "nope"]));
    }
    if rng.chance(20) {
        e["datetime"] = json!(*rng.pick(&["2024-03-05T10:00:00Z", "2030-01-01T23:30:00+02:00", "bad"]));
    }
    if rng.chance(85) {
        let pool = ["u1", "u2", "u3", "u4", "u5", "u6", "u7", "u8"];
        let mut ids = Vec::new();
        for _ in 0..rng.below(3) {
            ids.push(json!(*rng.pick(&pool)));
        }
        e["unit_ids_applied"] = json!(ids);
    }
    e
}

fn gen_rule(rng: &mut Rng, id: &str) -> Value {
    let paths = ["/a", "/b", "/c", "/a/b", "/A", "/a b", "/foo/@m", "/foo/@m/bar", "/@m", "/x@n", "/é", "/"];
    let path = *rng.pick(&paths);
    let mut source = json!({"path": path});
    if rng.chance(25) {
        source["query"] = json!(*rng.pick(&["k=v", "b=2&a=1", "utm_source=x", "a=1&b=2"]));
    }
    if rng.chance(35) {
        source["host"] = json!(*rng.pick(&["example.org", "Example.ORG", "@h.example.org", "other.net", "example.org:8080"]));
    }
    if rng.chance(25) {
        source["scheme"] = json!(*rng.pick(&["http", "https"]));
    }
    if rng.chance(25) {
        source["methods"] = json!(*rng.pick(&[vec!["GET"], vec!["POST", "GET"], vec!["PUT"]]));
        if rng.chance(40) {
            source["exclude_methods"] = json!(rng.chance(50));
        }
    }
    if rng.chance(25) {
        let kinds = ["is_defined", "is_not_defined", "is_equals", "is_not_equal_to", "contains", "match_regex", "starts_with"];
        let kind = *rng.pick(&kinds);
        let mut h = json!({"name": *rng.pick(&["X-Test", "x-test"]), "type": kind});
        if kind != "is_defined" && kind != "is_not_defined" {
            h["value"] = json!(*rng.pick(&["Foo", "foo", "F@n"]));
        }
        source["headers"] = json!([h]);
    }
    if rng.chance(15) {
        source["ips"] = json!(*rng.pick(&[
            json!([{"in_range": "10.0.0.0/8"}]),
            json!([{"in_range": "10.0.0.0/8"}, {"in_range": "10.0.0.0/16"}, {"not_in_range": "192.168.0.0/16"}]),
            json!([{"not_in_range": "10.0.0.0/8"}]),
        ]));
    }
    if rng.chance(10) {
        source["datetime"] = json!([["2024-01-01T00:00:00Z", "2025-01-01T00:00:00Z"]]);
    }
    if rng.chance(10) {
        source["time"] = json!([["09:00:00", "18:00:00"]]);
    }
    if rng.chance(10) {
        source["weekdays"] = json!(["tuesday", "friday"]);
    }
    if rng.chance(35) {
        source["response_status_codes"] = json!(*rng.pick(&[vec![404], vec![200, 301], vec![500]]));
        if rng.chance(50) {
            source["exclude_response_status_codes"] = json!(rng.chance(50));
        }
    }

    let mut rule = json!({"id": id, "rank": rng.below(3), "source": source});
    rule["markers"] = json!([
        {"name": "m", "regex": *rng.pick(&["[a-z]+", ".+?", "[0-9]+", "(?:x|y)z?"]), "transformers": if rng.chance(30) { json!([{"type": "uppercase", "options": null}]) } else { json!([]) }},
        {"name": "n", "regex": *rng.pick(&["[a-z]+", "[0-9]"])},
        {"name": "h", "regex": "www|m"}
    ]);
    if rng.chance(15) {
        rule["variables"] = json!([
            {"name": "m", "type": {"marker": "m"}},
            {"name": "host", "type": "request_host"},
            {"name": "meth", "type": "request_method"},
            {"name": "hd", "type": {"request_header": {"name": "X-Test", "default": "dflt"}}}
        ]);
    }
    if rng.chance(60) {
        rule["status_code"] = json!(*rng.pick(&[301, 302, 307, 308, 404, 410, 0]));
        if rng.chance(85) {
            rule["target"] = json!(*rng.pick(&[
                "/a", "/b", "/c", "/a/b", "/t/@m", "http://example.org/a", "https://example.org/b", "/b?x=1", "http://other.net/a", "", "/é", "/to/@host/@meth/@hd"
            ]));
            rule["redirect_unit_id"] = json!(*rng.pick(&["u1", "u2", "u3"]));
            if rng.chance(70) {
                rule["target_hash"] = json!(*rng.pick(&["th-loc", "th-loc2"]));
            }
        }
    }
    if rng.chance(40) {
        let mut filters = Vec::new();
        for _ in 0..(1 + rng.below(2)) {
            let mut f = json!({
                "action": *rng.pick(&["add", "remove", "replace", "override", "default", "bogus"]),
                "header": *rng.pick(&["X-Foo", "x-foo", "Location", "X-Bar"]),
                "value": *rng.pick(&["v1", "v2", "@m", "/a"]),
            });
            if rng.chance(80) {
                f["id"] = json!(*rng.pick(&["u4", "u5", "u6"]));
                if rng.chance(80) {
                    f["target_hash"] = json!(*rng.pick(&["th-h1", "th-h2", "th-loc"]));
                }
            }
            filters.push(f);
        }
        rule["header_filters"] = json!(filters);
    }
    if rng.chance(30) {
        let mut filters = Vec::new();
        for _ in 0..(1 + rng.below(2)) {
            if rng.chance(40) {
                let mut f = json!({"action": *rng.pick(&["append_text", "prepend_text", "replace_text"]), "content": *rng.pick(&["TXT", "é@m"])});
                if rng.chance(80) {
                    f["id"] = json!(*rng.pick(&["u7", "u8"]));
                }
                filters.push(f);
            } else {
                let mut f = json!({
                    "action": *rng.pick(&["append_child", "prepend_child", "replace", "nope"]),
                    "value": *rng.pick(&["<meta name=\"a\" />", "<p>@m</p>", "<title>t</title>"]),
                    "element_tree": *rng.pick(&[vec!["html", "head"], vec!["html", "body"], vec!["html"], vec!["html", "head", "title"]]),
                });
                if rng.chance(40) {
                    f["css_selector"] = json!(*rng.pick(&["meta[name=\"a\"]", "", "p", "title"]));
                }
                if rng.chance(80) {
                    f["id"] = json!(*rng.pick(&["u7", "u8"]));
                    if rng.chance(70) {
                        f["target_hash"] = json!(*rng.pick(&["th-b1", "th-b2"]));
                    }
                }
                filters.push(f);
            }
        }
        rule["body_filters"] = json!(filters);
    }
    if rng.chance(25) {
        rule["log_override"] = json!(rng.chance(50));
        if rng.chance(80) {
            rule["configuration_log_unit_id"] = json!(*rng.pick(&["u1", "u4", "u7"]));
        }
    }
    if rng.chance(10) {
        rule["reset"] = json!(true);
        rule["configuration_reset_unit_id"] = json!("u8");
    }
    if rng.chance(10) {
        rule["stop"] = json!(true);
        rule["configuration_reset_unit_id"] = json!("u8");
    }
    let mut examples = Vec::new();
    for _ in 0..rng.below(4) {
        examples.push(gen_example(rng));
    }
    if rng.chance(85) {
        rule["examples"] = json!(examples);
    }
    rule
}

fn gen_config(rng: &mut Rng) -> Value {
    json!({
        "always_match_any_host": rng.chance(50),
        "ignore_header_case": rng.chance(50),
        "ignore_host_case": rng.chance(50),
        "ignore_marketing_query_params": rng.chance(50),
        "ignore_path_and_query_case": rng.chance(50),
        "marketing_query_params": ["utm_source", "utm_medium"],
        "pass_marketing_query_params_to_target": rng.chance(50),
    })
}

fn shuffled(rng: &mut Rng, v: &Value) -> Value {
    let mut items = v.as_array().unwrap().clone();
    for i in (1..items.len()).rev() {
        let j = rng.below(i as u64 + 1) as usize;
        items.swap(i, j);
    }
    Value::Array(items)
}

fn sort_seen(v: &mut Value) {
    match v {
        Value::Object(o) => {
            for (k, child) in o.iter_mut() {
                if k == "unit_ids_seen" {
                    if let Some(a) = child.as_array_mut() {
                        a.sort_by(|x, y| x.as_str().cmp(&y.as_str()));
                    }
                } else {
                    sort_seen(child);
                }
            }
        }
        Value::Array(a) => {
            for child in a.iter_mut() {
                sort_seen(child);
            }
        }
        _ => {}
    }
}

fn without_traces(v: &Value) -> Value {
    let mut v = v.clone();
    if let Some(o) = v.as_object_mut() {
        o.remove("match_traces");
    }
    sort_seen(&mut v);
    v
}

fn norm(v: &Value) -> Value {
    let mut v = v.clone();
    sort_seen(&mut v);
    if let Some(impacts) = v.get_mut("impacts").and_then(|i| i.as_array_mut()) {
        for i in impacts {
            i.as_object_mut().unwrap().remove("match_traces");
        }
    }
    v
}

/// what a proxy does with the library, from a request built without Request::from_example
fn pipeline(router: &Router<Rule>, example: &Value) -> Option<Value> {
    let url = example["url"].as_str().unwrap();
    let (scheme, rest) = match url.find("://") {
        Some(p) => (Some(url[..p].to_string()), &url[p + 3..]),
        None => (None, url),
    };
    let (host, path) = if scheme.is_some() {
        match rest.find('/') {
            Some(p) => (Some(rest[..p].to_string()), rest[p..].to_string()),
            None => (Some(rest.to_string()), "/".to_string()),
        }
    } else {
        (None, rest.to_string())
    };
    let path = redirectionio::http::sanitize_url(path.as_str());
    let method = example["method"].as_str().map(|s| s.to_string());
    let ip = example["ip_address"].as_str().and_then(|s| s.parse().ok());
    let mut request = Request::from_config(&router.config, path, host, scheme, method, ip, None);
    if let Some(headers) = example["headers"].as_array() {
        for h in headers {
            request.add_header(
                h["name"].as_str().unwrap().to_string(),
                h["value"].as_str().unwrap().to_string(),
                router.config.ignore_header_case,
            );
        }
    }
    match example["datetime"].as_str() {
        Some(d) => {
            if d.parse::<chrono::DateTime<chrono::Utc>>().is_err() {
                return None; // time dependent
            }
            request.set_created_at(Some(d.to_string()));
        }
        None => {
            // created_at is "now": fix it so that both sides see the same instant? cannot for analyses, skip checks on time
        }
    }

    let routes = router.match_request(&request);
    let action = Action::from_routes_rule(routes, &request, None);
    // the agent hands the action over to the proxy as json
    let mut action: Action = serde_json::from_str(serde_json::to_string(&action).unwrap().as_str()).unwrap();
    let mut status = action.get_status_code(0, None);
    let backend;
    if status != 0 {
        backend = status;
    } else {
        backend = match example["response_status_code"].as_u64() {
            Some(0) | None => 200,
            Some(c) => c as u16,
        };
        status = action.get_status_code(backend, None);
    }
    let headers = action.filter_headers(Vec::new(), backend, false, None);
    let mut body: Vec<u8> = "<!DOCTYPE html>\n<html>\n    <head>\n    </head>\n    <body>\n    </body>\n</html>".into();
    if let Some(mut f) = action.create_filter_body(backend, &[]) {
        let mut b = f.filter(body.clone(), None);
        b.extend(f.end(None));
        body = b;
    }
    let client_status = if status != 0 { status } else { backend };
    let log = action.should_log_request(true, client_status, None);
    let applied: Vec<String> = action.get_applied_rule_ids().iter().cloned().collect();
    Some(json!({
        "status_code": status,
        "backend_status_code": backend,
        "headers": serde_json::to_value(&headers).unwrap(),
        "body": String::from_utf8(body).unwrap(),
        "should_log_request": log,
        "rules_applied": applied,
    }))
}

fn uses_time(rule_list: &Value) -> bool {
    rule_list.as_array().unwrap().iter().any(|r| {
        let s = &r["source"];
        s.get("datetime").is_some() || s.get("time").is_some() || s.get("weekdays").is_some()
    })
}

#[test]
fn fuzz_project_vs_standalone() {
    let seeds: u64 = std::env::var("AUDIT_SEEDS").ok().and_then(|s| s.parse().ok()).unwrap_or(300);
    let mut problems = 0;
    for seed in 1..=seeds {
        let mut rng = Rng(seed.wrapping_mul(0x9E3779B97F4A7C15) | 1);
        BASE_MODE.with(|m| m.set((seed % 3) as u8));
        let cfg = gen_config(&mut rng);
        let n = 1 + rng.below(8);
        let mut base = Vec::new();
        for i in 0..n {
            base.push(gen_rule(&mut rng, format!("r{i}").as_str()));
        }
        // change-set
        let mut after = Vec::new();
        let mut added = Vec::new();
        let mut updated = Vec::new();
        let mut deleted = Vec::new();
        for (i, r) in base.iter().enumerate() {
            match rng.below(5) {
                0 => deleted.push(json!(format!("r{i}"))),
                1 => {
                    let u = gen_rule(&mut rng, format!("r{i}").as_str());
                    updated.push(u.clone());
                    after.push(u);
                }
                _ => after.push(r.clone()),
            }
        }
        for i in 0..rng.below(3) {
            let a = gen_rule(&mut rng, format!("n{i}").as_str());
            added.push(a.clone());
            after.push(a);
        }
        let base = Value::Array(base);
        let after = Value::Array(after);
        let cs = json!({"added": added, "updated": updated, "deleted": deleted});
        let after_shuffled = shuffled(&mut rng, &after);

        if uses_time(&after) {
            // rules bound to the clock: examples without datetime see "now"; keep them, both sides run within the same second mostly
        }

        // unit ids
        let up = unit_ids_project(&cfg, &base, &cs);
        let us = unit_ids_standalone(&cfg, &after, );
        let us2 = unit_ids_standalone(&cfg, &after_shuffled);
        if up != us || us != us2 {
            problems += 1;
            println!("seed {seed}: unit ids differ\n cfg={cfg}\n base={base}\n cs={cs}\n project={up}\n standalone={us}\n shuffled={us2}");
        }

        // test examples
        let tp = test_examples_project(&cfg, &base, &cs, 5);
        let ts = test_examples_standalone(&cfg, &after, 5);
        let ts2 = test_examples_standalone(&cfg, &after_shuffled, 5);
        if tp != ts || ts != ts2 {
            problems += 1;
            println!("seed {seed}: test examples differ\n cfg={cfg}\n base={base}\n cs={cs}\n project={tp}\n standalone={ts}\n shuffled={ts2}");
        }

        // explain + pipeline for every example of the resulting list
        let router_after = router_of(&cfg, &after);
        for r in after.as_array().unwrap() {
            if let Some(examples) = r["examples"].as_array() {
                for e in examples {
                    let mut e = e.clone();
                    if e.get("unit_ids_applied").is_none() {
                        e["unit_ids_applied"] = Value::Null;
                    }
                    let p = explain_project(&cfg, &base, &cs, &e, 5);
                    let s = explain_standalone(&cfg, &after, &e, 5);
                    let s2 = explain_standalone(&cfg, &after_shuffled, &e, 5);
                    if without_traces(&p) != without_traces(&s) || without_traces(&s) != without_traces(&s2) {
                        problems += 1;
                        println!("seed {seed}: explain differ\n cfg={cfg}\n base={base}\n cs={cs}\n example={e}\n project={}\n standalone={}\n shuffled={}", without_traces(&p), without_traces(&s), without_traces(&s2));
                    }
                    if s.get("error").is_some() {
                        continue;
                    }
                    if e.get("datetime").is_none() && uses_time(&after) {
                        continue;
                    }
                    if let Some(pl) = pipeline(router_after.as_ref(), &e) {
                        let got = json!({
                            "status_code": s["response"]["status_code"],
                            "backend_status_code": s["backend_status_code"],
                            "headers": s["response"]["headers"],
                            "body": s["response"]["body"],
                            "should_log_request": s["should_log_request"],
                        });
                        let mut want = pl.clone();
                        want.as_object_mut().unwrap().remove("rules_applied");
                        let mut a: Vec<String> = serde_json::from_value(pl["rules_applied"].clone()).unwrap();
                        let mut b: Vec<String> = serde_json::from_value(s["unit_trace"]["rule_ids_applied"].clone()).unwrap();
                        a.sort();
                        b.sort();
                        if got != want || a != b {
                            problems += 1;
                            println!("seed {seed}: explain vs pipeline\n cfg={cfg}\n rules={after}\n example={e}\n explain={got} rules {b:?}\n pipeline={want} rules {a:?}");
                        }
                    }
                }
            }
        }

        // impact: take the first updated or added rule as the rule under edition
        let kept: Vec<Value> = after.as_array().unwrap().iter().take(1).cloned().collect();
        for (action, list) in [("update", &updated), ("add", &added), ("delete", &kept)] {
            if let Some(rule) = list.first() {
                let ip = impact_project(&cfg, &base, &cs, rule, action, 5);
                let is = impact_standalone(&cfg, &after, rule, action, 5);
                let is2 = impact_standalone(&cfg, &after_shuffled, rule, action, 5);
                if norm(&ip) != norm(&is) || norm(&is) != norm(&is2) {
                    problems += 1;
                    println!("seed {seed}: impact differ\n cfg={cfg}\n base={base}\n cs={cs}\n rule={rule}\n project={ip}\n standalone={is}\n shuffled={is2}");
                }
            }
        }
        if problems > 5 {
            break;
        }
    }
    assert_eq!(problems, 0);
}

// ---------------------------------------------------------------------------------------------
// T2: request_method variable with an example that has no method
// ---------------------------------------------------------------------------------------------
#[test]
fn t2_method_variable_without_method() {
    let cfg = default_config_json();
    let rs = json!([
        {"id":"r1","rank":0,"source":{"path":"/a"},"status_code":302,"target":"/to/@meth",
         "variables":[{"name":"meth","type":"request_method"}]}
    ]);
    let example = json!({"url": "http://example.org/a", "must_match": true, "unit_ids_applied": []});
    let s = explain_standalone(&cfg, &rs, &example, 5);
    println!("response.headers = {}", s["response"]["headers"]);
    println!("loop = {}", s["redirection_loop"]);

    // live GET request
    let router = router_of(&cfg, &rs);
    let request = Request::from_config(&router.config, "/a".to_string(), Some("example.org".to_string()), Some("http".to_string()), Some("GET".to_string()), None, None);
    let mut action = Action::from_routes_rule(router.match_request(&request), &request, None);
    let status = action.get_status_code(0, None);
    let headers = action.filter_headers(Vec::new(), status, false, None);
    println!("pipeline headers = {}", serde_json::to_string(&headers).unwrap());
    assert_eq!(s["response"]["headers"][0]["value"], json!(headers[0].value));
}

// ---------------------------------------------------------------------------------------------
// T3: a rule applied only through its log override bound to the status the client receives
// ---------------------------------------------------------------------------------------------
#[test]
fn t3_rule_applied_by_log_only() {
    let cfg = default_config_json();
    let rs = json!([
        {"id":"r-redirect","rank":1,"source":{"path":"/a","response_status_codes":[404]},"status_code":301,"target":"/b","redirect_unit_id":"u-redirect","target_hash":"th"},
        {"id":"r-log","rank":0,"source":{"path":"/a","response_status_codes":[301]},"log_override":false,"configuration_log_unit_id":"u-log",
         "examples":[{"url":"/a","response_status_code":404,"must_match":true,"unit_ids_applied":["u-log"]}]}
    ]);
    let example = json!({"url":"/a","response_status_code":404,"must_match":true,"unit_ids_applied":["u-log"]});
    let s = explain_standalone(&cfg, &rs, &example, 5);
    println!("explain: status={} backend={} log={} unit_trace={}", s["response"]["status_code"], s["backend_status_code"], s["should_log_request"], s["unit_trace"]);

    let router = router_of(&cfg, &rs);
    let p = pipeline(router.as_ref(), &example).unwrap();
    println!("pipeline: {}", p);

    let t = test_examples_standalone(&cfg, &rs, 5);
    println!("test examples: example_count={} failure_count={}", t["example_count"], t["failure_count"]);
    println!("failures: {}", t["first_ten_failures"]["r-log"]["failed_examples"]);

    let mut a: Vec<String> = serde_json::from_value(p["rules_applied"].clone()).unwrap();
    let mut b: Vec<String> = serde_json::from_value(s["unit_trace"]["rule_ids_applied"].clone()).unwrap();
    a.sort();
    b.sort();
    assert_eq!(a, b, "rule ids applied: pipeline vs explain");
}

// ---------------------------------------------------------------------------------------------
// T4: more than ten failing rules
// ---------------------------------------------------------------------------------------------
#[test]
fn t4_first_ten_failures() {
    let cfg = default_config_json();
    let mut rs = Vec::new();
    for i in 0..14 {
        rs.push(json!({"id": format!("r{i:02}"), "rank": 0, "source": {"path": format!("/p{i}")}, "status_code": 301, "target": "/t",
            "examples": [
                {"url": format!("/nope{i}"), "must_match": true, "unit_ids_applied": []},
                {"url": format!("/nope{i}b"), "must_match": true, "unit_ids_applied": []}
            ]}));
    }
    let rs = Value::Array(rs);
    let mut seen = std::collections::BTreeSet::new();
    for _ in 0..6 {
        let t = test_examples_standalone(&cfg, &rs, 5);
        let mut keys: Vec<String> = t["first_ten_failures"].as_object().unwrap().keys().cloned().collect();
        keys.sort();
        println!("failure_count={} listed rules={} {:?}", t["failure_count"], keys.len(), keys);
        seen.insert(keys.join(","));
    }
    let p = test_examples_project(&cfg, &rs, &empty_cs(), 5);
    let mut keys: Vec<String> = p["first_ten_failures"].as_object().unwrap().keys().cloned().collect();
    keys.sort();
    println!("project: listed rules={} {:?}", keys.len(), keys);
    let sizes: Vec<usize> = p["first_ten_failures"].as_object().unwrap().values().map(|r| r["failed_examples"].as_array().unwrap().len()).collect();
    println!("project: failed examples listed per rule {:?}", sizes);
    assert_eq!(keys.len(), 10, "first_ten_failures lists ten rules");
    assert_eq!(seen.len(), 1, "same input, same list");
}

// ---------------------------------------------------------------------------------------------
// T5: redirect chain through a target with a fragment
// ---------------------------------------------------------------------------------------------
#[test]
fn t5_loop_with_fragment() {
    let cfg = default_config_json();
    let rs = json!([
        {"id":"r1","rank":0,"source":{"path":"/old"},"status_code":301,"target":"/new#section"},
        {"id":"r2","rank":0,"source":{"path":"/new"},"status_code":301,"target":"/old"}
    ]);
    for url in ["http://example.org/old", "/old"] {
        let s = explain_standalone(&cfg, &rs, &ex(url), 10);
        println!("{url}: loop = {}", s["redirection_loop"]);
    }
    let s = explain_standalone(&cfg, &rs, &ex("http://example.org/old"), 10);
    assert_eq!(s["redirection_loop"]["error"], json!("Loop"));
}

// ---------------------------------------------------------------------------------------------
// T6: first url of the chain is not normalised like the following ones
// ---------------------------------------------------------------------------------------------
#[test]
fn t6_loop_initial_url_form() {
    let cfg = default_config_json();
    let rs = json!([
        {"id":"r1","rank":0,"source":{"path":"/"},"status_code":301,"target":"/"}
    ]);
    for (url, hops) in [("http://example.org/", 1u8), ("http://example.org", 1), ("http://EXAMPLE.org/", 1), ("http://example.org:80/", 1), ("http://example.org", 2)] {
        let s = explain_standalone(&cfg, &rs, &ex(url), hops);
        println!("{url} max_hops={hops}: loop = {}", s["redirection_loop"]);
    }
}

// ---------------------------------------------------------------------------------------------
// T7: order of unit_ids_seen
// ---------------------------------------------------------------------------------------------
#[test]
fn t7_unit_ids_seen_order() {
    let cfg = default_config_json();
    let rs = json!([
        {"id":"r1","rank":0,"source":{"path":"/a"},"status_code":301,"target":"/b","redirect_unit_id":"u1","target_hash":"th-loc",
         "header_filters":[
            {"action":"add","header":"X-A","value":"a","id":"u2","target_hash":"th-a"},
            {"action":"add","header":"X-B","value":"b","id":"u3","target_hash":"th-b"},
            {"action":"add","header":"X-C","value":"c","id":"u4","target_hash":"th-c"}
         ]}
    ]);
    let mut seen = std::collections::BTreeSet::new();
    for _ in 0..20 {
        let s = explain_standalone(&cfg, &rs, &ex("/a"), 5);
        seen.insert(s["unit_trace"]["unit_ids_seen"].to_string());
    }
    println!("{:?}", seen);
    assert_eq!(seen.len(), 1);
}

// ---------------------------------------------------------------------------------------------
// T8: unit attribution when the fallback of a merged status / log applies
// ---------------------------------------------------------------------------------------------
#[test]
fn t8_fallback_units() {
    let cfg = default_config_json();
    let rs = json!([
        {"id":"r-always","rank":1,"source":{"path":"/a"},"status_code":301,"target":"/b","redirect_unit_id":"u-always","target_hash":"th1","log_override":true,"configuration_log_unit_id":"u-log-always"},
        {"id":"r-404","rank":0,"source":{"path":"/a","response_status_codes":[404]},"status_code":302,"target":"/c","redirect_unit_id":"u-404","target_hash":"th1","log_override":false,"configuration_log_unit_id":"u-log-404"}
    ]);
    for code in [200, 404] {
        let example = json!({"url":"/a","response_status_code":code,"must_match":true,"unit_ids_applied":[]});
        let s = explain_standalone(&cfg, &rs, &example, 5);
        println!("\nbackend {code}: status={} headers={} log={} trace={}", s["response"]["status_code"], s["response"]["headers"], s["should_log_request"], s["unit_trace"]);
    }
}

// ---------------------------------------------------------------------------------------------
// T9: unit attribution of a merged log override
// ---------------------------------------------------------------------------------------------
#[test]
fn t9_log_units() {
    let cfg = default_config_json();
    let rs = json!([
        {"id":"r-always","rank":1,"source":{"path":"/a"},"log_override":true,"configuration_log_unit_id":"u-log-always"},
        {"id":"r-404","rank":0,"source":{"path":"/a","response_status_codes":[404]},"log_override":false,"configuration_log_unit_id":"u-log-404"}
    ]);
    for code in [200, 404] {
        let example = json!({"url":"/a","response_status_code":code,"must_match":true,"unit_ids_applied":[]});
        let s = explain_standalone(&cfg, &rs, &example, 5);
        println!("\nbackend {code}: log={} trace={}", s["should_log_request"], s["unit_trace"]);
    }
}

// ---------------------------------------------------------------------------------------------
// T10: sampled rule
// ---------------------------------------------------------------------------------------------
#[test]
fn t10_sampling() {
    let cfg = default_config_json();
    let rs = json!([
        {"id":"r1","rank":0,"source":{"path":"/a","sampling":50},"status_code":301,"target":"/b",
         "examples":[{"url":"/a","must_match":true,"unit_ids_applied":[]}]}
    ]);
    let mut statuses = std::collections::BTreeSet::new();
    let mut failures = std::collections::BTreeSet::new();
    let mut inconsistent = 0;
    for _ in 0..40 {
        let p = explain_project(&cfg, &rs, &empty_cs(), &ex("/a"), 5);
        let s = explain_standalone(&cfg, &rs, &ex("/a"), 5);
        statuses.insert(s["response"]["status_code"].as_u64().unwrap());
        if p["response"] != s["response"] {
            inconsistent += 1;
        }
        // within one output: response says "no redirect" while the loop analysis follows the redirect, or the reverse
        let hops = s["redirection_loop"]["hops"].as_array().unwrap().len();
        if (s["response"]["status_code"] == json!(301)) != (hops > 1) {
            inconsistent += 1;
        }
        failures.insert(test_examples_standalone(&cfg, &rs, 5)["failure_count"].as_u64().unwrap());
    }
    println!("statuses seen {statuses:?}, failure counts seen {failures:?}, inconsistent pairs {inconsistent}");
    assert_eq!(statuses.len(), 1);
}

// ---------------------------------------------------------------------------------------------
// Cross-analysis: test-examples and unit-ids derived from explain
// ---------------------------------------------------------------------------------------------
#[test]
fn fuzz_cross_analyses() {
    let seeds: u64 = std::env::var("AUDIT_SEEDS").ok().and_then(|s| s.parse().ok()).unwrap_or(300);
    let mut problems = 0;
    for seed in 1..=seeds {
        let mut rng = Rng(seed.wrapping_mul(0xD1B54A32D192ED03) | 1);
        let cfg = gen_config(&mut rng);
        let n = 1 + rng.below(8);
        let mut list = Vec::new();
        for i in 0..n {
            list.push(gen_rule(&mut rng, format!("r{i}").as_str()));
        }
        for r in list.iter_mut() {
            let src = r["source"].as_object_mut().unwrap();
            src.remove("datetime");
            src.remove("time");
            src.remove("weekdays");
        }
        let list = Value::Array(list);
        let t = test_examples_standalone(&cfg, &list, 5);
        let u = unit_ids_standalone(&cfg, &list);
        let mut example_count = 0;
        let mut failure_count = 0;
        let mut error_count = 0;
        for r in list.as_array().unwrap() {
            let id = r["id"].as_str().unwrap();
            let log_unit = r.get("configuration_log_unit_id").and_then(|v| v.as_str());
            if let Some(examples) = r["examples"].as_array() {
                for (idx, e) in examples.iter().enumerate() {
                    let mut e = e.clone();
                    if e.get("unit_ids_applied").is_none() {
                        e["unit_ids_applied"] = Value::Null;
                    }
                    let s = explain_standalone(&cfg, &list, &e, 5);
                    if s.get("error").is_some() {
                        if !e["unit_ids_applied"].is_null() {
                            error_count += 1;
                        }
                        continue;
                    }
                    let applied: Vec<String> = serde_json::from_value(s["unit_trace"]["unit_ids_applied"].clone()).unwrap();
                    let rule_ids: Vec<String> = serde_json::from_value(s["unit_trace"]["rule_ids_applied"].clone()).unwrap();
                    // unit ids analysis
                    let got: Vec<String> = serde_json::from_value(u["rules"][id]["examples"][idx]["unit_ids_applied"].clone()).unwrap();
                    if got != applied {
                        let all_logs = serde_json::to_string(&list).unwrap();
                        let only_log_units = applied.iter().filter(|x| !got.contains(x)).all(|x| all_logs.contains(format!("\"configuration_log_unit_id\":\"{x}\"").as_str()));
                        if !(only_log_units && got.iter().all(|x| applied.contains(x))) {
                            problems += 1;
                            println!("seed {seed}: unit ids {got:?} vs explain {applied:?}\n cfg={cfg}\n rules={list}\n example={e} log_unit={log_unit:?}");
                        }
                    }
                    if e["unit_ids_applied"].is_null() {
                        continue;
                    }
                    example_count += 1;
                    let expected: Vec<String> = serde_json::from_value(e["unit_ids_applied"].clone()).unwrap();
                    let missing = expected.iter().any(|x| !applied.contains(x));
                    let contains = rule_ids.iter().any(|x| x == id);
                    let must_match = e["must_match"].as_bool().unwrap();
                    let mut failed = (must_match && (missing || !contains)) || (!must_match && contains);
                    if !failed {
                        let err = s["redirection_loop"]["error"].as_str().unwrap_or("");
                        failed = err == "Loop" || err == "TooManyHops";
                    }
                    if failed {
                        failure_count += 1;
                    }
                }
            }
        }
        if json!(example_count) != t["example_count"] || json!(failure_count) != t["failure_count"] || json!(error_count) != t["error_count"] {
            problems += 1;
            println!("seed {seed}: counts from explain ({example_count}, {failure_count}, {error_count}) vs test examples ({}, {}, {})\n cfg={cfg}\n rules={list}", t["example_count"], t["failure_count"], t["error_count"]);
        }
        if problems > 3 {
            break;
        }
    }
    assert_eq!(problems, 0);
}

// ---------------------------------------------------------------------------------------------
// Focused: status / log / filters bound to response codes, one path
// ---------------------------------------------------------------------------------------------
#[test]
fn fuzz_status_conditions() {
    let seeds: u64 = std::env::var("AUDIT_SEEDS").ok().and_then(|s| s.parse().ok()).unwrap_or(2000);
    let cfg = default_config_json();
    let mut kinds = std::collections::BTreeMap::new();
    for seed in 1..=seeds {
        let mut rng = Rng(seed.wrapping_mul(0xA24BAED4963EE407) | 1);
        let mut list = Vec::new();
        for i in 0..(1 + rng.below(4)) {
            let mut source = json!({"path": "/a"});
            if rng.chance(60) {
                source["response_status_codes"] = json!(*rng.pick(&[vec![404], vec![200], vec![301], vec![302, 404], vec![500]]));
                if rng.chance(40) {
                    source["exclude_response_status_codes"] = json!(rng.chance(60));
                }
            }
            let mut rule = json!({"id": format!("r{i}"), "rank": rng.below(3), "source": source});
            if rng.chance(50) {
                rule["status_code"] = json!(*rng.pick(&[301, 302, 404, 410]));
                if rng.chance(80) {
                    rule["target"] = json!(*rng.pick(&["/b", "/c"]));
                }
            }
            if rng.chance(40) {
                rule["log_override"] = json!(rng.chance(50));
            }
            if rng.chance(30) {
                rule["header_filters"] = json!([{"action": "add", "header": "X-A", "value": format!("v{i}")}]);
            }
            if rng.chance(20) {
                rule["body_filters"] = json!([{"action": "append_text", "content": format!("t{i}")}]);
            }
            if rng.chance(10) {
                rule["reset"] = json!(true);
            }
            if rng.chance(10) {
                rule["stop"] = json!(true);
            }
            list.push(rule);
        }
        let list = Value::Array(list);
        let router = router_of(&cfg, &list);
        for code in [0u16, 200, 404, 301, 302, 500] {
            let mut e = json!({"url": "/a", "must_match": true, "unit_ids_applied": []});
            if code != 0 {
                e["response_status_code"] = json!(code);
            }
            let s = explain_standalone(&cfg, &list, &e, 5);
            let pl = pipeline(router.as_ref(), &e).unwrap();
            let got = json!({
                "status_code": s["response"]["status_code"],
                "backend_status_code": s["backend_status_code"],
                "headers": s["response"]["headers"],
                "body": s["response"]["body"],
                "should_log_request": s["should_log_request"],
            });
            let mut want = pl.clone();
            want.as_object_mut().unwrap().remove("rules_applied");
            let mut a: Vec<String> = serde_json::from_value(pl["rules_applied"].clone()).unwrap();
            let mut b: Vec<String> = serde_json::from_value(s["unit_trace"]["rule_ids_applied"].clone()).unwrap();
            a.sort();
            b.sort();
            if got != want {
                let n = kinds.entry("response").or_insert(0);
                *n += 1;
                if *n <= 2 {
                    println!("seed {seed} code {code}: response\n rules={list}\n explain={got}\n pipeline={want}");
                }
            }
            if a != b {
                if b.iter().any(|x| !a.contains(x)) {
                    *kinds.entry("rule ids: explain has more").or_insert(0) += 1;
                }
                let n = kinds.entry("rule ids").or_insert(0);
                *n += 1;
                if *n <= 3 {
                    println!("seed {seed} code {code}: rule ids explain {b:?} pipeline {a:?}\n rules={list}\n explain={got}");
                }
            }
        }
    }
    println!("{kinds:?}");
    assert!(kinds.is_empty());
}

// ---------------------------------------------------------------------------------------------
// Borderline observations (printed, no assertion)
// ---------------------------------------------------------------------------------------------
#[test]
fn borderline_observations() {
    let cfg = default_config_json();

    // (b1) status 0 reported when no rule changes the status
    let rs = json!([{"id":"r1","rank":0,"source":{"path":"/a"},"header_filters":[{"action":"add","header":"X-A","value":"1"}]}]);
    let e = json!({"url":"/a","response_status_code":404,"must_match":true,"unit_ids_applied":[]});
    let s = explain_standalone(&cfg, &rs, &e, 5);
    println!("(b1) response.status_code={} backend_status_code={}", s["response"]["status_code"], s["backend_status_code"]);

    // (b2) unit ids analysis does not replay the log call
    let rs = json!([{"id":"r1","rank":0,"source":{"path":"/a"},"log_override":false,"configuration_log_unit_id":"u-log",
        "examples":[{"url":"/a","must_match":true,"unit_ids_applied":[]}]}]);
    let u = unit_ids_standalone(&cfg, &rs);
    let s = explain_standalone(&cfg, &rs, &ex("/a"), 5);
    println!("(b2) unit ids analysis: {} / explain: {}", u["rules"]["r1"]["examples"][0]["unit_ids_applied"], s["unit_trace"]["unit_ids_applied"]);

    // (b5) body filter created without the headers the header filters just produced
    let rs = json!([{"id":"r1","rank":0,"source":{"path":"/a"},
        "header_filters":[{"action":"override","header":"Content-Type","value":"application/json"}],
        "body_filters":[{"action":"append_child","value":"<meta name=\"x\" />","element_tree":["html","head"]}]}]);
    let s = explain_standalone(&cfg, &rs, &ex("/a"), 5);
    let router = router_of(&cfg, &rs);
    let request = Request::from_config(&router.config, "/a".to_string(), None, None, Some("GET".to_string()), None, None);
    let mut action = Action::from_routes_rule(router.match_request(&request), &request, None);
    let headers = action.filter_headers(Vec::new(), 200, false, None);
    let with_headers = action.create_filter_body(200, &headers).is_some();
    println!("(b5) explain body changed: {} / a proxy giving the response headers gets a body filter: {}", s["response"]["body"].as_str().unwrap().contains("meta"), with_headers);

    // (b6) request_time variable
    let rs = json!([{"id":"r1","rank":0,"source":{"path":"/a"},"variables":[{"name":"t","type":"request_time"}],
        "header_filters":[{"action":"add","header":"X-T","value":"@t"}]}]);
    let s1 = explain_standalone(&cfg, &rs, &ex("/a"), 5);
    std::thread::sleep(std::time::Duration::from_millis(1100));
    let s2 = explain_project(&cfg, &rs, &empty_cs(), &ex("/a"), 5);
    println!("(b6) {} / {}", s1["response"]["headers"], s2["response"]["headers"]);

    // (b7) 303
    let rs = json!([{"id":"r1","rank":0,"source":{"path":"/a"},"status_code":303,"target":"/a"}]);
    let s = explain_standalone(&cfg, &rs, &ex("/a"), 5);
    println!("(b7) 303 to itself: {}", s["redirection_loop"]);
}

fn collect_routes(traces: &Value, out: &mut std::collections::BTreeSet<String>) {
    for t in traces.as_array().unwrap() {
        if let Some(routes) = t.get("routes").and_then(|r| r.as_array()) {
            for r in routes {
                out.insert(r["id"].as_str().unwrap().to_string());
            }
        }
        collect_routes(&t["children"], out);
    }
}

// ---------------------------------------------------------------------------------------------
// explain: routes of match_traces vs routes matched
// ---------------------------------------------------------------------------------------------
#[test]
fn fuzz_traces_vs_match() {
    let seeds: u64 = std::env::var("AUDIT_SEEDS").ok().and_then(|s| s.parse().ok()).unwrap_or(1500);
    let mut problems = 0;
    for seed in 1..=seeds {
        let mut rng = Rng(seed.wrapping_mul(0x2545F4914F6CDD1D) | 1);
        let cfg = gen_config(&mut rng);
        let mut list = Vec::new();
        for i in 0..(1 + rng.below(8)) {
            list.push(gen_rule(&mut rng, format!("r{i}").as_str()));
        }
        let list = Value::Array(list);
        let router = router_of(&cfg, &list);
        for _ in 0..6 {
            let mut e = gen_example(&mut rng);
            if e.get("unit_ids_applied").is_none() {
                e["unit_ids_applied"] = Value::Null;
            }
            if e.get("datetime").is_none() {
                e["datetime"] = json!("2024-03-05T10:00:00Z");
            }
            let s = explain_standalone(&cfg, &list, &e, 3);
            if s.get("error").is_some() {
                continue;
            }
            let example: Example = serde_json::from_value(e.clone()).unwrap();
            let request = Request::from_example(&router.config, &example).unwrap();
            let matched: std::collections::BTreeSet<String> = router.match_request(&request).iter().map(|r| r.id().to_string()).collect();
            let mut traced = std::collections::BTreeSet::new();
            collect_routes(&s["match_traces"], &mut traced);
            if matched != traced {
                problems += 1;
                if problems <= 3 {
                    println!("seed {seed}: matched {matched:?} traced {traced:?}\n cfg={cfg}\n rules={list}\n example={e}");
                }
            }
        }
    }
    assert_eq!(problems, 0);
}

// ---------------------------------------------------------------------------------------------
// Checks behind the "found correct" list
// ---------------------------------------------------------------------------------------------
#[test]
fn correct_loop_checks() {
    let cfg = default_config_json();
    // POST /a -> 301 /a : (url, POST) then (url, GET) then repeat
    let rs = json!([{"id":"r1","rank":0,"source":{"path":"/a"},"status_code":301,"target":"/a"}]);
    let e = json!({"url":"/a","method":"POST","must_match":true,"unit_ids_applied":[]});
    let s = explain_standalone(&cfg, &rs, &e, 5);
    assert_eq!(s["redirection_loop"]["error"], json!("Loop"));
    assert_eq!(s["redirection_loop"]["hops"].as_array().unwrap().len(), 3);
    // 308 keeps the method: repeat at the first hop
    let rs308 = json!([{"id":"r1","rank":0,"source":{"path":"/a"},"status_code":308,"target":"/a"}]);
    let s = explain_standalone(&cfg, &rs308, &e, 5);
    assert_eq!(s["redirection_loop"]["error"], json!("Loop"));
    assert_eq!(s["redirection_loop"]["hops"].as_array().unwrap().len(), 2);
    // Loop wins over TooManyHops on the last allowed hop; chain longer than the limit is TooManyHops
    let chain = json!([
        {"id":"r1","rank":0,"source":{"path":"/a"},"status_code":301,"target":"/b"},
        {"id":"r2","rank":0,"source":{"path":"/b"},"status_code":301,"target":"/c"},
        {"id":"r3","rank":0,"source":{"path":"/c"},"status_code":301,"target":"/a"}
    ]);
    assert_eq!(explain_standalone(&cfg, &chain, &ex("/a"), 3)["redirection_loop"]["error"], json!("Loop"));
    assert_eq!(explain_standalone(&cfg, &chain, &ex("/a"), 2)["redirection_loop"]["error"], json!("TooManyHops"));
    assert_eq!(explain_standalone(&cfg, &chain, &ex("/a"), 2)["redirection_loop"]["hops"].as_array().unwrap().len(), 3);
    assert_eq!(explain_standalone(&cfg, &chain, &ex("/a"), 0)["redirection_loop"]["hops"].as_array().unwrap().len(), 1);
    assert_eq!(explain_standalone(&cfg, &chain, &ex("/a"), 255)["redirection_loop"]["error"], json!("Loop"));
    assert_eq!(explain_standalone(&cfg, &chain, &ex("http://example.org/a"), 255)["redirection_loop"]["error"], json!("Loop"));
    // growing url, 255 hops
    let grow = json!([{"id":"r1","rank":0,"source":{"path":"/g@m"},"markers":[{"name":"m","regex":".*"}],"status_code":302,"target":"/g@mx"}]);
    let s = explain_standalone(&cfg, &grow, &ex("/g"), 255);
    assert_eq!(s["redirection_loop"]["error"], json!("TooManyHops"));
    assert_eq!(s["redirection_loop"]["hops"].as_array().unwrap().len(), 256);
    // target without host, Location from a header filter, project domains
    let misc = json!([
        {"id":"r1","rank":0,"source":{"path":"/m"},"status_code":301,"target":"mailto:a@example.org"},
        {"id":"r2","rank":0,"source":{"path":"/h"},"status_code":302,"header_filters":[{"action":"override","header":"location","value":"/h"}]},
        {"id":"r3","rank":0,"source":{"path":"/out"},"status_code":302,"target":"http://elsewhere.net/out"}
    ]);
    let s = explain_standalone(&cfg, &misc, &ex("http://example.org/m"), 5);
    println!("mailto: {}", s["redirection_loop"]);
    let s = explain_standalone(&cfg, &misc, &ex("http://example.org/h"), 5);
    assert_eq!(s["redirection_loop"]["error"], json!("Loop"));
    let input: ExplainRequestInput = serde_json::from_value(json!({"router_config": cfg, "example": ex("http://example.org/out"), "rules": misc, "max_hops": 5, "project_domains": ["example.org"]})).unwrap();
    let s = serde_json::to_value(ExplainRequestOutput::create_result_without_project(input).ok().unwrap()).unwrap();
    println!("out of project: {}", s["redirection_loop"]);
    assert_eq!(s["redirection_loop"]["hops"].as_array().unwrap().len(), 2);
    assert_eq!(s["redirection_loop"]["error"], Value::Null);
}

#[test]
fn correct_change_set_checks() {
    // delete and recreate an id in one change-set; empty an ignore-case regex tree and refill it
    let mut c = default_config_json();
    c["ignore_path_and_query_case"] = json!(true);
    c["ignore_host_case"] = json!(true);
    let m = json!([{"name":"m","regex":"[a-z]+"}]);
    let base = json!([
        {"id":"r1","rank":0,"source":{"host":"@m.Example.org","path":"/Foo/@m"},"markers":m,"status_code":301,"target":"/one/@m",
         "examples":[{"url":"http://www.example.org/foo/bar","must_match":true,"unit_ids_applied":[]}]}
    ]);
    let recreated = json!([
        {"id":"r1","rank":0,"source":{"host":"@m.Example.org","path":"/Bar/@m"},"markers":m,"status_code":302,"target":"/two/@m",
         "examples":[{"url":"http://WWW.example.org/BAR/Baz","must_match":true,"unit_ids_applied":[]}]}
    ]);
    let cs = json!({"added": recreated, "updated": [], "deleted": ["r1"]});
    for url in ["http://WWW.example.org/BAR/Baz", "http://www.example.org/foo/bar", "http://www.example.org/bar/x"] {
        let p = explain_project(&c, &base, &cs, &ex(url), 3);
        let s = explain_standalone(&c, &recreated, &ex(url), 3);
        assert_eq!(without_traces(&p), without_traces(&s), "{url}");
        println!("{url}: {}", p["response"]);
    }
    assert_eq!(test_examples_project(&c, &base, &cs, 3), test_examples_standalone(&c, &recreated, 3));
    assert_eq!(unit_ids_project(&c, &base, &cs), unit_ids_standalone(&c, &recreated));
    assert_eq!(
        norm(&impact_project(&c, &base, &cs, &recreated[0], "update", 3)),
        norm(&impact_standalone(&c, &recreated, &recreated[0], "update", 3))
    );
}
