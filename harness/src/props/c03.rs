//! C03 — body filtering is invariant under chunking of the response stream.
use crate::bodyfilter::*;
use crate::dom::*;
use crate::engine::*;
use crate::known;
use crate::props::c15;
use proptest::prelude::*;
use serde::{Deserialize, Serialize};
use serde_json::{json, Value};

pub const D7: &str = "d7-chunk-cut-inside-comment-or-raw-text";

#[derive(Serialize, Deserialize, Clone, Debug, PartialEq)]
pub struct Case {
    pub body: String,
    pub filters: Vec<Value>,
    pub content_type: u8,
    /// extra schedules beyond the enumerated ones
    pub schedules: Vec<Schedule>,
    /// replay of a known-finding witness: do not exclude anything
    #[serde(default)]
    pub no_exclusions: bool,
}

pub fn all_schedules(n: usize, extra: &[Schedule]) -> Vec<Schedule> {
    let mut v = vec![Schedule::Stride(7), Schedule::Stride(10), Schedule::Stride(4096), Schedule::Stride(512)];
    if n <= 2000 {
        v.push(Schedule::Bytewise);
    }
    if n <= 600 {
        v.extend((0..=n).map(Schedule::Two));
    } else {
        v.extend((0..=200).map(|i| Schedule::Two(i * n / 200)));
    }
    v.extend(extra.iter().cloned());
    v
}

pub fn check(case: &Case) -> Outcome {
    let mut out = Outcome::new();
    out.evals = 0;
    let body = case.body.as_bytes();
    let headers = c15::headers_for(case.content_type);
    let single = run_schedule(&case.filters, &headers, body, &Schedule::Whole);
    let exclude_d7 = !case.no_exclusions && known::is_listed("C03", D7);
    let zone = if exclude_d7 { d7_zone(body) } else { vec![false; body.len() + 1] };
    if exclude_d7 && d7_zone_created_by_chain(&case.filters, &headers, body) {
        // the same finding, one stage further down the chain: excluded by construction while it is listed, and counted
        out.class("excluded:D7-zone-created-by-an-earlier-filter");
        out.evals = 1;
        return out;
    }
    let sp = spans(body);
    let changed = single.out != body;
    let mut interesting_cut = false;
    for s in all_schedules(body.len(), &case.schedules) {
        let cuts = cut_positions(body.len(), &s);
        if cuts.iter().any(|c| zone[(*c).min(body.len())]) {
            out.class("excluded:cut-in-D7-zone");
            continue;
        }
        out.evals += 1;
        let r = run_schedule(&case.filters, &headers, body, &s);
        if r.out != single.out {
            out.fail(format!(
                "filters {} on body {:?}: schedule {:?} (chunks {:?}) gives {:?}, the single chunk gives {:?}",
                Value::from(case.filters.clone()),
                case.body,
                s,
                chunks(body, &s).iter().map(|c| String::from_utf8_lossy(c).to_string()).collect::<Vec<_>>(),
                String::from_utf8_lossy(&r.out),
                String::from_utf8_lossy(&single.out)
            ));
            return out;
        }
        if let Schedule::Two(c) = s {
            let cl = cut_class(body, &sp, c);
            if matches!(cl, "inside-tag" | "inside-attribute-value" | "inside-multibyte-char" | "inside-comment" | "inside-raw-text" | "inside-cdata") {
                interesting_cut = true;
            }
            out.class(match cl {
                "inside-tag" => "cut:inside-tag",
                "inside-attribute-value" => "cut:inside-attribute-value",
                "inside-multibyte-char" => "cut:inside-multibyte-char",
                "inside-text" => "cut:inside-text",
                "inside-comment" => "cut:inside-comment",
                "inside-raw-text" => "cut:inside-raw-text",
                "inside-cdata" => "cut:inside-cdata",
                _ => "cut:token-boundary",
            });
        }
    }
    if out.evals == 0 {
        out.evals = 1;
    }
    if changed {
        out.class("filters-acted");
    }
    out.nontrivial = changed && interesting_cut;
    out
}

fn text_filter_strategy() -> BoxedStrategy<Value> {
    (pick(vec!["append_text", "prepend_text", "replace_text"]), pick(vec!["<!--T-->", "TXT", "<div>t</div>", "é", ""]))
        .prop_map(|(a, c)| json!({"action": a, "content": c, "id": null, "target_hash": null}))
        .boxed()
}

pub fn soup_filter_strategy() -> BoxedStrategy<Value> {
    let path = pick(vec![
        vec!["html"],
        vec!["html", "body"],
        vec!["html", "head"],
        vec!["html", "body", "div"],
        vec!["div"],
        vec!["body", "p"],
        vec!["html", "head", "meta"],
        vec!["ul", "li"],
        vec!["html", "body", "div", "span"],
        vec!["p"],
        vec!["html", "head", "title"],
        vec!["a"],
        vec!["br"],
        vec!["x"],
    ]);
    (pick(vec!["append_child", "prepend_child", "replace"]), path, pick(vec![None, Some(""), Some("span"), Some(".a"), Some("meta[name=\"d\"]"), Some("div > p"), Some(":::bad")]), pick(vec!["<i>INS</i>", "<meta name=\"d\">", "INS", "<div>n</div>", ""]))
        .prop_map(|(a, p, s, v)| json!({"action": a, "value": v, "inner_value": null, "element_tree": p, "css_selector": s, "id": null, "target_hash": null}))
        .boxed()
}

fn schedule_strategy() -> BoxedStrategy<Schedule> {
    prop_oneof![
        4 => prop::collection::vec(0usize..700, 1..6).prop_map(Schedule::Cuts),
        1 => (1usize..5).prop_map(Schedule::Stride),
        1 => (0usize..700).prop_map(|c| Schedule::Cuts(vec![c, c, c])),
    ]
    .boxed()
}

pub fn strategy() -> BoxedStrategy<Case> {
    let from_dom = (c15::strategy(), prop::option::weighted(0.4, (0u8..4, any::<u16>(), any::<u16>())), prop::collection::vec(text_filter_strategy(), 0..2), prop::bool::weighted(0.3)).prop_map(|(c, m, tf, text_first)| {
        let mut body = serialize(&c.doc);
        if let Some((k, a, b)) = m {
            body = mutate(&body, k, a, b);
        }
        let mut filters: Vec<Value> = c.filters.iter().map(|f| f.to_json()).collect();
        if text_first {
            let mut v = tf;
            v.extend(filters);
            filters = v;
        } else {
            filters.extend(tf);
        }
        (body, filters, c.content_type)
    });
    // a start tag longer than any plausible internal limit (5 KB attribute), cut far behind its '<'
    let long_tag = (c15::strategy(), 4000usize..6000).prop_map(|(c, n)| {
        let body = serialize(&c.doc);
        let tag = format!("<{}", c.filters[0].path.last().cloned().unwrap_or_default());
        let body = match body.to_lowercase().find(&tag) {
            Some(i) => format!("{} data-long=\"{}\"{}", &body[..i + tag.len()], "a".repeat(n), &body[i + tag.len()..]),
            None => body,
        };
        (body, c.filters.iter().map(|f| f.to_json()).collect::<Vec<Value>>(), c.content_type)
    });
    let from_soup = (soup_strategy(30), prop::collection::vec(prop_oneof![4 => soup_filter_strategy(), 1 => text_filter_strategy()], 1..4), 0u8..3).prop_map(|(b, f, ct)| (b, f, ct));
    (prop_oneof![30 => from_dom.boxed(), 20 => from_soup.boxed(), 1 => long_tag.boxed()], prop::collection::vec(schedule_strategy(), 2..5))
        .prop_map(|((body, filters, content_type), schedules)| Case { body, filters, content_type, schedules, no_exclusions: false })
        .boxed()
}

pub fn run(ctx: &Ctx) -> Report {
    let mut rep = Report::new(
        "C03",
        "case = body (well-formed generated DOM, structure-breaking mutation of one, or fragment soup incl. half tags, unterminated comments/CDATA, scripts; valid UTF-8) x 1..4 filters (HTML append/prepend/replace with/without selector over paths occurring in the body, text append/prepend/replace) x response headers; \
         schedules: byte-wise, every two-partition (all n+1 cut positions, enumerated for bodies <= 600 bytes), strides 7/10/512/4096, (2 % of the bodies carry a 4-6 KB start tag, cut at 200 evenly spaced positions), generated k-partitions with repeated cut points (empty chunks); oracle = concat(filter(chunk_i)) + end() is byte-identical to the single-chunk run; \
         non-trivial = the single-chunk output differs from the input AND at least one evaluated cut falls strictly inside a tag, an attribute value or a multi-byte character (classified with the real tokenizer on the whole body); distinct by case hash",
    );
    rep.assume("bodies are valid UTF-8 (invalid bytes are C04's subject)");
    if known::is_listed("C03", D7) {
        rep.assume("schedules with a cut inside the zones of known finding D7 (inside a comment / doctype / CDATA token, or between a raw-text start tag and the end of its end tag) are excluded by construction while that finding is listed, and counted; so are chains in which an earlier filter creates such a zone in the input of a later one (markup appended to <title>)");
    } else {
        rep.assume("no cut position is excluded: since D7 was repaired (fix eadbe5a) cuts inside comments, doctypes, CDATA sections and raw-text elements that contain markup are part of every enumerated schedule");
    }
    rep.add(run_part(ctx, "bodies", ctx.cases(30_000, 1_000_000), strategy, check, &[]));
    rep
}

pub fn replay(_part: &str, case: &Value) -> Result<Outcome, String> {
    replay_case::<Case, _>(case, check)
}
