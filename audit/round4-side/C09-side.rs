// Inputs for which the UNCHANGED library violates property C09. Every test below FAILS on the
// unchanged tree. See NOTES.md next to this file for the analysis of each one.
//
// Tests s1, s2, s3 are the findings I consider clearly inside the stated domain.
// Tests s4, s5, s6 are weaker / arguable (see the notes), kept separate on purpose.

use redirectionio::RouterConfig;
use redirectionio::api::Rule;
use redirectionio::http::Request;
use redirectionio::router::Router;

fn config(ignore_case: bool, ignore_marketing: bool) -> RouterConfig {
    serde_json::from_value(serde_json::json!({
        "always_match_any_host": false,
        "ignore_header_case": false,
        "ignore_host_case": false,
        "ignore_marketing_query_params": ignore_marketing,
        "ignore_path_and_query_case": ignore_case,
        "marketing_query_params": ["utm_source"],
        "pass_marketing_query_params_to_target": true
    }))
    .expect("config")
}

/// The rule whose source is the literal path and query of a URL
fn rule_from(url: &str) -> Rule {
    let (path, query) = match url.split_once('?') {
        None => (url, None),
        Some((path, query)) => (path, Some(query)),
    };

    serde_json::from_value(serde_json::json!({
        "id": "rule",
        "rank": 0,
        "source": {"path": path, "query": query},
        "status_code": 301,
        "target": "/target"
    }))
    .expect("rule")
}

/// Does the rule made from `rule_url` match a request for `request_url` (request made by both entry points)
fn matches(config: &RouterConfig, rule_url: &str, request_url: &str) -> (bool, bool) {
    let mut router = Router::<Rule>::from_config(config.clone());
    router.insert(rule_from(rule_url));

    let direct = Request::from_config(config, request_url.to_string(), None, None, None, None, None);
    let rebuilt = router.rebuild_request(&Request::from_config(&RouterConfig::default(), request_url.to_string(), None, None, None, None, None));

    (!router.match_request(&direct).is_empty(), !router.match_request(&rebuilt).is_empty())
}

// s1 - a back quote (U+0060) in the PATH. `http::uri::PathAndQuery` refuses that byte in a path (it
// accepts it in a query), the sanitizer does not escape it, so PathAndQueryWithSkipped::from_config
// takes its "cannot parse url" branch: the query is neither sorted, nor re-encoded, and marketing
// params are not skipped. The rule side does all of that. Both sides then disagree on the URL.
#[test]
fn s1_back_quote_in_the_path_disables_request_normalisation() {
    let config = config(false, true);

    // control: without a query both sides agree
    assert_eq!(matches(&config, "/a`b", "/a`b"), (true, true));

    // a rule does not match its own URL (the query is not sorted on the request side) ...
    assert_eq!(matches(&config, "/a`b?z=1&a=2", "/a`b?z=1&a=2"), (true, true), "rule_from(u) must match req(u)");
    // ... nor its own URL when the value needs to be encoded again ('+' is a space) ...
    assert_eq!(matches(&config, "/a`b?q=x+y", "/a`b?q=x+y"), (true, true), "rule_from(u) must match req(u)");
    // ... the order of the params matters ...
    assert_eq!(matches(&config, "/a`b?a=2&z=1", "/a`b?z=1&a=2"), (true, true), "order of params");
    // ... and so does a marketing param
    assert_eq!(matches(&config, "/a`b", "/a`b?utm_source=x"), (true, true), "marketing params are ignored");
}

// s2 - a value holding an ENCODED PERCENT SIGN. The query is decoded (`%2520` -> `%20`) and encoded
// again with a set that leaves '%' alone, so the decoded value "%20" is written `%20`: exactly what
// the decoded value " " (written `+` or `%20`) gives. Two URLs whose decoded params differ share one
// normal form, and a rule for one matches the other. No '&' or '=' is involved.
#[test]
fn s2_encoded_percent_collides_with_what_it_spells() {
    let config = config(false, false);

    // controls
    assert_eq!(matches(&config, "/p?a=%2520", "/p?a=%2520"), (true, true));
    assert_eq!(matches(&config, "/p?a=x", "/p?a=y"), (false, false));

    // decoded values: "%20" (three characters) on the rule side, " " (a space) on the request side
    assert_eq!(matches(&config, "/p?a=%2520", "/p?a=+"), (false, false), "params differ: '%20' vs ' '");
    assert_eq!(matches(&config, "/p?a=%2520", "/p?a=%20"), (false, false), "params differ: '%20' vs ' '");
    // decoded values: "%22" vs '"', "%2B" vs "+"
    assert_eq!(matches(&config, "/p?a=%2522", "/p?a=%22"), (false, false), "params differ: '%22' vs '\"'");
    assert_eq!(matches(&config, "/p?a=%252B", "/p?a=%2B"), (false, false), "params differ: '%2B' vs '+'");
}

// s3 - boundary value: a path and query of more than 65534 bytes. `http::uri::PathAndQuery` refuses
// it (its offsets are u16), so the request side takes the same "cannot parse url" branch as in s1,
// while the rule side has no such limit.
#[test]
fn s3_url_longer_than_65534_bytes_is_not_normalised() {
    let config = config(false, true);
    let value = "x".repeat(65_600);

    // control: in order, nothing to encode: both sides agree, so length alone is not refused
    assert_eq!(matches(&config, &format!("/p?a={value}&b=1"), &format!("/p?a={value}&b=1")), (true, true));

    assert_eq!(
        matches(&config, &format!("/p?b=1&a={value}"), &format!("/p?b=1&a={value}")),
        (true, true),
        "rule_from(u) must match req(u)"
    );
    assert_eq!(
        matches(&config, &format!("/p?a={value}"), &format!("/p?a={value}&utm_source=x")),
        (true, true),
        "marketing params are ignored"
    );
}

// s4 (arguable) - case flag on, two keys which only differ by letter case. ascii_case_swap(u) swaps
// which key holds which value; keys are ordered by their lower case form with ties left in byte
// order, so the swapped URL gets another normal form.
#[test]
fn s4_case_swap_of_keys_equal_once_lower_cased() {
    let config = config(true, false);

    assert_eq!(matches(&config, "/p?A=1&a=2", "/p?A=1&a=2"), (true, true));
    // ascii_case_swap("/p?A=1&a=2") == "/P?a=1&A=2"
    assert_eq!(matches(&config, "/p?A=1&a=2", "/P?a=1&A=2"), (true, true), "letter case must not matter");
}

// s5 (arguable) - escapes which are not UTF-8. They are decoded lossily to U+FFFD on both sides:
// every such byte gives the same param.
#[test]
fn s5_invalid_utf8_escapes_collide() {
    let config = config(false, false);

    assert_eq!(matches(&config, "/p?a=%FF", "/p?a=%FF"), (true, true));
    assert_eq!(matches(&config, "/p?a=%FF", "/p?a=%FE"), (false, false), "params differ: byte FF vs byte FE");
}

// s6 (arguable) - the URL itself carries a configured marketing param and marketing params are
// ignored: the param is dropped from the request but kept in the rule, which can never match.
#[test]
fn s6_rule_made_from_a_url_with_a_marketing_param_never_matches() {
    assert_eq!(matches(&config(false, false), "/p?utm_source=x", "/p?utm_source=x"), (true, true));
    assert_eq!(matches(&config(false, true), "/p?utm_source=x", "/p?utm_source=x"), (true, true), "rule_from(u) must match req(u)");
}
