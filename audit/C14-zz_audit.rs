// Throw-away audit tests for property C14 (compressed body filtering == plain filtering).
#![cfg(feature = "compress")]
#![allow(dead_code)]

use redirectionio::api::{BodyFilter, HTMLBodyFilter, TextAction, TextBodyFilter};
use redirectionio::filter::FilterBodyAction;
use redirectionio::http::Header;
use std::io::{Read, Write};

fn hdrs(enc: Option<&str>, ct: Option<&str>) -> Vec<Header> {
    let mut v = Vec::new();
    if let Some(e) = enc {
        v.push(Header {
            name: "Content-Encoding".to_string(),
            value: e.to_string(),
        });
    }
    if let Some(c) = ct {
        v.push(Header {
            name: "Content-Type".to_string(),
            value: c.to_string(),
        });
    }
    v
}

fn html_filter(action: &str, tree: &[&str], css: Option<&str>, value: &str) -> BodyFilter {
    BodyFilter::HTML(HTMLBodyFilter {
        action: action.to_string(),
        element_tree: tree.iter().map(|s| s.to_string()).collect(),
        css_selector: css.map(|s| s.to_string()),
        value: value.to_string(),
        id: Some("id".to_string()),
        target_hash: Some("h".to_string()),
        inner_value: None,
    })
}

fn text_filter(action: TextAction, content: &str) -> BodyFilter {
    BodyFilter::Text(TextBodyFilter {
        action,
        content: content.to_string(),
        id: Some("t".to_string()),
        target_hash: None,
    })
}

fn prepend_body() -> Vec<BodyFilter> {
    vec![html_filter("prepend_child", &["html", "body"], Some(""), "<p>INS</p>")]
}

fn gzip(data: &[u8], level: u32) -> Vec<u8> {
    let mut e = flate2::write::GzEncoder::new(Vec::new(), flate2::Compression::new(level));
    e.write_all(data).unwrap();
    e.finish().unwrap()
}

fn zlib(data: &[u8], level: u32) -> Vec<u8> {
    let mut e = flate2::write::ZlibEncoder::new(Vec::new(), flate2::Compression::new(level));
    e.write_all(data).unwrap();
    e.finish().unwrap()
}

fn br(data: &[u8], q: u32, lgwin: u32) -> Vec<u8> {
    let mut out = Vec::new();
    let mut r = brotli::CompressorReader::new(data, 4096, q, lgwin);
    r.read_to_end(&mut out).unwrap();
    out
}

/// strict independent decoders: the whole input must be one complete valid stream
fn ungzip(data: &[u8]) -> Result<Vec<u8>, String> {
    let mut d = flate2::bufread::MultiGzDecoder::new(data);
    let mut out = Vec::new();
    d.read_to_end(&mut out).map_err(|e| format!("gzip: {e}"))?;
    Ok(out)
}

fn unzlib(data: &[u8]) -> Result<Vec<u8>, String> {
    let mut d = flate2::bufread::ZlibDecoder::new(data);
    let mut out = Vec::new();
    d.read_to_end(&mut out).map_err(|e| format!("zlib: {e}"))?;
    if d.total_in() as usize != data.len() {
        return Err(format!("zlib: trailing bytes ({} of {})", d.total_in(), data.len()));
    }
    Ok(out)
}

fn unbr(data: &[u8]) -> Result<Vec<u8>, String> {
    let mut out = Vec::new();
    let mut r = brotli::Decompressor::new(data, 4096);
    r.read_to_end(&mut out).map_err(|e| format!("br: {e}"))?;
    Ok(out)
}

fn dec(enc: &str, data: &[u8]) -> Result<Vec<u8>, String> {
    match enc {
        "gzip" => ungzip(data),
        "deflate" => unzlib(data),
        "br" => unbr(data),
        _ => unreachable!(),
    }
}

fn run(filters: Vec<BodyFilter>, headers: &[Header], chunks: &[&[u8]]) -> Vec<u8> {
    let mut f = FilterBodyAction::new(filters, headers);
    let mut out = Vec::new();
    for c in chunks {
        out.extend(f.filter(c.to_vec(), None));
    }
    out.extend(f.end(None));
    out
}

fn run_plain(filters: Vec<BodyFilter>, ct: Option<&str>, body: &[u8]) -> Vec<u8> {
    run(filters, &hdrs(None, ct), &[body])
}

fn split_at_all<'a>(data: &'a [u8], cuts: &[usize]) -> Vec<&'a [u8]> {
    let mut v = Vec::new();
    let mut last = 0;
    for &c in cuts {
        v.push(&data[last..c]);
        last = c;
    }
    v.push(&data[last..]);
    v
}

fn fixed<'a>(data: &'a [u8], n: usize) -> Vec<&'a [u8]> {
    data.chunks(n).collect()
}

const DOC: &str = "<html><head><title>Tïtle €</title></head><body class=\"page\"><div>Yolo 😀 héhé</div><p>second</p></body></html>";

fn check_all_two_splits(enc: &str, compressed: &[u8], filters: &dyn Fn() -> Vec<BodyFilter>, expected: &[u8], label: &str) -> usize {
    let mut bad = 0;
    for i in 0..=compressed.len() {
        let chunks = split_at_all(compressed, &[i]);
        let out = run(filters(), &hdrs(Some(enc), Some("text/html")), &chunks);
        match dec(enc, &out) {
            Ok(d) if d == expected => {}
            other => {
                bad += 1;
                if bad < 4 {
                    println!(
                        "[{label}] {enc} split at {i}/{}: {:?}",
                        compressed.len(),
                        other.map(|d| String::from_utf8_lossy(&d).to_string())
                    );
                }
            }
        }
    }
    bad
}

#[test]
fn baseline_every_split_and_stride() {
    let expected = run_plain(prepend_body(), Some("text/html"), DOC.as_bytes());
    assert!(String::from_utf8_lossy(&expected).contains("<p>INS</p>"));
    let mut bad = 0;
    for (enc, streams) in [
        ("gzip", vec![gzip(DOC.as_bytes(), 0), gzip(DOC.as_bytes(), 1), gzip(DOC.as_bytes(), 6), gzip(DOC.as_bytes(), 9)]),
        ("deflate", vec![zlib(DOC.as_bytes(), 0), zlib(DOC.as_bytes(), 1), zlib(DOC.as_bytes(), 6), zlib(DOC.as_bytes(), 9)]),
        (
            "br",
            vec![br(DOC.as_bytes(), 0, 10), br(DOC.as_bytes(), 1, 16), br(DOC.as_bytes(), 5, 22), br(DOC.as_bytes(), 11, 24)],
        ),
    ] {
        for s in streams {
            bad += check_all_two_splits(enc, &s, &prepend_body, &expected, "base");
            for n in [1usize, 2, 3, 5, 7, 64] {
                let out = run(prepend_body(), &hdrs(Some(enc), Some("text/html")), &fixed(&s, n));
                match dec(enc, &out) {
                    Ok(d) if d == expected => {}
                    other => {
                        bad += 1;
                        println!("[stride {n}] {enc}: {:?}", other.map(|d| String::from_utf8_lossy(&d).to_string()));
                    }
                }
            }
        }
    }
    assert_eq!(bad, 0);
}

#[test]
fn empty_chunks_anywhere() {
    let expected = run_plain(prepend_body(), Some("text/html"), DOC.as_bytes());
    for (enc, s) in [("gzip", gzip(DOC.as_bytes(), 6)), ("deflate", zlib(DOC.as_bytes(), 6)), ("br", br(DOC.as_bytes(), 5, 22))] {
        let e: &[u8] = &[];
        let mid = s.len() / 2;
        let chunks: Vec<&[u8]> = vec![e, e, &s[..3], e, &s[3..mid], e, e, &s[mid..], e, e];
        let out = run(prepend_body(), &hdrs(Some(enc), Some("text/html")), &chunks);
        assert_eq!(dec(enc, &out).map(|d| String::from_utf8_lossy(&d).to_string()), Ok(String::from_utf8_lossy(&expected).to_string()), "{enc}");
    }
}

#[test]
fn empty_body_valid_stream() {
    // b = "" : enc(b) is a non-empty valid stream
    for (enc, s) in [("gzip", gzip(b"", 6)), ("deflate", zlib(b"", 6)), ("br", br(b"", 5, 22))] {
        for filters in [
            prepend_body as fn() -> Vec<BodyFilter>,
            || vec![text_filter(TextAction::Append, "APP")],
            || vec![text_filter(TextAction::Prepend, "PRE")],
            || vec![text_filter(TextAction::Replace, "REP")],
        ] {
            let expected = run_plain(filters(), Some("text/html"), b"");
            for n in [1usize, 1000] {
                let out = run(filters(), &hdrs(Some(enc), Some("text/html")), &fixed(&s, n));
                let got = dec(enc, &out);
                println!("{enc} empty body stride {n}: out={} bytes dec={:?} expected={:?}", out.len(), got.as_ref().map(|d| String::from_utf8_lossy(d).to_string()), String::from_utf8_lossy(&expected));
                assert_eq!(got, Ok(expected.clone()), "{enc}");
            }
        }
    }
}

#[test]
fn gzip_multi_member() {
    let (a, b) = DOC.split_at(60);
    let mut s = gzip(a.as_bytes(), 6);
    s.extend(gzip(b.as_bytes(), 6));
    // sanity: an independent decoder reads the two members as DOC
    assert_eq!(ungzip(&s).unwrap(), DOC.as_bytes());
    let expected = run_plain(prepend_body(), Some("text/html"), DOC.as_bytes());
    let out = run(prepend_body(), &hdrs(Some("gzip"), Some("text/html")), &[&s]);
    let got = dec("gzip", &out);
    println!("multi-member: {:?}", got.as_ref().map(|d| String::from_utf8_lossy(d).to_string()));
    println!("expected    : {}", String::from_utf8_lossy(&expected));
    assert_eq!(got, Ok(expected));
}

#[test]
fn gzip_header_fields_every_split() {
    let mut e = flate2::GzBuilder::new()
        .filename("index.html")
        .comment("a comment")
        .extra(vec![1u8, 2, 3, 4, 5])
        .mtime(123456)
        .write(Vec::new(), flate2::Compression::default());
    e.write_all(DOC.as_bytes()).unwrap();
    let mut s = e.finish().unwrap();
    // add FHCRC by hand: flag bit 1, crc16 of header bytes after the comment
    let hdr_len = {
        // 10 + 2 + 5 + "index.html\0" + "a comment\0"
        10 + 2 + 5 + 11 + 10
    };
    s[3] |= 2;
    let mut crc = flate2::Crc::new();
    crc.update(&s[..hdr_len]);
    let c = (crc.sum() & 0xffff) as u16;
    s.splice(hdr_len..hdr_len, c.to_le_bytes());
    assert_eq!(ungzip(&s).unwrap(), DOC.as_bytes());

    let expected = run_plain(prepend_body(), Some("text/html"), DOC.as_bytes());
    let bad = check_all_two_splits("gzip", &s, &prepend_body, &expected, "gzhdr");
    let out = run(prepend_body(), &hdrs(Some("gzip"), Some("text/html")), &fixed(&s, 1));
    assert_eq!(dec("gzip", &out), Ok(expected));
    assert_eq!(bad, 0);
}

// ---------------------------------------------------------------------------------------------
// batch 2

#[test]
fn gzip_multi_member_chunked() {
    let (a, b) = DOC.split_at(60); // the cut is inside <body class="page">, before <div>
    let m1 = gzip(a.as_bytes(), 6);
    let m2 = gzip(b.as_bytes(), 6);
    let mut s = m1.clone();
    s.extend(m2.clone());
    assert_eq!(ungzip(&s).unwrap(), DOC.as_bytes());
    let expected = run_plain(prepend_body(), Some("text/html"), DOC.as_bytes());

    // the two members arrive as two chunks (what a server concatenating pre-compressed fragments does)
    let out = run(prepend_body(), &hdrs(Some("gzip"), Some("text/html")), &[&m1, &m2]);
    let got = dec("gzip", &out);
    println!("two chunks   : {:?}", got.as_ref().map(|d| String::from_utf8_lossy(d).to_string()));
    // stride 16
    let out2 = run(prepend_body(), &hdrs(Some("gzip"), Some("text/html")), &fixed(&s, 16));
    let got2 = dec("gzip", &out2);
    println!("stride 16    : {:?}", got2.as_ref().map(|d| String::from_utf8_lossy(d).to_string()));
    println!("expected     : {}", String::from_utf8_lossy(&expected));
    assert_eq!(got, Ok(expected.clone()));
    assert_eq!(got2, Ok(expected));
}

fn gzip_with_flushes(parts: &[&[u8]], level: u32) -> Vec<u8> {
    let mut e = flate2::write::GzEncoder::new(Vec::new(), flate2::Compression::new(level));
    for p in parts {
        e.write_all(p).unwrap();
        e.flush().unwrap();
        e.flush().unwrap(); // repeated flush: empty stored block
    }
    e.finish().unwrap()
}

fn zlib_with_full_flushes(parts: &[&[u8]], level: u32) -> Vec<u8> {
    let mut c = flate2::Compress::new(flate2::Compression::new(level), true);
    let mut out = Vec::with_capacity(1 << 20);
    for p in parts {
        c.compress_vec(p, &mut out, flate2::FlushCompress::Full).unwrap();
        c.compress_vec(&[], &mut out, flate2::FlushCompress::Partial).unwrap();
    }
    c.compress_vec(&[], &mut out, flate2::FlushCompress::Finish).unwrap();
    out
}

fn br_with_flushes(parts: &[&[u8]], q: u32, lgwin: u32) -> Vec<u8> {
    let mut w = brotli::CompressorWriter::new(Vec::new(), 4096, q, lgwin);
    for p in parts {
        w.write_all(p).unwrap();
        w.flush().unwrap();
        w.flush().unwrap();
    }
    w.into_inner()
}

#[test]
fn producer_flush_points() {
    let expected = run_plain(prepend_body(), Some("text/html"), DOC.as_bytes());
    let b = DOC.as_bytes();
    let parts: Vec<&[u8]> = vec![&b[..1], &b[1..20], &b[20..21], &b[21..70], &b[70..]];
    let mut bad = 0;
    let gz = gzip_with_flushes(&parts, 6);
    assert_eq!(ungzip(&gz).unwrap(), b);
    bad += check_all_two_splits("gzip", &gz, &prepend_body, &expected, "gzflush");
    let zl = zlib_with_full_flushes(&parts, 6);
    assert_eq!(unzlib(&zl).unwrap(), b);
    bad += check_all_two_splits("deflate", &zl, &prepend_body, &expected, "zlflush");
    for q in [0, 5, 9] {
        let brs = br_with_flushes(&parts, q, 18);
        assert_eq!(unbr(&brs).unwrap(), b);
        bad += check_all_two_splits("br", &brs, &prepend_body, &expected, "brflush");
        let out = run(prepend_body(), &hdrs(Some("br"), Some("text/html")), &fixed(&brs, 1));
        if dec("br", &out) != Ok(expected.clone()) {
            bad += 1;
        }
    }
    for s in [&gz, &zl] {
        let enc = if s[0] == 0x1f { "gzip" } else { "deflate" };
        let out = run(prepend_body(), &hdrs(Some(enc), Some("text/html")), &fixed(s, 1));
        if dec(enc, &out) != Ok(expected.clone()) {
            bad += 1;
        }
    }
    assert_eq!(bad, 0);
}

fn big_doc(n: usize) -> String {
    let mut s = String::from("<!DOCTYPE html><html><head><meta charset=\"utf-8\"><title>big</title></head><body class=\"b\">");
    let mut x: u32 = 12345;
    for i in 0..n {
        x = x.wrapping_mul(1664525).wrapping_add(1013904223);
        s.push_str(&format!("<div id=\"d{i}\" data-x=\"{x:x}\"><p>Paragraphe n° {i} — çà et là {x}</p><img src=\"/i/{x}.png\"></div>\n"));
    }
    s.push_str("</body></html>");
    s
}

#[test]
fn large_bodies() {
    let doc = big_doc(6000); // ~ 600 KB
    println!("doc len {}", doc.len());
    let filters = || {
        vec![
            html_filter("prepend_child", &["html", "body"], Some(""), "<p>INS</p>"),
            html_filter("append_child", &["html", "body"], Some(""), "<p>END</p>"),
        ]
    };
    let expected = run_plain(filters(), Some("text/html"), doc.as_bytes());
    assert!(expected.len() > doc.len());
    for (enc, s) in [
        ("gzip", gzip(doc.as_bytes(), 0)),
        ("gzip", gzip(doc.as_bytes(), 9)),
        ("deflate", zlib(doc.as_bytes(), 1)),
        ("br", br(doc.as_bytes(), 2, 24)),
        ("br", br(doc.as_bytes(), 0, 10)),
    ] {
        for n in [s.len(), 65536, 8192, 4096, 1000, 333] {
            let out = run(filters(), &hdrs(Some(enc), Some("text/html")), &fixed(&s, n));
            let got = dec(enc, &out);
            assert!(got.as_ref().map(|g| g == &expected).unwrap_or(false), "{enc} stride {n}: {:?}", got.map(|g| g.len()));
        }
    }
    // highly compressible: 8 MB of the same element
    let mut z = String::from("<html><body>");
    for _ in 0..400000 {
        z.push_str("<p>aaaaaaaaaaaaaaaa</p>");
    }
    z.push_str("</body></html>");
    let expected = run_plain(prepend_body(), Some("text/html"), z.as_bytes());
    for (enc, s) in [("gzip", gzip(z.as_bytes(), 9)), ("deflate", zlib(z.as_bytes(), 9)), ("br", br(z.as_bytes(), 5, 22))] {
        println!("{enc} bomb: {} -> {}", z.len(), s.len());
        for n in [s.len(), 100] {
            let out = run(prepend_body(), &hdrs(Some(enc), Some("text/html")), &fixed(&s, n));
            let got = dec(enc, &out);
            assert!(got.as_ref().map(|g| g == &expected).unwrap_or(false), "{enc} stride {n}");
        }
    }
}

#[test]
fn zero_byte_body() {
    // HEAD / 304 / 204 answers keep Content-Encoding but have no body at all
    for enc in ["gzip", "deflate", "br"] {
        for (name, filters) in [
            ("html", prepend_body as fn() -> Vec<BodyFilter>),
            ("append", || vec![text_filter(TextAction::Append, "APP")]),
        ] {
            let out0 = run(filters(), &hdrs(Some(enc), Some("text/html")), &[]);
            let out1 = run(filters(), &hdrs(Some(enc), Some("text/html")), &[&[]]);
            println!("{enc}/{name}: no chunk -> {} bytes {:?}; one empty chunk -> {} bytes; decodes to {:?}", out0.len(), out0, out1.len(), dec(enc, &out0).map(|d| String::from_utf8_lossy(&d).to_string()));
        }
    }
}

#[test]
fn encoding_header_variants() {
    let body = gzip(DOC.as_bytes(), 6);
    for v in ["gzip", "GZIP", "GZip", " gzip", "gzip ", "x-gzip", "gzip, br", "identity", "", "zstd", "compress"] {
        let f = FilterBodyAction::new(prepend_body(), &hdrs(Some(v), Some("text/html")));
        let out = run(prepend_body(), &hdrs(Some(v), Some("text/html")), &fixed(&body, 7));
        println!("{v:?}: is_empty={} untouched={} ", f.is_empty(), out == body);
    }
    // plain body, identity / empty declared
    for v in ["identity", ""] {
        let out = run(prepend_body(), &hdrs(Some(v), Some("text/html")), &[DOC.as_bytes()]);
        println!("plain body with {v:?}: filtered={}", String::from_utf8_lossy(&out).contains("INS"));
    }
    // header name case
    let h = vec![
        Header { name: "CONTENT-ENCODING".into(), value: "gzip".into() },
        Header { name: "content-TYPE".into(), value: "Text/HTML; charset=UTF-8".into() },
    ];
    let out = run(prepend_body(), &h, &fixed(&body, 7));
    assert!(String::from_utf8_lossy(&ungzip(&out).unwrap()).contains("INS"));
}

// ---------------------------------------------------------------------------------------------
// batch 3: sweep of documents x filters, stored gzip so that every compressed split is a text split

fn sweep_docs() -> Vec<&'static str> {
    vec![
        "<!DOCTYPE html><html lang=\"fr\"><head><meta charset=\"utf-8\"><meta name=\"description\" content=\"Old > desc\"><title>T &amp; t</title><link rel=\"canonical\" href=\"/a?b=1&amp;c=2\"></head><body class=\"a b\" data-x='1>2'><h1>Héllo &lt;world&gt;</h1><p>a<br/>b<br>c</p><img src=x alt=\"y\"><input disabled></body></html>",
        "<html><head><meta name=\"description\" content=\"x\"/></head><body><div><div><p>deep</p></div></div><svg viewBox=\"0 0 1 1\"><path d=\"M0 0\"/></svg><p>1 < 2 and 3 > 2 && a</p></body></html>",
        "<HTML><HEAD><TITLE>Caps</TITLE></HEAD><BODY CLASS=page><P>unclosed<P>again<UL><LI>a<LI>b</UL></BODY></HTML>",
        "<html><head></head><body>日本語のテキスト😀😀😀<p title=\"ünï\">ça</p>\u{2028}</body></html>",
        "<html>\r\n<head>\r\n</head>\r\n<body>\r\n\t<p>x</p>\r\n</body>\r\n</html>\r\n",
        "<html><head><script src=\"a.js\"></script><style>p{color:red}</style></head><body><script>var a = 1;</script><p>z</p></body></html>",
        "<html><head><title>t</title></head><body><!-- plain comment --><p>x</p><![CDATA[ cdata ]]><?pi x?></body></html>",
        "<body><p>no html element</p></body>",
        "<html><body></body></html><html><body><p>second doc</p></body></html>",
        "<html><head><meta name=\"description\" content=\"first\"><meta name=\"description\" content=\"second\"></head><body><body><p>nested body</p></body></body></html>",
    ]
}

fn sweep_filters() -> Vec<(&'static str, fn() -> Vec<BodyFilter>)> {
    vec![
        ("prepend body", prepend_body as fn() -> Vec<BodyFilter>),
        ("append body", || vec![html_filter("append_child", &["html", "body"], Some(""), "<p>END</p>")]),
        ("append body none css", || vec![html_filter("append_child", &["html", "body"], None, "<p>END</p>")]),
        ("append head css", || {
            vec![html_filter(
                "append_child",
                &["html", "head"],
                Some("meta[name=\"description\"]"),
                "<meta name=\"description\" content=\"New\" />",
            )]
        }),
        ("replace meta css", || {
            vec![html_filter(
                "replace",
                &["html", "head", "meta"],
                Some("meta[name=\"description\"]"),
                "<meta name=\"description\" content=\"New\" />",
            )]
        }),
        ("replace title", || vec![html_filter("replace", &["html", "head", "title"], Some(""), "<title>New é</title>")]),
        ("prepend head css", || vec![html_filter("prepend_child", &["html", "head"], Some("link[rel=\"canonical\"]"), "<link rel=\"canonical\" href=\"/n\">")]),
        ("append+replace pair", || {
            vec![
                html_filter("append_child", &["html", "head"], Some("meta[name=\"description\"]"), "<meta name=\"description\" content=\"New\" />"),
                html_filter("replace", &["html", "head", "meta"], Some("meta[name=\"description\"]"), "<meta name=\"description\" content=\"New\" />"),
            ]
        }),
        ("html + text append/prepend", || {
            vec![
                text_filter(TextAction::Prepend, "<!-- pre -->"),
                html_filter("prepend_child", &["html", "body"], Some(""), "<p>INS</p>"),
                text_filter(TextAction::Append, "<!-- post -->"),
            ]
        }),
        ("text replace then html", || vec![text_filter(TextAction::Replace, "<html><body><p>R</p></body></html>"), html_filter("prepend_child", &["html", "body"], Some(""), "<p>INS</p>")]),
        ("html then text replace", || vec![html_filter("prepend_child", &["html", "body"], Some(""), "<p>INS</p>"), text_filter(TextAction::Replace, "REPLACED")]),
        ("replace body", || vec![html_filter("replace", &["html", "body"], Some(""), "<body>NB</body>")]),
        ("append p deep", || vec![html_filter("append_child", &["html", "body", "div", "div"], Some(""), "<i>x</i>")]),
    ]
}

#[test]
fn sweep_stored_gzip() {
    let mut bad = 0;
    let mut total = 0;
    for doc in sweep_docs() {
        let s = gzip(doc.as_bytes(), 0);
        let z = zlib(doc.as_bytes(), 9);
        let b = br(doc.as_bytes(), 4, 20);
        for (name, filters) in sweep_filters() {
            let expected = run_plain(filters(), Some("text/html"), doc.as_bytes());
            let mut runs: Vec<(&str, String, Vec<u8>)> = Vec::new();
            for i in 0..=s.len() {
                runs.push(("gzip", format!("split {i}"), run(filters(), &hdrs(Some("gzip"), Some("text/html")), &split_at_all(&s, &[i]))));
            }
            for n in 1..=9 {
                runs.push(("gzip", format!("stride {n}"), run(filters(), &hdrs(Some("gzip"), Some("text/html")), &fixed(&s, n))));
                runs.push(("deflate", format!("stride {n}"), run(filters(), &hdrs(Some("deflate"), Some("text/html")), &fixed(&z, n))));
                runs.push(("br", format!("stride {n}"), run(filters(), &hdrs(Some("br"), Some("text/html")), &fixed(&b, n))));
            }
            for (enc, how, out) in runs {
                total += 1;
                match dec(enc, &out) {
                    Ok(d) if d == expected => {}
                    other => {
                        bad += 1;
                        if bad < 30 {
                            println!(
                                "[{name}] {enc} {how} doc={:?}\n   got      {:?}\n   expected {:?}",
                                &doc[..40.min(doc.len())],
                                other.map(|d| String::from_utf8_lossy(&d).to_string()),
                                String::from_utf8_lossy(&expected)
                            );
                        }
                    }
                }
            }
        }
    }
    println!("sweep: {bad} bad of {total}");
    assert_eq!(bad, 0);
}

// ---------------------------------------------------------------------------------------------
// batch 4

#[test]
fn sweep_more_docs() {
    let docs = [
        "<html><head><title>x</title></head><body><p title=\"<body>\">a</p><a href='x>y'>l</a><p>1 <2 3</p><p>a<b</p></body></html>",
        "<html><body><p>x</p </body></html>",
        "<html><body></ body><p>a</p></></body ></html >",
        "<html><body\n class=\"x\"\n><p>a</p></body\n></html>",
        "<html><body><p>a & b &amp c &#x3c;body&#62;</p><</body></html>",
        "<html><body/><p>after self closing body</p></html>",
        "<html><body><body><p>x</p></body></html><",
        "<html><body><p>x</p></body></html></",
        "\u{feff}<html><body><p>bom</p></body></html>",
    ];
    let mut bad = 0;
    let mut total = 0;
    for doc in docs {
        let s = gzip(doc.as_bytes(), 0);
        let b = br(doc.as_bytes(), 0, 16);
        for (name, filters) in sweep_filters() {
            let expected = run_plain(filters(), Some("text/html"), doc.as_bytes());
            let mut runs: Vec<(&str, String, Vec<u8>)> = Vec::new();
            for i in 0..=s.len() {
                runs.push(("gzip", format!("split {i}"), run(filters(), &hdrs(Some("gzip"), Some("text/html")), &split_at_all(&s, &[i]))));
            }
            for n in 1..=9 {
                runs.push(("gzip", format!("stride {n}"), run(filters(), &hdrs(Some("gzip"), Some("text/html")), &fixed(&s, n))));
                runs.push(("br", format!("stride {n}"), run(filters(), &hdrs(Some("br"), Some("text/html")), &fixed(&b, n))));
            }
            for (enc, how, out) in runs {
                total += 1;
                match dec(enc, &out) {
                    Ok(d) if d == expected => {}
                    other => {
                        bad += 1;
                        if bad < 30 {
                            println!(
                                "[{name}] {enc} {how} doc={:?}\n   got      {:?}\n   expected {:?}",
                                doc,
                                other.map(|d| String::from_utf8_lossy(&d).to_string()),
                                String::from_utf8_lossy(&expected)
                            );
                        }
                    }
                }
            }
        }
    }
    println!("sweep2: {bad} bad of {total}");
    assert_eq!(bad, 0);
}

#[test]
fn zero_byte_body_replace_text() {
    // "serve this robots.txt" rule, backend answers an empty body but keeps Content-Encoding
    for enc in ["gzip", "deflate", "br"] {
        let filters = || vec![text_filter(TextAction::Replace, "User-Agent: *")];
        let plain = run(filters(), &hdrs(None, Some("text/plain")), &[]);
        let out = run(filters(), &hdrs(Some(enc), Some("text/plain")), &[]);
        println!("{enc}: plain={:?} compressed path -> {} bytes, dec={:?}", String::from_utf8_lossy(&plain), out.len(), dec(enc, &out).map(|d| String::from_utf8_lossy(&d).to_string()));
    }
}

#[test]
fn through_action_and_rule_json() {
    use redirectionio::action::Action;
    use redirectionio::api::Rule;
    use redirectionio::http::{PathAndQueryWithSkipped, Request};
    use redirectionio::router::Router;
    use redirectionio::RouterConfig;

    let config = RouterConfig::default();
    let mut router = Router::<Rule>::from_config(config.clone());
    let rule: Rule = serde_json::from_str(r#"{"body_filters":[{"action":"append_child","css_selector":"meta[name=\"description\"]","element_tree":["html","head"],"value":"<meta name=\"description\" content=\"New Description\" />"},{"action":"replace","css_selector":"meta[name=\"description\"]","element_tree":["html","head","meta"],"value":"<meta name=\"description\" content=\"New Description\" />"},{"action":"append_text","content":"<!-- tail -->"}],"id":"r","rank":0,"source":{"path":"/source"}}"#).unwrap();
    router.insert(rule);
    let request = Request::new(PathAndQueryWithSkipped::from_config(&config, "/source"), "/source".to_string(), None, None, None, None, None);
    let request = Request::rebuild_with_config(&router.config, &request);
    let body = "<html><head><meta name=\"description\" content=\"Old\"><title>é</title></head><body>x</body></html>";

    let mut expected = None;
    for (enc, s) in [(None, body.as_bytes().to_vec()), (Some("gzip"), gzip(body.as_bytes(), 6)), (Some("deflate"), zlib(body.as_bytes(), 6)), (Some("br"), br(body.as_bytes(), 9, 22)), (Some("zstd"), b"\x28\xb5\x2f\xfd whatever".to_vec())] {
        for n in [1usize, 4, 1000] {
            let matched = router.match_request(&request);
            let mut action = Action::from_routes_rule(matched, &request, None);
            let headers = hdrs(enc, Some("text/html; charset=utf-8"));
            let filter = action.create_filter_body(200, &headers);
            match enc {
                Some("zstd") => assert!(filter.is_none()),
                _ => {
                    let mut f = filter.unwrap();
                    let mut out = Vec::new();
                    for c in s.chunks(n) {
                        out.extend(f.filter(c.to_vec(), None));
                    }
                    out.extend(f.end(None));
                    let plain = match enc {
                        None => out,
                        Some(e) => dec(e, &out).unwrap(),
                    };
                    if expected.is_none() {
                        println!("{}", String::from_utf8_lossy(&plain));
                        expected = Some(plain.clone());
                    }
                    assert_eq!(Some(plain), expected, "{enc:?} {n}");
                }
            }
        }
    }
}

#[test]
fn with_unit_trace_same_output() {
    use redirectionio::action::UnitTrace;
    let filters = || {
        vec![
            html_filter("prepend_child", &["html", "body"], Some(""), "<p>INS</p>"),
            text_filter(TextAction::Append, "tail"),
        ]
    };
    let expected = run_plain(filters(), Some("text/html"), DOC.as_bytes());
    for (enc, s) in [("gzip", gzip(DOC.as_bytes(), 6)), ("deflate", zlib(DOC.as_bytes(), 6)), ("br", br(DOC.as_bytes(), 5, 22))] {
        let mut trace = UnitTrace::default();
        let mut f = FilterBodyAction::new(filters(), &hdrs(Some(enc), Some("text/html")));
        let mut out = Vec::new();
        for c in s.chunks(3) {
            out.extend(f.filter(c.to_vec(), Some(&mut trace)));
        }
        out.extend(f.end(Some(&mut trace)));
        assert_eq!(dec(enc, &out), Ok(expected.clone()));
    }
}

// ---------------------------------------------------------------------------------------------
// batch 5

#[test]
fn many_encoder_flushes_text_filters() {
    let doc = big_doc(100);
    for (name, filters) in [
        ("append", (|| vec![text_filter(TextAction::Append, "TAIL")]) as fn() -> Vec<BodyFilter>),
        ("prepend", || vec![text_filter(TextAction::Prepend, "HEAD")]),
        ("replace", || vec![text_filter(TextAction::Replace, "REPL")]),
    ] {
        let expected = run_plain(filters(), Some("application/json"), doc.as_bytes());
        for (enc, s) in [("gzip", gzip(doc.as_bytes(), 0)), ("deflate", zlib(doc.as_bytes(), 0)), ("br", br(doc.as_bytes(), 0, 10)), ("br", br(doc.as_bytes(), 9, 22))] {
            for n in [1usize, 2, 17] {
                let out = run(filters(), &hdrs(Some(enc), Some("application/json")), &fixed(&s, n));
                assert_eq!(dec(enc, &out).map(|d| d == expected), Ok(true), "{name} {enc} {n}");
            }
        }
    }
}

#[test]
fn gzip_trailing_empty_member() {
    // a complete member followed by an empty member (20 bytes): e.g. a producer that closes its gzip writer twice
    let mut s = gzip(DOC.as_bytes(), 6);
    s.extend(gzip(b"", 6));
    assert_eq!(ungzip(&s).unwrap(), DOC.as_bytes());
    let expected = run_plain(prepend_body(), Some("text/html"), DOC.as_bytes());
    let out = run(prepend_body(), &hdrs(Some("gzip"), Some("text/html")), &fixed(&s, 32));
    let got = dec("gzip", &out);
    println!("trailing empty member: {:?}", got.as_ref().map(|d| String::from_utf8_lossy(d).to_string()));
    assert_eq!(got, Ok(expected));
}

#[test]
fn gzip_multi_member_diagnostic() {
    let (a, b) = DOC.split_at(60);
    let m1 = gzip(a.as_bytes(), 6);
    let m2 = gzip(b.as_bytes(), 6);
    let mut f = FilterBodyAction::new(prepend_body(), &hdrs(Some("gzip"), Some("text/html")));
    let o1 = f.filter(m1.clone(), None);
    let o2 = f.filter(m2.clone(), None);
    let o3 = f.end(None);
    println!("m1={} m2={} | o1={} o2={} o3={}", m1.len(), m2.len(), o1.len(), o2.len(), o3.len());
    println!("o2 ends with raw second member: {}", o2.ends_with(&m2));
    println!("o2 prefix before raw member: {:?}", String::from_utf8_lossy(&o2[..o2.len() - m2.len()]));
    // what a tolerant reader gets from o1: inflate the sync-flushed prefix
    let mut d = flate2::Decompress::new(false);
    let mut buf = vec![0u8; 4096];
    let _ = d.decompress(&o1[10..], &mut buf, flate2::FlushDecompress::Sync);
    println!("o1 inflates to: {:?}", String::from_utf8_lossy(&buf[..d.total_out() as usize]));
}

#[test]
fn two_content_encoding_headers_last_wins() {
    let body = gzip(DOC.as_bytes(), 6);
    let h = |a: &str, b: &str| {
        vec![
            Header { name: "Content-Encoding".into(), value: a.into() },
            Header { name: "Content-Encoding".into(), value: b.into() },
            Header { name: "Content-Type".into(), value: "text/html".into() },
        ]
    };
    let f1 = FilterBodyAction::new(prepend_body(), &h("gzip", "identity"));
    let f2 = FilterBodyAction::new(prepend_body(), &h("identity", "gzip"));
    println!("gzip,identity -> is_empty={} ; identity,gzip -> is_empty={}", f1.is_empty(), f2.is_empty());
    let out = run(prepend_body(), &h("identity", "gzip"), &fixed(&body, 9));
    assert!(String::from_utf8_lossy(&ungzip(&out).unwrap()).contains("INS"));
}
