#![allow(unknown_lints)]
#![allow(clippy::all)]
extern crate redirectionio;

use redirectionio::RouterConfig;
use redirectionio::action::Action;
use redirectionio::api::Rule;
use redirectionio::http::{Header, Request};
use redirectionio::router::Router;
use std::process::Command;

unsafe extern "C" {
    fn redirectionio_log_init_stderr();
}

fn run_child(name: &str) -> std::process::Output {
    Command::new(std::env::current_exe().unwrap())
        .args([name, "--exact", "--nocapture", "--test-threads=1"])
        .env("ZZ_CHILD", name)
        .output()
        .unwrap()
}

fn is_child(name: &str) -> bool {
    std::env::var("ZZ_CHILD").map(|v| v == name).unwrap_or(false)
}

// ---------- F1: log init twice ----------
#[test]
fn child_log_init_twice() {
    if !is_child("child_log_init_twice") {
        return;
    }
    unsafe {
        redirectionio_log_init_stderr();
        eprintln!("first call returned");
        redirectionio_log_init_stderr();
        eprintln!("second call returned");
    }
}

#[test]
fn f1_log_init_stderr_twice_must_not_abort() {
    let out = run_child("child_log_init_twice");
    let stderr = String::from_utf8_lossy(&out.stderr);
    println!("status: {:?}\nstderr: {}", out.status, stderr);
    assert!(out.status.success(), "child aborted: {:?}", out.status);
}

// ---------- F2: nested :not( selector ----------
fn filter_with_selector(selector: &str, body: &str) -> Vec<u8> {
    let rule = serde_json::json!({
        "id": "r", "rank": 0, "source": {"path": "/foo"},
        "body_filters": [{
            "action": "append_child", "value": "<p>x</p>", "element_tree": ["html", "body"],
            "css_selector": selector
        }]
    });
    let rule: Rule = serde_json::from_value(rule).unwrap();
    let mut router = Router::<Rule>::from_config(RouterConfig::default());
    router.insert(rule);
    let request = Request::from_config(&router.config, "/foo".to_string(), None, None, None, None, None);
    let routes = router.match_request(&request);
    assert_eq!(routes.len(), 1);
    let mut action = Action::from_routes_rule(routes, &request, None);
    let mut filter = action.create_filter_body(200, &[]).expect("filter");
    let mut out = filter.filter(body.as_bytes().to_vec(), None);
    out.extend(filter.end(None));
    out
}

#[test]
fn child_nested_not() {
    if !is_child("child_nested_not") {
        return;
    }
    let n: usize = std::env::var("ZZ_N").ok().and_then(|s| s.parse().ok()).unwrap_or(20000);
    let selector = format!("{}p{}", ":not(".repeat(n), ")".repeat(n));
    let out = filter_with_selector(&selector, "<html><body><div>a</div></body></html>");
    eprintln!("returned {} bytes", out.len());
}

#[test]
fn f2_nested_not_selector_must_not_overflow() {
    let out = run_child("child_nested_not");
    let stderr = String::from_utf8_lossy(&out.stderr);
    let tail: String = stderr.chars().rev().take(600).collect::<String>().chars().rev().collect();
    println!("status: {:?}\nstderr tail: {}", out.status, tail);
    assert!(out.status.success(), "child aborted: {:?}", out.status);
}

// ---------- fuzz helpers ----------
struct Rng(u64);
impl Rng {
    fn next(&mut self) -> u64 {
        self.0 ^= self.0 << 13;
        self.0 ^= self.0 >> 7;
        self.0 ^= self.0 << 17;
        self.0
    }
    fn below(&mut self, n: usize) -> usize {
        (self.next() % n as u64) as usize
    }
    fn pick<'a>(&mut self, items: &[&'a str]) -> &'a str {
        items[self.below(items.len())]
    }
}

fn gen_from(rng: &mut Rng, atoms: &[&str], max: usize) -> String {
    let n = rng.below(max) + 1;
    let mut s = String::new();
    for _ in 0..n {
        s.push_str(rng.pick(atoms));
    }
    s
}

const SEL_ATOMS: &[&str] = &[
    "a", "p", "div", "*", ".", "#", "[", "]", "=", "\"", "'", ":", "::", "(", ")", ">", "+", "~", " ", ",", "|", "^=", "$=", "*=", "~=",
    ":not(", ":is(", ":where(", ":has(", ":nth-child(", ":nth-of-type(", ":nth-last-child(", "2n+1", "-n", "n", "odd", "even", " of ",
    "99999999999999999999", "-2147483648", "2147483647n+2147483647", "\\", "\\0", "\\110000 ", "\u{0}", "é", "\u{1F600}", "i", "s",
    ":first-child", ":empty", ":root", ":link", ":hover", "::before", "[a|b]", "[*|a]", "[a=b i]", "/*", "*/", "@", "!", "&", "%", "0", "-", "_", "--",
    ":lang(", ":dir(", ":host(", "::slotted(", "::part(", ":nth-col(", "e1", "1e999", ".5", "\n", "\t", "<", "}", "{", ";",
];

#[test]
fn fuzz_selectors() {
    let mut rng = Rng(0x9E3779B97F4A7C15);
    let body = "<html><body><div class=\"a\" id=b lang=en><p>x<a href=/>l</a></p><p></p></div></body></html>";
    let mut failures = Vec::new();
    for _ in 0..6000 {
        let selector = gen_from(&mut rng, SEL_ATOMS, 8);
        let s2 = selector.clone();
        let r = std::panic::catch_unwind(move || filter_with_selector(&s2, body));
        if r.is_err() {
            failures.push(selector);
        }
    }
    println!("selector panics: {:?}", failures);
    assert!(failures.is_empty());
}

const HTML_ATOMS: &[&str] = &[
    "<", ">", "</", "/>", "html", "body", "head", "div", "p", "script", "style", "title", "textarea", "plaintext", "xmp", "iframe", "noscript",
    "br", "img", "meta", " ", "=", "\"", "'", "a", "<!--", "-->", "--", "!", "<!DOCTYPE", "<![CDATA[", "]]>", "?", "é", "\u{1F600}", "\0", "\n",
    "<html>", "<body>", "</body>", "</html>", "<head>", "</head>", "<div>", "</div>", "<p>", "</p>", "<script>", "</script>", "<BODY>", "</BODY >",
    "<body/>", "<body", "</body", "<br>", "<br/>", "<meta name=description content=x>", "<title>", "</title>", "/", "-", "<!", "<!-", "</ ", "</>",
];

fn run_filters(rule_json: serde_json::Value, chunks: Vec<Vec<u8>>, headers: Vec<Header>) {
    let rule: Rule = serde_json::from_value(rule_json).unwrap();
    let mut router = Router::<Rule>::from_config(RouterConfig::default());
    router.insert(rule);
    let request = Request::from_config(&router.config, "/foo".to_string(), None, None, None, None, None);
    let routes = router.match_request(&request);
    let mut action = Action::from_routes_rule(routes, &request, None);
    let mut trace = redirectionio::action::UnitTrace::default();
    if let Some(mut filter) = action.create_filter_body(200, &headers) {
        for c in chunks {
            filter.filter(c, Some(&mut trace));
        }
        filter.end(Some(&mut trace));
    }
}

#[test]
fn fuzz_html_bodies() {
    let mut rng = Rng(0xD1B54A32D192ED03);
    let actions = ["append_child", "prepend_child", "replace"];
    let trees: [&[&str]; 6] = [&["html", "body"], &["body"], &["html", "head", "meta"], &["div", "div"], &["p"], &["html", "head", "title"]];
    let selectors = ["", "p", "meta[name=description]", "div > p", "title", "body"];
    let mut failures = Vec::new();
    for i in 0..8000 {
        let body = gen_from(&mut rng, HTML_ATOMS, 30).into_bytes();
        // random chunking at arbitrary byte positions
        let mut chunks = Vec::new();
        let mut rest = body.as_slice();
        while !rest.is_empty() {
            let n = rng.below(rest.len().min(12)) + 1;
            chunks.push(rest[..n].to_vec());
            rest = &rest[n..];
        }
        if rng.below(10) == 0 {
            // arbitrary bytes
            chunks.push(vec![0xff, 0xc3, b'<', 0x80]);
        }
        let mut filters = Vec::new();
        for _ in 0..(rng.below(3) + 1) {
            if rng.below(5) == 0 {
                let text_action = ["append_text", "prepend_text", "replace_text"][rng.below(3)];
                filters.push(serde_json::json!({"action": text_action, "content": "é<b"}));
            } else {
                let tree = trees[rng.below(trees.len())];
                let html_action = actions[rng.below(3)];
                let sel = selectors[rng.below(selectors.len())];
                filters.push(serde_json::json!({
                    "action": html_action, "value": "<p>é</p>", "element_tree": tree,
                    "css_selector": sel, "id": "u", "target_hash": "h"
                }));
            }
        }
        let rule = serde_json::json!({"id": "r", "rank": 0, "source": {"path": "/foo"}, "body_filters": filters});
        let rule2 = rule.clone();
        let chunks2 = chunks.clone();
        let r = std::panic::catch_unwind(move || run_filters(rule2, chunks2, Vec::new()));
        if r.is_err() {
            failures.push((i, rule.to_string(), chunks));
        }
    }
    for f in failures.iter().take(5) {
        println!("html panic: {:?}", f);
    }
    assert!(failures.is_empty(), "{} failures", failures.len());
}

#[test]
fn fuzz_encoded_bodies() {
    let mut rng = Rng(0xA0761D6478BD642F);
    let mut failures = Vec::new();
    for i in 0..3000 {
        let enc = ["gzip", "deflate", "br", "GZIP", "identity", "gzip, br"][rng.below(6)];
        let n = rng.below(40) + 1;
        let mut data: Vec<u8> = (0..n).map(|_| rng.next() as u8).collect();
        if rng.below(2) == 0 {
            // plausible gzip header then garbage
            let mut d = vec![0x1f, 0x8b, 8, (rng.next() as u8) & 0x1f, 0, 0, 0, 0, 0, 3];
            d.extend(data);
            data = d;
        }
        let mut chunks = Vec::new();
        let mut rest = data.as_slice();
        while !rest.is_empty() {
            let k = rng.below(rest.len().min(9)) + 1;
            chunks.push(rest[..k].to_vec());
            rest = &rest[k..];
        }
        let rule = serde_json::json!({"id": "r", "rank": 0, "source": {"path": "/foo"}, "body_filters": [
            {"action": "append_child", "value": "<p>é</p>", "element_tree": ["html", "body"], "css_selector": ""}]});
        let headers = vec![Header { name: "Content-Encoding".to_string(), value: enc.to_string() }];
        let c2 = chunks.clone();
        let r = std::panic::catch_unwind(move || run_filters(rule, c2, headers));
        if r.is_err() {
            failures.push((i, enc, chunks));
        }
    }
    for f in failures.iter().take(5) {
        println!("encoded panic: {:?}", f);
    }
    assert!(failures.is_empty(), "{} failures", failures.len());
}

// ---------- rule / analysis fuzz ----------
use redirectionio::api::{
    ExplainRequestInput, ExplainRequestOutput, ImpactInput, ImpactOutput, Log, TestExamplesInput, TestExamplesOutput, UnitIdsInput, UnitIdsOutput,
};
use serde_json::{Value, json};

const STR_ATOMS: &[&str] = &[
    "/", "foo", "@", "m", "mm", "@m", "@mm", "é", "\u{1F600}", "ß", "İ", "ǅ", "%", "%2", "%C3%A9", "%ff", "?", "&", "=", "#", "+", " ", "a=1", "utm_source=x",
    "\\", "(", ")", "[", "]", "{", "}", "*", ".", "^", "$", "|", "-", "_", "A", "0", "\u{0}", "\n", "<", ">", "\"", "http://", "example.org", ":", "8080", "//", "..",
];
const REGEX_ATOMS: &[&str] = &[
    ".", "*", "+", "?", "(", ")", "[", "]", "{", "}", "|", "^", "$", "\\", "a", "b", "é", "/", "-", "[a-z]", "(?:", "(?P<m>", "(?P<x>", "(?i)", "(?-u)", "\\xff",
    "\\pL", "\\d", "{1000}", "{0,}", ".*", ".+?", "[^/]", "\\b", "\\z", "\\A", "(?s)", "(?x)", " ", "#", "\n", "[[:alpha:]]", "&&", "~~", "--", "\\Q", "\\E", "%", "\u{0}",
];
const DATE_ATOMS: &[&str] = &[
    "2024", "-", "01", "02", "31", "T", ":", "00", "59", "60", "61", "Z", "+", "23", "24", "99", ".", "999999999", "9999999999", "262143", "-262144", "+262142", " ",
    "0000", "10000", "z", "t", "+23:59", "-23:59", "+99:99", "12", "30", "Mon", "mon", "monday", "sunday", "8", "2024-02-30T00:00:00Z", "9999-12-31T23:59:60+00:00",
    "+262142-12-31T23:59:59-23:59", "-262143-01-01T00:00:00+23:59", "23:59:60", "23:59:59.9999999999",
];
const IP_ATOMS: &[&str] = &["1", ".", "2", "255", "256", "/", "0", "32", "33", "128", "129", "::", ":", "ffff", "any", "[", "]", "%eth0", " ", "-1", "1.2.3.4", "::1", "fe80::"];

fn gen_value(rng: &mut Rng, depth: usize) -> Value {
    let _ = depth;
    json!(gen_from(rng, STR_ATOMS, 6))
}

fn pv(rng: &mut Rng, items: Vec<Value>) -> Value {
    let i = rng.below(items.len());
    items[i].clone()
}

fn gen_transformer(rng: &mut Rng) -> Value {
    let kind = rng.pick(&["camelize", "dasherize", "lowercase", "replace", "slice", "underscorize", "uppercase", "unknown", ""]);
    let nums = ["0", "1", "2", "-1", "18446744073709551615", "18446744073709551616", "99999999999999999999999", "", "a", "3", " 1", "+1", "1e3"];
    let options = match rng.below(6) {
        0 => Value::Null,
        1 => json!({}),
        2 => json!({"from": rng.pick(&nums), "to": rng.pick(&nums)}),
        3 => json!({"something": gen_from(rng, STR_ATOMS, 2), "with": gen_from(rng, STR_ATOMS, 3)}),
        4 => json!({"something": "", "with": gen_from(rng, STR_ATOMS, 3)}),
        _ => json!({"from": rng.pick(&nums)}),
    };
    json!({"type": kind, "options": options})
}

fn gen_rule(rng: &mut Rng, id: &str) -> Value {
    let marker_names = ["m", "mm", "x", "", "1", "m-1", "é", "m m", "(", "P<"];
    let mut markers = Vec::new();
    for _ in 0..rng.below(3) {
        let transformers: Vec<Value> = (0..rng.below(3)).map(|_| gen_transformer(rng)).collect();
        markers.push(json!({"name": rng.pick(&marker_names), "regex": gen_from(rng, REGEX_ATOMS, 6), "transformers": transformers}));
    }
    let mut variables = Vec::new();
    for _ in 0..rng.below(3) {
        let kind = match rng.below(9) {
            0 => json!({"marker": rng.pick(&marker_names)}),
            1 => json!({"request_header": {"name": gen_from(rng, STR_ATOMS, 2), "default": null}}),
            2 => json!("request_host"),
            3 => json!("request_method"),
            4 => json!("request_path"),
            5 => json!("request_remote_address"),
            6 => json!("request_scheme"),
            7 => json!("request_time"),
            _ => json!({"request_header": {"name": "X-A", "default": gen_from(rng, STR_ATOMS, 2)}}),
        };
        let transformers: Vec<Value> = (0..rng.below(3)).map(|_| gen_transformer(rng)).collect();
        variables.push(json!({"name": rng.pick(&marker_names), "type": kind, "transformers": transformers}));
    }
    let kinds = ["is_defined", "is_not_defined", "is_equals", "is_not_equal_to", "contains", "does_not_contain", "ends_with", "starts_with", "match_regex", "bogus", ""];
    let mut headers = Vec::new();
    for _ in 0..rng.below(3) {
        let v = if rng.below(4) == 0 { Value::Null } else { json!(gen_from(rng, STR_ATOMS, 3)) };
        headers.push(json!({"type": rng.pick(&kinds), "name": rng.pick(&["X-A", "", "é", "Host", "x-a"]), "value": v}));
    }
    let mut ips = Vec::new();
    for _ in 0..rng.below(3) {
        let k = rng.pick(&["in_range", "not_in_range"]);
        let mut o = serde_json::Map::new();
        o.insert(k.to_string(), json!(gen_from(rng, IP_ATOMS, 5)));
        ips.push(Value::Object(o));
    }
    let mut dts = Vec::new();
    for _ in 0..rng.below(3) {
        let a = if rng.below(4) == 0 { Value::Null } else { json!(gen_from(rng, DATE_ATOMS, 8)) };
        let b = if rng.below(4) == 0 { Value::Null } else { json!(gen_from(rng, DATE_ATOMS, 8)) };
        dts.push(json!([a, b]));
    }
    let weekdays: Vec<Value> = (0..rng.below(3)).map(|_| json!(gen_from(rng, DATE_ATOMS, 2))).collect();
    let mut examples = Vec::new();
    for _ in 0..rng.below(3) {
        let hs: Vec<Value> = (0..rng.below(3))
            .map(|_| json!({"name": rng.pick(&["X-A", "", "é", "Host", "x-a", "a\nb"]), "value": gen_from(rng, STR_ATOMS, 3)}))
            .collect();
        examples.push(json!({
            "url": gen_from(rng, STR_ATOMS, 6),
            "method": pv(rng, vec![Value::Null, json!("GET"), json!(""), json!("é"), json!("P O"), json!("post")]),
            "headers": if rng.below(3) == 0 { Value::Null } else { json!(hs) },
            "datetime": if rng.below(2) == 0 { Value::Null } else { json!(gen_from(rng, DATE_ATOMS, 8)) },
            "ip_address": if rng.below(2) == 0 { Value::Null } else { json!(gen_from(rng, IP_ATOMS, 5)) },
            "response_status_code": pv(rng, vec![Value::Null, json!(0), json!(200), json!(404), json!(65535)]),
            "must_match": rng.below(2) == 0,
            "unit_ids_applied": if rng.below(3) == 0 { Value::Null } else { json!(["u", "v"]) },
        }));
    }
    let hf_actions = ["add", "remove", "replace", "override", "default", "bogus", ""];
    let header_filters: Vec<Value> = (0..rng.below(3))
        .map(|_| json!({"action": rng.pick(&hf_actions), "header": rng.pick(&["Location", "", "é", "X-A", "location"]), "value": gen_from(rng, STR_ATOMS, 4), "id": "u", "target_hash": "h"}))
        .collect();
    let bf_actions = ["append_child", "prepend_child", "replace", "bogus"];
    let body_filters: Vec<Value> = (0..rng.below(3))
        .map(|_| {
            if rng.below(3) == 0 {
                json!({"action": rng.pick(&["append_text", "prepend_text", "replace_text"]), "content": gen_from(rng, STR_ATOMS, 4), "id": "v"})
            } else {
                let rnd_sel = gen_from(rng, SEL_ATOMS, 4);
                let tree: Vec<Value> = (0..rng.below(4)).map(|_| json!(rng.pick(&["html", "body", "head", "", "BODY", "é", "meta"]))).collect();
                json!({"action": rng.pick(&bf_actions), "value": gen_from(rng, STR_ATOMS, 4), "inner_value": Value::Null, "element_tree": tree,
                    "css_selector": pv(rng, vec![Value::Null, json!(""), json!("p"), json!(rnd_sel)]), "id": "v", "target_hash": "h2"})
            }
        })
        .collect();
    json!({
        "id": id,
        "rank": rng.below(3),
        "source": {
            "scheme": pv(rng, vec![Value::Null, json!("http"), json!(""), json!("HTTPS")]),
            "host": if rng.below(2) == 0 { Value::Null } else { json!(gen_from(rng, STR_ATOMS, 3)) },
            "ips": if ips.is_empty() { Value::Null } else { json!(ips) },
            "datetime": if dts.is_empty() { Value::Null } else { json!(dts) },
            "time": if rng.below(3) == 0 { json!([[gen_from(rng, DATE_ATOMS, 5), gen_from(rng, DATE_ATOMS, 5)]]) } else { Value::Null },
            "weekdays": if weekdays.is_empty() { Value::Null } else { json!(weekdays) },
            "path": gen_from(rng, STR_ATOMS, 5),
            "query": if rng.below(2) == 0 { Value::Null } else { json!(gen_from(rng, STR_ATOMS, 5)) },
            "headers": if headers.is_empty() { Value::Null } else { json!(headers) },
            "methods": pv(rng, vec![Value::Null, json!([]), json!(["GET"]), json!(["", "é"])]),
            "exclude_methods": pv(rng, vec![Value::Null, json!(true), json!(false)]),
            "response_status_codes": pv(rng, vec![Value::Null, json!([]), json!([404]), json!([0, 65535])]),
            "exclude_response_status_codes": pv(rng, vec![Value::Null, json!(true), json!(false)]),
            "sampling": pv(rng, vec![Value::Null, json!(0), json!(100), json!(4294967295u32)]),
        },
        "target": if rng.below(4) == 0 { Value::Null } else { gen_value(rng, 0) },
        "status_code": pv(rng, vec![Value::Null, json!(0), json!(301), json!(302), json!(200), json!(65535)]),
        "markers": markers,
        "variables": variables,
        "body_filters": if rng.below(2) == 0 { Value::Null } else { json!(body_filters) },
        "header_filters": if rng.below(2) == 0 { Value::Null } else { json!(header_filters) },
        "log_override": pv(rng, vec![Value::Null, json!(true), json!(false)]),
        "reset": pv(rng, vec![Value::Null, json!(true), json!(false)]),
        "stop": pv(rng, vec![Value::Null, json!(true), json!(false)]),
        "examples": if examples.is_empty() { Value::Null } else { json!(examples) },
        "redirect_unit_id": "u",
        "configuration_log_unit_id": "cl",
        "configuration_reset_unit_id": "cr",
        "target_hash": "h",
    })
}

fn gen_config(rng: &mut Rng) -> Value {
    json!({
        "ignore_host_case": rng.below(2) == 0,
        "ignore_header_case": rng.below(2) == 0,
        "ignore_path_and_query_case": rng.below(2) == 0,
        "ignore_marketing_query_params": rng.below(2) == 0,
        "marketing_query_params": ["utm_source", "a", "", "é", "A"],
        "pass_marketing_query_params_to_target": rng.below(2) == 0,
        "always_match_any_host": rng.below(2) == 0,
    })
}

fn analyse(config: Value, rules: Vec<Value>) {
    let rule0 = rules[0].clone();
    let example = rule0["examples"].get(0).cloned().unwrap_or(json!({"url": "/foo", "must_match": true}));
    let max_hops = 5;
    // rule loading + analyses
    let input: TestExamplesInput =
        serde_json::from_value(json!({"router_config": config, "rules": rules, "max_hops": max_hops, "project_domains": ["example.org"]})).unwrap();
    let out = TestExamplesOutput::create_result_without_project(input);
    let _ = serde_json::to_string(&out);

    let input: UnitIdsInput = serde_json::from_value(json!({"router_config": config, "rules": rules})).unwrap();
    let out = UnitIdsOutput::create_result_without_project(input);
    let _ = serde_json::to_string(&out);

    let input: ExplainRequestInput =
        serde_json::from_value(json!({"router_config": config, "rules": rules, "max_hops": max_hops, "example": example})).unwrap();
    if let Ok(out) = ExplainRequestOutput::create_result_without_project(input) {
        let _ = serde_json::to_string(&out);
    }

    for action in ["add", "update", "delete"] {
        let input: ImpactInput = serde_json::from_value(json!({"router_config": config, "rules": rules, "max_hops": max_hops,
            "with_redirection_loop": true, "domains": [], "rule": rule0, "action": action}))
        .unwrap();
        let out = ImpactOutput::create_result(input);
        let _ = serde_json::to_string(&out);
    }

    // live path: insert, cache, match, trace, action, log, remove
    let cfg: RouterConfig = serde_json::from_value(config.clone()).unwrap();
    let mut router = Router::<Rule>::from_config(cfg);
    for r in &rules {
        router.insert(serde_json::from_value::<Rule>(r.clone()).unwrap());
    }
    router.cache(Some(3));
    router.cache(None);
    for r in &rules {
        if let Some(examples) = r["examples"].as_array() {
            for e in examples {
                let url = e["url"].as_str().unwrap_or("/");
                let mut request = Request::from_config(&router.config, url.to_string(), Some("Example.org".to_string()), Some("http".to_string()), None, None, None);
                request.add_header("X-A".to_string(), "Vé".to_string(), router.config.ignore_header_case);
                request.add_header("X-Forwarded-For".to_string(), "1.2.3.4, [::1]:80, x".to_string(), false);
                request.add_header("Forwarded".to_string(), "for=\"[::1]:1\";=;for=,for".to_string(), false);
                let routes = router.match_request(&request);
                let _ = serde_json::to_string(&router.trace_request(&request));
                let _ = router.get_trace(&request);
                let mut action = Action::from_routes_rule(routes, &request, None);
                let code = action.get_status_code(0, None);
                let headers = action.filter_headers(vec![Header { name: "Location".into(), value: "é".into() }], 200, true, None);
                if let Some(mut f) = action.create_filter_body(200, &headers) {
                    f.filter(b"<html><head><meta name=a></head><body><p>\xc3".to_vec(), None);
                    f.filter(b"\xa9</p></body></html>".to_vec(), None);
                    f.end(None);
                }
                action.should_log_request(true, 200, None);
                let ser = serde_json::to_string(&action).unwrap();
                let _: Action = serde_json::from_str(&ser).unwrap();
                let log = Log::from_proxy(&request, code, &headers, Some(&action), "p", u128::MAX, "1.2.3.4:80");
                let _ = serde_json::to_string(&log);
            }
        }
    }
    for r in &rules {
        router.remove(r["id"].as_str().unwrap());
    }
}

#[test]
fn fuzz_rules_and_analyses() {
    let seed: u64 = std::env::var("ZZ_SEED").ok().and_then(|s| s.parse().ok()).unwrap_or(0x2545F4914F6CDD1D);
    let iterations: usize = std::env::var("ZZ_ITER").ok().and_then(|s| s.parse().ok()).unwrap_or(3000);
    let mut rng = Rng(seed);
    let mut failures = Vec::new();
    for i in 0..iterations {
        let config = gen_config(&mut rng);
        let n = rng.below(3) + 1;
        let ids = ["r1", "r2", "r1"];
        let rules: Vec<Value> = (0..n).map(|k| gen_rule(&mut rng, ids[k])).collect();
        // only keep inputs that deserialise
        if rules.iter().any(|r| serde_json::from_value::<Rule>(r.clone()).is_err()) {
            continue;
        }
        let (c2, r2) = (config.clone(), rules.clone());
        let r = std::panic::catch_unwind(move || analyse(c2, r2));
        if r.is_err() {
            failures.push((i, config, rules));
            if failures.len() >= 3 {
                break;
            }
        }
    }
    for f in failures.iter() {
        println!("ANALYSIS PANIC at {}: config={} rules={}", f.0, f.1, serde_json::to_string(&f.2).unwrap());
    }
    assert!(failures.is_empty(), "{} failures", failures.len());
}

// pin down where the recursion of F2 is: selector parsing alone
#[test]
fn child_selector_parse_only() {
    if !is_child("child_selector_parse_only") {
        return;
    }
    let n: usize = std::env::var("ZZ_N").ok().and_then(|s| s.parse().ok()).unwrap_or(2000);
    let selector = format!("{}p{}", ":not(".repeat(n), ")".repeat(n));
    let parsed = scraper::Selector::parse(&selector);
    eprintln!("parse returned ok={}", parsed.is_ok());
    std::mem::forget(parsed);
    eprintln!("done without drop");
}

#[test]
fn f2b_selector_parse_only() {
    let out = run_child("child_selector_parse_only");
    let stderr = String::from_utf8_lossy(&out.stderr);
    let tail: String = stderr.chars().rev().take(300).collect::<String>().chars().rev().collect();
    println!("status: {:?}\nstderr tail: {}", out.status, tail);
}

// deep DOM inside the buffered element, evaluated by scraper
#[test]
fn child_deep_dom() {
    if !is_child("child_deep_dom") {
        return;
    }
    let n: usize = std::env::var("ZZ_N").ok().and_then(|s| s.parse().ok()).unwrap_or(20000);
    let tag = std::env::var("ZZ_TAG").unwrap_or("div".to_string());
    let body = format!("<html><body>{}x</body></html>", format!("<{}>", tag).repeat(n));
    let start = std::time::Instant::now();
    let out = filter_with_selector("p q, q > p, :not(i) ~ p", &body);
    eprintln!("returned {} bytes in {:?}", out.len(), start.elapsed());
}

fn deep_dom_time(n: usize) -> f64 {
    let body = format!("<html><body>{}x</body></html>", "<div>".repeat(n));
    let start = std::time::Instant::now();
    let out = filter_with_selector("p", &body);
    assert!(out.len() >= body.len());
    start.elapsed().as_secs_f64()
}

// F3: time of the css_selector evaluation grows much faster than the size of the buffered element
#[test]
fn f3_deep_dom_time_must_be_linear() {
    let t1 = deep_dom_time(3000);
    let t2 = deep_dom_time(12000);
    println!("3000 nested divs: {:.3}s, 12000 nested divs: {:.3}s, ratio {:.1} (linear = 4)", t1, t2, t2 / t1);
    assert!(t2 / t1 < 8.0, "super-linear: ratio {:.1}", t2 / t1);
}
