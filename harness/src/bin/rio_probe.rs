//! Child process for crash-prone cases. Modes:
//!   rio-probe ffi-seq                 read C18 cases (one JSON per line) on stdin, answer "OK" / "FAIL <why>" per line
//!   rio-probe ffi-null <index> 0 <stack_kib>     run one combination of the NULL matrix (C07: must simply survive)
//!   rio-probe script <variant> <len> <stack_kib> tokenise + filter a long raw-text element on a thread with that stack
//!   rio-probe nested <variant> <len> <stack_kib> a router of <len> rules whose patterns are nested prefixes, same stack
use rio_verif::alloc_audit::{self, Audit};
use rio_verif::props::c18;
use std::io::{BufRead, Write};

#[global_allocator]
static GLOBAL: Audit = Audit;

fn script_body(variant: u32, len: usize) -> Vec<u8> {
    let rep = |s: &str| -> String { s.chars().cycle().take(len).collect() };
    match variant {
        0 => format!("<html><body><script>{}</script><div>x</div></body></html>", rep("a")),
        1 => format!("<html><body><script><!--{}--></script><div>x</div></body></html>", rep("ab")),
        2 => format!("<html><body><script><!--<script>{}</script>--></script><div>x</div></body></html>", rep("a-b")),
        3 => format!("<html><body><script>{}", rep("<")),
        4 => format!("<html><body><script><!--{}", rep("-")),
        _ => format!("<html><body><style>{}</style><textarea>{}</textarea><title>{}</title><plaintext>{}", rep("a<"), rep("</t"), rep("b"), rep("<p>")),
    }
    .into_bytes()
}

fn run_script(variant: u32, len: usize) {
    use redirectionio::api::BodyFilter;
    use redirectionio::filter::FilterBodyAction;
    use redirectionio::html::{TokenType, Tokenizer};
    let body = script_body(variant, len);
    let mut tok = Tokenizer::new(body.clone());
    let mut n = 0usize;
    loop {
        match tok.next() {
            Ok(TokenType::ErrorToken) | Err(_) => break,
            Ok(_) => n += 1,
        }
        if n > body.len() + 2 {
            eprintln!("tokenizer does not terminate");
            std::process::exit(5);
        }
    }
    let f: BodyFilter = serde_json::from_str(r#"{"action":"append_child","value":"<i>x</i>","inner_value":null,"element_tree":["html","body","div"],"css_selector":null,"id":null,"target_hash":null}"#).unwrap();
    let mut fb = FilterBodyAction::new(vec![f], &[]);
    let mut out = fb.filter(body, None);
    out.extend(fb.end(None));
    std::hint::black_box(out);
}

/// Rule sets whose patterns are nested prefixes of one another: /a/@m, /aa/@m, /aaa/@m, ... (variant 0: in the path,
/// variant 1: in the host). Insertion, matching, tracing, warm-up and removal walk one tree level per rule.
fn run_nested(variant: u32, len: usize) {
    use redirectionio::api::Rule;
    use redirectionio::http::Request;
    use redirectionio::router::Router;
    use redirectionio::RouterConfig;
    let mut router = Router::<Rule>::from_config(RouterConfig::default());
    for k in 1..=len {
        let a = "a".repeat(k);
        let json = if variant == 0 {
            format!(r#"{{"id":"r{k}","rank":1,"markers":[{{"name":"m","regex":"[0-9]+"}}],"source":{{"path":"/{a}/@m"}},"status_code":301,"target":"/t/@m"}}"#)
        } else {
            format!(r#"{{"id":"r{k}","rank":1,"markers":[{{"name":"m","regex":"[0-9]+"}}],"source":{{"host":"{a}@m.example.com","path":"/p"}},"status_code":301,"target":"/t/@m"}}"#)
        };
        router.insert(serde_json::from_str::<Rule>(&json).expect("rule"));
    }
    let a = "a".repeat(len);
    let req = if variant == 0 { Request::from_config(&router.config, format!("/{a}/7"), None, None, None, None, None) } else { Request::from_config(&router.config, "/p".to_string(), Some(format!("{a}7.example.com")), None, None, None, None) };
    let matched = router.match_request(&req).len();
    let traced = router.trace_request(&req).len();
    router.cache(None);
    let again = router.match_request(&req).len();
    if matched != 1 || again != 1 {
        eprintln!("nested prefixes: the deepest rule is matched {matched} time(s), {again} after the warm-up");
        std::process::exit(6);
    }
    for k in 1..=len {
        router.remove(&format!("r{k}"));
    }
    std::hint::black_box((traced, router.len()));
}

fn main() {
    let args: Vec<String> = std::env::args().skip(1).collect();
    let mode = args.first().map(|s| s.as_str()).unwrap_or("");
    match mode {
        "ffi-seq" => {
            let stdin = std::io::stdin();
            let stdout = std::io::stdout();
            println!("READY");
            let _ = stdout.lock().flush();
            rio_verif::ffi::install_log_callback();
            alloc_audit::enable(true);
            for line in stdin.lock().lines() {
                let Ok(line) = line else { break };
                if line == "READY?" {
                    continue;
                }
                let case: c18::Case = match serde_json::from_str(&line) {
                    Ok(c) => c,
                    Err(e) => {
                        println!("FAIL INFRA: cannot decode case: {e}");
                        continue;
                    }
                };
                alloc_audit::reset_mismatches();
                let logs0 = rio_verif::ffi::LOG_MESSAGES.load(std::sync::atomic::Ordering::Relaxed);
                let r1 = c18::run_sequence(&case);
                let s1 = alloc_audit::snapshot();
                let r2 = c18::run_sequence(&case);
                let r3 = c18::run_sequence(&case);
                let s3 = alloc_audit::snapshot();
                drop((r2, r3));
                let logs = rio_verif::ffi::LOG_MESSAGES.load(std::sync::atomic::Ordering::Relaxed) - logs0;
                let verdict = if s3.double_frees > 0 {
                    format!("FAIL double free: {} block(s) released again before being handed out anew (three repetitions; {} log messages went through the callback, which releases each message once)", s3.double_frees, logs)
                } else if rio_verif::ffi::LOG_BAD.swap(0, std::sync::atomic::Ordering::Relaxed) > 0 {
                    "FAIL the log callback received a message without its \"<LEVEL> - \" prefix, a level outside 1..=5, or a foreign user-data pointer".to_string()
                } else if s3.mismatches > 0 {
                    format!("FAIL deallocation with a layout different from the allocation ({} times over three repetitions); first: {}", s3.mismatches, alloc_audit::first_mismatch())
                } else if let Err(e) = &r1 {
                    format!("FAIL {e}")
                } else if c18::leak_audited(&case) && s3.live != s1.live {
                    format!("FAIL leak: live allocations grow from {} to {} ({} bytes) over two more repetitions of the sequence", s1.live, s3.live, s3.live_bytes - s1.live_bytes)
                } else {
                    format!("OK logs={logs}")
                };
                println!("{}", verdict.replace('\n', " "));
                let _ = stdout.lock().flush();
            }
        }
        "ffi-null" => {
            let index: usize = args.get(1).and_then(|s| s.parse().ok()).unwrap_or(0);
            rio_verif::ffi::install_log_callback();
            let m = c18::null_matrix();
            if let Some(case) = m.get(index) {
                let _ = c18::run_sequence(case);
            }
        }
        "script" => {
            let variant: u32 = args.get(1).and_then(|s| s.parse().ok()).unwrap_or(0);
            let len: usize = args.get(2).and_then(|s| s.parse().ok()).unwrap_or(0);
            let stack_kib: usize = args.get(3).and_then(|s| s.parse().ok()).unwrap_or(2048);
            let h = std::thread::Builder::new().stack_size(stack_kib * 1024).spawn(move || run_script(variant, len)).expect("spawn");
            if h.join().is_err() {
                eprintln!("panic in the script probe");
                std::process::exit(101);
            }
        }
        "selector" => {
            // a css selector nested <len> levels deep (variant 0: :not(, 1: :is(), evaluated by a buffering body filter
            let variant: u32 = args.get(1).and_then(|s| s.parse().ok()).unwrap_or(0);
            let len: usize = args.get(2).and_then(|s| s.parse().ok()).unwrap_or(0);
            let stack_kib: usize = args.get(3).and_then(|s| s.parse().ok()).unwrap_or(2048);
            let h = std::thread::Builder::new()
                .stack_size(stack_kib * 1024)
                .spawn(move || {
                    use redirectionio::api::BodyFilter;
                    use redirectionio::filter::FilterBodyAction;
                    // variants 0 / 1: nesting (the selector parser recurses once per level); variants 2 / 3: a chain of <len> sibling /
                    // descendant combinators over a body that matches it link by link (selector matching recurses once per combinator)
                    let (selector, inner) = match variant {
                        0 | 1 => {
                            let open = if variant == 0 { ":not(" } else { ":is(" };
                            (format!("{}p{}", open.repeat(len), ")".repeat(len)), "<div>x</div>".to_string())
                        }
                        2 => (format!("{}b", "i+".repeat(len)), format!("{}<b>x</b>", "<i></i>".repeat(len))),
                        _ => (format!("{}b", "div ".repeat(len)), format!("{}<b>x</b>{}", "<div>".repeat(len), "</div>".repeat(len))),
                    };
                    let f: BodyFilter = serde_json::from_value(serde_json::json!({"action": "append_child", "value": "<i>x</i>", "inner_value": null, "element_tree": ["html", "body"], "css_selector": selector, "id": null, "target_hash": null})).unwrap();
                    let mut fb = FilterBodyAction::new(vec![f], &[]);
                    let mut out = fb.filter(format!("<html><body>{inner}</body></html>").into_bytes(), None);
                    out.extend(fb.end(None));
                    std::hint::black_box(out);
                })
                .expect("spawn");
            if h.join().is_err() {
                eprintln!("panic in the selector probe");
                std::process::exit(101);
            }
        }
        "loginit" => {
            // a host that initialises the loggers more than once (two modules, a reload) must survive it
            let variant: u32 = args.get(1).and_then(|s| s.parse().ok()).unwrap_or(0);
            let stderr = || unsafe { rio_verif::ffi::redirectionio_log_init_stderr() };
            let callback = rio_verif::ffi::init_log_callback_raw;
            match variant {
                0 => { stderr(); stderr(); }
                1 => { callback(); stderr(); }
                2 => { stderr(); callback(); }
                _ => { callback(); callback(); }
            }
            log::error!("still alive");
        }
        "nested" => {
            let variant: u32 = args.get(1).and_then(|s| s.parse().ok()).unwrap_or(0);
            let len: usize = args.get(2).and_then(|s| s.parse().ok()).unwrap_or(0);
            let stack_kib: usize = args.get(3).and_then(|s| s.parse().ok()).unwrap_or(2048);
            let h = std::thread::Builder::new().stack_size(stack_kib * 1024).spawn(move || run_nested(variant, len)).expect("spawn");
            if h.join().is_err() {
                eprintln!("panic in the nested-prefix probe");
                std::process::exit(101);
            }
        }
        _ => {
            eprintln!("usage: rio-probe ffi-seq | ffi-null <i> 0 <stack> | script <variant> <len> <stack_kib>");
            std::process::exit(2);
        }
    }
}
