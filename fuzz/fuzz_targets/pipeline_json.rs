#![no_main]
//! C07. Input layout: [8 bytes: seed of the structured part (rules with adversarial substitutions and mutations, requests)]
//! [1 byte: split] [rest: split into a raw request URI and a response body, verbatim].
use libfuzzer_sys::fuzz_target;
use proptest::strategy::BoxedStrategy;
use rio_verif::fuzzsupport::{from_seed, report};
use rio_verif::props::{c07, c16};

thread_local! {
    static S: BoxedStrategy<c07::Case> = c07::strategy();
}

fuzz_target!(init: { rio_verif::engine::install_panic_hook(); }, |data: &[u8]| {
    if data.len() < 10 {
        return;
    }
    if let Some(mut case) = S.with(|s| from_seed(s, &data[..8])) {
        let rest = &data[9..];
        let cut = (data[8] as usize * (rest.len() + 1)) >> 8;
        let uri = String::from_utf8_lossy(&rest[..cut]).to_string();
        case.raw_requests.truncate(1);
        case.raw_requests.push((format!("/{uri}"), Some("example.com".into()), "X-A".into(), uri));
        case.body = c16::Case::from_bytes(rest[cut..].to_vec());
        let out = c07::check(&case);
        if let Some(m) = out.failure {
            report("C07", "pipelines", &case, &m);
        }
    }
});
