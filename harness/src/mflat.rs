//! M-flat: the reference matcher. `sat(rule, request, config)` is the conjunction of per-trigger predicates
//! computed from the rule JSON; the any-host policy is applied per scheme scope on fully satisfied rules.
use crate::spec::*;
use chrono::{DateTime, Datelike, NaiveTime, Utc, Weekday};
use cidr::AnyIpCidr;
use percent_encoding::{utf8_percent_encode, CONTROLS};
use regex::{Regex, RegexBuilder};
use std::cell::RefCell;
use std::collections::HashMap;
use std::net::IpAddr;

thread_local! {
    static RECACHE: RefCell<HashMap<(String, bool), Option<Regex>>> = RefCell::new(HashMap::new());
}

/// Compile (and memoise per thread) a regex; None when it does not compile.
pub fn cached_regex(pattern: &str, ci: bool) -> Option<Regex> {
    RECACHE.with(|c| {
        let mut c = c.borrow_mut();
        if c.len() > 20_000 {
            c.clear();
        }
        c.entry((pattern.to_string(), ci))
            .or_insert_with(|| RegexBuilder::new(pattern).case_insensitive(ci).size_limit(1 << 26).build().ok())
            .clone()
    })
}

/// Template -> unanchored regex source: escape the literal text, replace `@name` (longest names first) by `(?:expr)`.
/// Returns None when no marker of the list occurs in the template (the template is then a literal).
pub fn template_regex(template: &str, markers: &[MarkerSpec]) -> Option<String> {
    let mut re = regex::escape(template);
    let mut ms: Vec<&MarkerSpec> = markers.iter().collect();
    ms.sort_by(|a, b| b.name.len().cmp(&a.name.len()));
    let mut used = false;
    for m in ms {
        let key = format!("@{}", m.name);
        if re.contains(&key) {
            let expr = utf8_percent_encode(&m.regex, CONTROLS).to_string();
            re = re.replace(&key, &format!("(?:{expr})"));
            used = true;
        }
    }
    if used {
        Some(re)
    } else {
        None
    }
}

#[derive(Debug, Clone, PartialEq)]
pub struct Verdict {
    pub scheme_any: bool,
    pub scheme: bool,
    /// None = rule bound to no host
    pub host: Option<bool>,
    pub ip: bool,
    pub method: bool,
    pub headers: bool,
    pub datetime: bool,
    pub path: bool,
}

impl Verdict {
    pub fn below_host(&self) -> bool {
        self.ip && self.method && self.headers && self.datetime && self.path
    }
    pub fn all(&self) -> bool {
        self.scheme && self.host.unwrap_or(true) && self.below_host()
    }
    pub fn failed_layers(&self) -> Vec<&'static str> {
        let mut v = Vec::new();
        if !self.scheme {
            v.push("scheme");
        }
        if self.host == Some(false) {
            v.push("host");
        }
        if !self.ip {
            v.push("ip");
        }
        if !self.method {
            v.push("method");
        }
        if !self.headers {
            v.push("headers");
        }
        if !self.datetime {
            v.push("datetime");
        }
        if !self.path {
            v.push("path");
        }
        v
    }
}

fn lower_if(s: &str, f: bool) -> String {
    if f {
        s.to_lowercase()
    } else {
        s.to_string()
    }
}

pub fn rule_path_literal(src: &SourceSpec) -> String {
    // canonical-ASCII domain: the literal is path + "?" + query (query already sorted, nothing to encode)
    match &src.query {
        Some(q) if !q.is_empty() => format!("{}?{}", src.path, q),
        _ => src.path.clone(),
    }
}

pub fn sat_scheme(src: &SourceSpec, q: &RequestSpec) -> (bool, bool) {
    match src.scheme.as_deref() {
        None | Some("") => (true, true),
        Some(s) => (false, q.scheme.as_deref() == Some(s)),
    }
}

pub fn sat_host(rule: &RuleSpec, q: &RequestSpec, cfg: &ConfigSpec) -> Option<bool> {
    let host = match rule.source.host.as_deref() {
        None | Some("") => return None,
        Some(h) => h,
    };
    let Some(req_host) = q.host.as_deref() else { return Some(false) };
    let req_host = lower_if(req_host, cfg.ignore_host_case);
    match template_regex(host, &rule.markers) {
        None => Some(lower_if(host, cfg.ignore_host_case) == req_host),
        Some(re) => Some(match cached_regex(&format!("^{re}$"), cfg.ignore_host_case) {
            None => false,
            Some(r) => r.is_match(&req_host),
        }),
    }
}

pub fn sat_ip(src: &SourceSpec, q: &RequestSpec) -> bool {
    let Some(ips) = &src.ips else { return true };
    let mut parsed: Vec<(bool, AnyIpCidr)> = Vec::new();
    for ip in ips {
        match ip {
            IpSpec::InRange(s) => {
                if let Ok(c) = s.parse::<AnyIpCidr>() {
                    parsed.push((true, c));
                }
            }
            IpSpec::NotInRange(s) => {
                if let Ok(c) = s.parse::<AnyIpCidr>() {
                    parsed.push((false, c));
                }
            }
        }
    }
    if parsed.is_empty() {
        return true; // unparsable constraints are logged and skipped
    }
    let Some(addr) = q.ip.as_ref().and_then(|s| s.parse::<IpAddr>().ok()) else { return false };
    parsed.iter().any(|(inr, c)| c.contains(&addr) == *inr)
}

pub fn sat_method(src: &SourceSpec, q: &RequestSpec) -> bool {
    let Some(methods) = &src.methods else { return true };
    if methods.is_empty() {
        return true;
    }
    let m = q.method.as_deref().unwrap_or("GET");
    let listed = methods.iter().any(|x| x == m);
    if src.exclude_methods == Some(true) {
        !listed
    } else {
        listed
    }
}

pub fn sat_headers(rule: &RuleSpec, q: &RequestSpec, cfg: &ConfigSpec) -> bool {
    let Some(conds) = &rule.source.headers else { return true };
    let ci = cfg.ignore_header_case;
    for c in conds {
        let vals: Vec<String> = q.headers.iter().filter(|(n, _)| n.eq_ignore_ascii_case(&c.name)).map(|(_, v)| lower_if(v, ci)).collect();
        let need = |f: &dyn Fn(&str, &str) -> bool, any: bool| -> Option<bool> {
            let v = lower_if(c.value.as_ref()?, ci);
            Some(if any { vals.iter().any(|x| f(x, &v)) } else { vals.iter().all(|x| f(x, &v)) })
        };
        let res: Option<bool> = match c.kind.as_str() {
            "is_defined" => Some(!vals.is_empty()),
            "is_not_defined" => Some(vals.is_empty()),
            "is_equals" => need(&|x, v| x == v, true),
            "is_not_equal_to" => need(&|x, v| x != v, false),
            "contains" => need(&|x, v| x.contains(v), true),
            "does_not_contain" => need(&|x, v| !x.contains(v), false),
            "ends_with" => need(&|x, v| x.ends_with(v), true),
            "starts_with" => need(&|x, v| x.starts_with(v), true),
            "match_regex" => match &c.value {
                None => None,
                Some(v) => match template_regex(v, &rule.markers) {
                    None => None, // no marker in the value: condition unsupported, logged and skipped
                    Some(re) => Some(match cached_regex(&re, ci) {
                        None => false,
                        Some(r) => vals.iter().any(|x| r.is_match(x)),
                    }),
                },
            },
            _ => None, // unknown kind: logged and skipped
        };
        if res == Some(false) {
            return false;
        }
    }
    true
}

fn parse_dt(s: &Option<String>) -> Option<DateTime<Utc>> {
    s.as_ref().and_then(|s| s.parse::<DateTime<Utc>>().ok())
}
fn parse_time(s: &Option<String>) -> Option<NaiveTime> {
    s.as_ref().and_then(|s| s.parse::<NaiveTime>().ok())
}

pub fn sat_datetime(src: &SourceSpec, q: &RequestSpec) -> bool {
    let now = q.created_at.as_ref().and_then(|s| parse_instant(s));
    // date-time windows: start inclusive, end exclusive; an unparsable bound is skipped (open)
    if let Some(ranges) = &src.datetime {
        if !ranges.is_empty() {
            let Some(now) = now else { return false };
            let n = now.naive_utc();
            let ok = ranges.iter().any(|(s, e)| {
                let s = parse_dt(s).map(|d| d.naive_utc());
                let e = parse_dt(e).map(|d| d.naive_utc());
                s.map(|s| n >= s).unwrap_or(true) && e.map(|e| n < e).unwrap_or(true)
            });
            if !ok {
                return false;
            }
        }
    }
    if let Some(ranges) = &src.time {
        if !ranges.is_empty() {
            let Some(now) = now else { return false };
            let t = now.naive_utc().time();
            let ok = ranges.iter().any(|(s, e)| {
                let s = parse_time(s);
                let e = parse_time(e);
                s.map(|s| t >= s).unwrap_or(true) && e.map(|e| t < e).unwrap_or(true)
            });
            if !ok {
                return false;
            }
        }
    }
    if let Some(days) = &src.weekdays {
        let parsed: Vec<Weekday> = days.iter().filter_map(|d| d.parse::<Weekday>().ok()).collect();
        if !parsed.is_empty() {
            let Some(now) = now else { return false };
            if !parsed.contains(&now.weekday()) {
                return false;
            }
        }
    }
    true
}

/// `request_canonical` is the normalised path-and-query of the request (canonical-ASCII domain: the uri itself).
pub fn sat_path(rule: &RuleSpec, request_canonical: &str, cfg: &ConfigSpec) -> bool {
    let ci = cfg.ignore_path_and_query_case;
    let lit = rule_path_literal(&rule.source);
    let req = lower_if(request_canonical, ci);
    match template_regex(&lit, &rule.markers) {
        None => lower_if(&lit, ci) == req,
        Some(re) => match cached_regex(&format!("^{re}$"), ci) {
            None => false,
            Some(r) => r.is_match(&req),
        },
    }
}

pub fn verdict(rule: &RuleSpec, q: &RequestSpec, cfg: &ConfigSpec) -> Verdict {
    let (scheme_any, scheme) = sat_scheme(&rule.source, q);
    Verdict {
        scheme_any,
        scheme,
        host: sat_host(rule, q, cfg),
        ip: sat_ip(&rule.source, q),
        method: sat_method(&rule.source, q),
        headers: sat_headers(rule, q, cfg),
        datetime: sat_datetime(&rule.source, q),
        path: sat_path(rule, &q.uri, cfg),
    }
}

/// The expected multiset of matching rule ids (each once), sorted; also returns the verdicts for classification.
pub fn expected_matches(cfg: &ConfigSpec, rules: &[RuleSpec], q: &RequestSpec) -> (Vec<String>, Vec<Verdict>) {
    let verdicts: Vec<Verdict> = rules.iter().map(|r| verdict(r, q, cfg)).collect();
    let mut out = Vec::new();
    // two scheme scopes: rules for any scheme, rules for the request's scheme
    for any_scope in [true, false] {
        let in_scope = |v: &Verdict| v.scheme_any == any_scope && v.scheme;
        let host_specific: Vec<usize> = (0..rules.len()).filter(|&i| in_scope(&verdicts[i]) && verdicts[i].host == Some(true) && verdicts[i].below_host()).collect();
        let hostless: Vec<usize> = (0..rules.len()).filter(|&i| in_scope(&verdicts[i]) && verdicts[i].host.is_none() && verdicts[i].below_host()).collect();
        for &i in &host_specific {
            out.push(rules[i].id.clone());
        }
        if cfg.always_match_any_host || host_specific.is_empty() {
            for &i in &hostless {
                out.push(rules[i].id.clone());
            }
        }
    }
    out.sort();
    (out, verdicts)
}
