#!/usr/bin/env bash
# usage: tools/run_some.sh <tier> <Cxx> [<Cyy> ...]   - like run_all.sh for the listed checks
tier="$1"; shift
cd "$(dirname "$0")/.."
rc=0
for id in "$@"; do
  start=$(date +%s)
  out=$(./check $id --tier $tier 2>&1); code=$?
  end=$(date +%s)
  echo "$id exit=$code $((end-start))s $(echo "$out" | grep -E "^$id " | tail -1 | cut -c1-160)"
  echo "$out" | grep -E "^(VIOLATION|KNOWN-FINDING|infrastructure|fuzz )" | cut -c1-200
  [ $code -ne 0 ] && rc=1
done
exit $rc
