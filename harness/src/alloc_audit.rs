//! An auditing global allocator (installed only in the `rio-probe` binary): every dealloc / realloc must present the
//! layout of the allocation; live allocations are counted so that leak growth can be measured.
use std::alloc::{GlobalAlloc, Layout, System};
use std::sync::atomic::{AtomicBool, AtomicI64, AtomicU64, AtomicUsize, Ordering};

const SLOTS: usize = 1 << 20; // open addressing, power of two

struct Table {
    ptr: [AtomicUsize; SLOTS],
    size: [AtomicUsize; SLOTS],
    align: [AtomicUsize; SLOTS],
}

static TABLE: Table = {
    #[allow(clippy::declare_interior_mutable_const)]
    const Z: AtomicUsize = AtomicUsize::new(0);
    Table { ptr: [Z; SLOTS], size: [Z; SLOTS], align: [Z; SLOTS] }
};

const TOMB: usize = 1;

pub static ENABLED: AtomicBool = AtomicBool::new(false);
static LOCK: AtomicBool = AtomicBool::new(false);
pub static LIVE: AtomicI64 = AtomicI64::new(0);
pub static LIVE_BYTES: AtomicI64 = AtomicI64::new(0);
pub static MISMATCHES: AtomicU64 = AtomicU64::new(0);
pub static FIRST_MISMATCH: [AtomicUsize; 4] = [AtomicUsize::new(0), AtomicUsize::new(0), AtomicUsize::new(0), AtomicUsize::new(0)];
pub static TABLE_FULL: AtomicBool = AtomicBool::new(false);
pub static DOUBLE_FREES: AtomicU64 = AtomicU64::new(0);

/// Direct-mapped memory of blocks that were released while tracked and have not been handed out again since.
/// A release of such a block is a double free. Collisions only evict older entries (a missed detection, never a false one).
const FREED_SLOTS: usize = 1 << 16;
static FREED: [AtomicUsize; FREED_SLOTS] = {
    #[allow(clippy::declare_interior_mutable_const)]
    const Z: AtomicUsize = AtomicUsize::new(0);
    [Z; FREED_SLOTS]
};
fn fslot(p: usize) -> usize {
    (p >> 4).wrapping_mul(0x9E3779B97F4A7C15) >> (64 - 16)
}
fn freed_mark(p: usize) {
    FREED[fslot(p)].store(p, Ordering::Relaxed);
}
fn freed_clear(p: usize) {
    let s = &FREED[fslot(p)];
    if s.load(Ordering::Relaxed) == p {
        s.store(0, Ordering::Relaxed);
    }
}
fn freed_has(p: usize) -> bool {
    FREED[fslot(p)].load(Ordering::Relaxed) == p
}

fn lock() {
    while LOCK.compare_exchange_weak(false, true, Ordering::Acquire, Ordering::Relaxed).is_err() {
        std::hint::spin_loop();
    }
}
fn unlock() {
    LOCK.store(false, Ordering::Release);
}

fn hash(p: usize) -> usize {
    (p >> 4).wrapping_mul(0x9E3779B97F4A7C15) >> (64 - 20)
}

fn insert(p: usize, size: usize, align: usize) {
    let mut i = hash(p);
    for _ in 0..SLOTS {
        let cur = TABLE.ptr[i].load(Ordering::Relaxed);
        if cur == 0 || cur == TOMB || cur == p {
            TABLE.ptr[i].store(p, Ordering::Relaxed);
            TABLE.size[i].store(size, Ordering::Relaxed);
            TABLE.align[i].store(align, Ordering::Relaxed);
            return;
        }
        i = (i + 1) & (SLOTS - 1);
    }
    TABLE_FULL.store(true, Ordering::Relaxed);
}

fn remove(p: usize) -> Option<(usize, usize)> {
    let mut i = hash(p);
    for _ in 0..SLOTS {
        let cur = TABLE.ptr[i].load(Ordering::Relaxed);
        if cur == 0 {
            return None;
        }
        if cur == p {
            TABLE.ptr[i].store(TOMB, Ordering::Relaxed);
            return Some((TABLE.size[i].load(Ordering::Relaxed), TABLE.align[i].load(Ordering::Relaxed)));
        }
        i = (i + 1) & (SLOTS - 1);
    }
    None
}

fn note_mismatch(p: usize, had: (usize, usize), given: (usize, usize)) {
    if MISMATCHES.fetch_add(1, Ordering::Relaxed) == 0 {
        FIRST_MISMATCH[0].store(p, Ordering::Relaxed);
        FIRST_MISMATCH[1].store(had.0, Ordering::Relaxed);
        FIRST_MISMATCH[2].store(given.0, Ordering::Relaxed);
        FIRST_MISMATCH[3].store(had.1 * 1000 + given.1, Ordering::Relaxed);
    }
}

pub struct Audit;

unsafe impl GlobalAlloc for Audit {
    unsafe fn alloc(&self, layout: Layout) -> *mut u8 {
        let p = System.alloc(layout);
        if !p.is_null() && ENABLED.load(Ordering::Relaxed) {
            lock();
            insert(p as usize, layout.size(), layout.align());
            freed_clear(p as usize);
            unlock();
            LIVE.fetch_add(1, Ordering::Relaxed);
            LIVE_BYTES.fetch_add(layout.size() as i64, Ordering::Relaxed);
        }
        p
    }

    unsafe fn dealloc(&self, ptr: *mut u8, layout: Layout) {
        if ENABLED.load(Ordering::Relaxed) {
            lock();
            let had = remove(ptr as usize);
            let again = had.is_none() && freed_has(ptr as usize);
            if had.is_some() {
                freed_mark(ptr as usize);
            }
            unlock();
            if again {
                // released before and not handed out since: a double free; do not pass it on so that the process stays healthy
                DOUBLE_FREES.fetch_add(1, Ordering::Relaxed);
                return;
            }
            if let Some(had) = had {
                LIVE.fetch_sub(1, Ordering::Relaxed);
                LIVE_BYTES.fetch_sub(had.0 as i64, Ordering::Relaxed);
                if had != (layout.size(), layout.align()) {
                    note_mismatch(ptr as usize, had, (layout.size(), layout.align()));
                    // free with the layout of the allocation so that the process stays healthy
                    System.dealloc(ptr, Layout::from_size_align_unchecked(had.0, had.1));
                    return;
                }
            }
        }
        System.dealloc(ptr, layout);
    }

    unsafe fn alloc_zeroed(&self, layout: Layout) -> *mut u8 {
        let p = System.alloc_zeroed(layout);
        if !p.is_null() && ENABLED.load(Ordering::Relaxed) {
            lock();
            insert(p as usize, layout.size(), layout.align());
            freed_clear(p as usize);
            unlock();
            LIVE.fetch_add(1, Ordering::Relaxed);
            LIVE_BYTES.fetch_add(layout.size() as i64, Ordering::Relaxed);
        }
        p
    }

    unsafe fn realloc(&self, ptr: *mut u8, layout: Layout, new_size: usize) -> *mut u8 {
        let mut real = layout;
        let mut tracked = false;
        if ENABLED.load(Ordering::Relaxed) {
            lock();
            let had = remove(ptr as usize);
            unlock();
            if let Some(had) = had {
                tracked = true;
                LIVE.fetch_sub(1, Ordering::Relaxed);
                LIVE_BYTES.fetch_sub(had.0 as i64, Ordering::Relaxed);
                if had != (layout.size(), layout.align()) {
                    note_mismatch(ptr as usize, had, (layout.size(), layout.align()));
                    real = Layout::from_size_align_unchecked(had.0, had.1);
                }
            }
        }
        // Every resize moves the block and poisons the old one (glibc shrinks in place, which hides pointers kept across a
        // shrink_to_fit / realloc): a stale pointer then reads 0xDD bytes and its release is seen as a second release
        let p = if ENABLED.load(Ordering::Relaxed) {
            let np = System.alloc(Layout::from_size_align_unchecked(new_size.max(1), real.align()));
            if !np.is_null() {
                std::ptr::copy_nonoverlapping(ptr, np, real.size().min(new_size));
                std::ptr::write_bytes(ptr, 0xDD, real.size());
                System.dealloc(ptr, real);
            }
            np
        } else {
            System.realloc(ptr, real, new_size)
        };
        if ENABLED.load(Ordering::Relaxed) {
            if !p.is_null() {
                lock();
                if tracked && p != ptr {
                    freed_mark(ptr as usize);
                }
                insert(p as usize, new_size, layout.align());
                freed_clear(p as usize);
                unlock();
                LIVE.fetch_add(1, Ordering::Relaxed);
                LIVE_BYTES.fetch_add(new_size as i64, Ordering::Relaxed);
            } else if tracked {
                // failed realloc keeps the old block
                lock();
                insert(ptr as usize, real.size(), real.align());
                unlock();
                LIVE.fetch_add(1, Ordering::Relaxed);
                LIVE_BYTES.fetch_add(real.size() as i64, Ordering::Relaxed);
            }
        }
        p
    }
}

#[derive(Debug, Clone, Copy, PartialEq)]
pub struct Snapshot {
    pub live: i64,
    pub live_bytes: i64,
    pub mismatches: u64,
    pub double_frees: u64,
}

pub fn snapshot() -> Snapshot {
    Snapshot { live: LIVE.load(Ordering::Relaxed), live_bytes: LIVE_BYTES.load(Ordering::Relaxed), mismatches: MISMATCHES.load(Ordering::Relaxed), double_frees: DOUBLE_FREES.load(Ordering::Relaxed) }
}

pub fn enable(on: bool) {
    ENABLED.store(on, Ordering::SeqCst);
}

pub fn first_mismatch() -> String {
    format!(
        "block {:#x}: allocated with size {} (align {}), released with size {} (align {})",
        FIRST_MISMATCH[0].load(Ordering::Relaxed),
        FIRST_MISMATCH[1].load(Ordering::Relaxed),
        FIRST_MISMATCH[3].load(Ordering::Relaxed) / 1000,
        FIRST_MISMATCH[2].load(Ordering::Relaxed),
        FIRST_MISMATCH[3].load(Ordering::Relaxed) % 1000
    )
}

pub fn reset_mismatches() {
    MISMATCHES.store(0, Ordering::Relaxed);
    DOUBLE_FREES.store(0, Ordering::Relaxed);
}
